"""Reference model for C20 (while-programs): my own tuple language, evaluator,
fuel-bounded interpreter (with deliberately wrong variants used only to *generate*
hostile specifications), Z3 encoder, HOL-shadow evaluator/encoder and generators.

Nothing in here calls a method of the repo's imperative.* objects; repo objects are
read field by field (from_repo_expr / from_repo_com) and built through their public
constructors (to_repo_expr / to_repo_com / hol builders).

expressions (arithmetic and boolean share one shape, as in the repo):
  ('v', name) | ('n', k) | ('true',) | ('op', op, a) | ('op', op, a, b)
  | ('fun', fname, a, ...) | ('ite', c, p, q)
commands:
  ('skip',) | ('asg', x, e) | ('seq', c1, c2) | ('if', b, c1, c2) | ('while', b, inv, c)
"""
import itertools

ARITH = ('+', '-', '*')
CMP = ('==', '!=', '<=', '<', '>=', '>')
BOOLBIN = ('&', '|', '-->', '<-->')


class Unsupported(Exception):
    pass


def tup(x):
    """JSON lists -> tuples."""
    if isinstance(x, list):
        return tuple(tup(y) for y in x)
    return x


# ------------------------------------------------------------------ typing of tuples
def is_bool(e):
    k = e[0]
    if k == 'true':
        return True
    if k == 'ite':
        return True
    if k == 'op':
        return e[1] in CMP or e[1] in BOOLBIN or e[1] == '~'
    return False


def well_sorted(e):
    """arith/bool sorts respected (the repo's Op does not check this)."""
    k = e[0]
    if k in ('v', 'n', 'true'):
        return True
    if k == 'fun':
        return all(well_sorted(a) and not is_bool(a) for a in e[2:])
    if k == 'ite':
        return all(well_sorted(a) and is_bool(a) for a in e[1:])
    op, args = e[1], e[2:]
    if not all(well_sorted(a) for a in args):
        return False
    if op == '~':
        return is_bool(args[0])
    if op in BOOLBIN:
        return all(is_bool(a) for a in args)
    return not any(is_bool(a) for a in args)


def expr_vars(e, acc=None):
    if acc is None:
        acc = set()
    if e[0] == 'v':
        acc.add(e[1])
    elif e[0] in ('op',):
        for a in e[2:]:
            expr_vars(a, acc)
    elif e[0] == 'fun':
        for a in e[2:]:
            expr_vars(a, acc)
    elif e[0] == 'ite':
        for a in e[1:]:
            expr_vars(a, acc)
    return acc


def com_vars(c, acc=None):
    if acc is None:
        acc = set()
    k = c[0]
    if k == 'asg':
        acc.add(c[1])
        expr_vars(c[2], acc)
    elif k == 'seq':
        com_vars(c[1], acc), com_vars(c[2], acc)
    elif k == 'if':
        expr_vars(c[1], acc), com_vars(c[2], acc), com_vars(c[3], acc)
    elif k == 'while':
        expr_vars(c[1], acc), expr_vars(c[2], acc), com_vars(c[3], acc)
    return acc


def com_kinds(c, acc=None):
    if acc is None:
        acc = set()
    acc.add(c[0])
    if c[0] == 'seq':
        com_kinds(c[1], acc), com_kinds(c[2], acc)
    elif c[0] == 'if':
        com_kinds(c[2], acc), com_kinds(c[3], acc)
    elif c[0] == 'while':
        com_kinds(c[3], acc)
    return acc


def com_depth(c):
    if c[0] == 'seq':
        return 1 + max(com_depth(c[1]), com_depth(c[2]))
    if c[0] == 'if':
        return 1 + max(com_depth(c[2]), com_depth(c[3]))
    if c[0] == 'while':
        return 1 + com_depth(c[3])
    return 1


def subterms(e):
    """post-order (children before parents)."""
    if e[0] == 'op' or e[0] == 'fun':
        for a in e[2:]:
            yield from subterms(a)
    elif e[0] == 'ite':
        for a in e[1:]:
            yield from subterms(a)
    yield e


# ------------------------------------------------------------------ algebras
class PyAlg:
    """concrete values: python ints / bools"""
    sym = False

    def num(self, k): return k
    def tt(self): return True
    def ff(self): return False
    def add(self, a, b): return a + b
    def sub(self, a, b): return a - b
    def subnat(self, a, b): return a - b if a >= b else 0
    def mul(self, a, b): return a * b
    def neg(self, a): return -a
    def lt(self, a, b): return a < b
    def le(self, a, b): return a <= b
    def eq(self, a, b): return a == b
    def not_(self, p): return not p
    def and_(self, p, q): return bool(p and q)
    def or_(self, p, q): return bool(p or q)
    def imp(self, p, q): return bool((not p) or q)
    def ite(self, c, a, b): return a if c else b
    def abs_(self, a): return abs(a)
    def max_(self, a, b): return a if a >= b else b
    def min_(self, a, b): return a if a <= b else b


class Z3Alg:
    sym = True

    def __init__(self):
        import z3
        self.z3 = z3

    def _b(self, p):
        return self.z3.BoolVal(p) if isinstance(p, bool) else p

    def num(self, k): return self.z3.IntVal(k)
    def tt(self): return self.z3.BoolVal(True)
    def ff(self): return self.z3.BoolVal(False)
    def add(self, a, b): return a + b
    def sub(self, a, b): return a - b
    def subnat(self, a, b): return self.z3.If(a >= b, a - b, self.z3.IntVal(0))
    def mul(self, a, b): return a * b
    def neg(self, a): return -a
    def lt(self, a, b): return a < b
    def le(self, a, b): return a <= b
    def eq(self, a, b): return self._b(a) == self._b(b)
    def not_(self, p): return self.z3.Not(self._b(p))
    def and_(self, p, q): return self.z3.And(self._b(p), self._b(q))
    def or_(self, p, q): return self.z3.Or(self._b(p), self._b(q))
    def imp(self, p, q): return self.z3.Implies(self._b(p), self._b(q))
    def ite(self, c, a, b): return self.z3.If(self._b(c), self._b(a), self._b(b))
    def abs_(self, a): return self.z3.If(a >= 0, a, -a)
    def max_(self, a, b): return self.z3.If(a >= b, a, b)
    def min_(self, a, b): return self.z3.If(a <= b, a, b)


PY = PyAlg()


# ------------------------------------------------------------------ evaluation of tuple expressions
def ev(e, env, alg=PY, mode='int'):
    """value of e; env: name -> value (python int or z3 Int)."""
    k = e[0]
    if k == 'v':
        return env[e[1]]
    if k == 'n':
        return alg.num(e[1])
    if k == 'true':
        return alg.tt()
    if k == 'ite':
        return alg.ite(ev(e[1], env, alg, mode), ev(e[2], env, alg, mode), ev(e[3], env, alg, mode))
    if k == 'fun':
        args = [ev(a, env, alg, mode) for a in e[2:]]
        if e[1] == 'abs' and len(args) == 1:
            return alg.abs_(args[0])
        if e[1] == 'max' and len(args) == 2:
            return alg.max_(args[0], args[1])
        raise Unsupported('fun ' + e[1])
    op = e[1]
    if len(e) == 3:
        a = ev(e[2], env, alg, mode)
        if op == '-':
            if mode == 'nat':
                raise Unsupported('unary minus on nat')
            return alg.neg(a)
        if op == '~':
            return alg.not_(a)
        raise Unsupported(op)
    a, b = ev(e[2], env, alg, mode), ev(e[3], env, alg, mode)
    if op == '+': return alg.add(a, b)
    if op == '-': return alg.subnat(a, b) if mode == 'nat' else alg.sub(a, b)
    if op == '*': return alg.mul(a, b)
    if op == '==': return alg.eq(a, b)
    if op == '!=': return alg.not_(alg.eq(a, b))
    if op == '<=': return alg.le(a, b)
    if op == '<': return alg.lt(a, b)
    if op == '>=': return alg.le(b, a)
    if op == '>': return alg.lt(b, a)
    if op == '&': return alg.and_(a, b)
    if op == '|': return alg.or_(a, b)
    if op == '-->': return alg.imp(a, b)
    if op == '<-->': return alg.eq(a, b)
    raise Unsupported(op)


# ------------------------------------------------------------------ interpreter
class OutOfFuel(Exception):
    pass


def run(c, st, fuel=300, mode='int', variant=None, trace=None, path=(), st0=None):
    """Direct big-step interpreter.  st: dict (not mutated).  Returns (final state, fuel left).
    Raises OutOfFuel.  `variant` selects a deliberately WRONG semantics (hostile-spec generation
    only): 'swap_cond' (other branch), 'assign_skip' (assignments ignored), 'seq_rev' (second half first),
    'stale_if' (branch tests read the initial state), 'stale_rhs' (right-hand sides read the initial state).
    trace: dict path -> list of loop-head states."""
    if st0 is None:
        st0 = st
    k = c[0]
    if k == 'skip':
        return st, fuel
    if k == 'asg':
        if variant == 'assign_skip':
            return st, fuel
        v = ev(c[2], st0 if variant == 'stale_rhs' else st, PY, mode)
        st2 = dict(st)
        st2[c[1]] = v
        return st2, fuel
    if k == 'seq':
        first, second = (c[1], c[2]) if variant != 'seq_rev' else (c[2], c[1])
        i1, i2 = (1, 2) if variant != 'seq_rev' else (2, 1)
        st, fuel = run(first, st, fuel, mode, variant, trace, path + (i1,), st0)
        return run(second, st, fuel, mode, variant, trace, path + (i2,), st0)
    if k == 'if':
        b = ev(c[1], st0 if variant == 'stale_if' else st, PY, mode)
        if variant == 'swap_cond':
            b = not b
        if b:
            return run(c[2], st, fuel, mode, variant, trace, path + (2,), st0)
        return run(c[3], st, fuel, mode, variant, trace, path + (3,), st0)
    if k == 'while':
        while True:
            if trace is not None:
                trace.setdefault(path, []).append(st)
            if not ev(c[1], st, PY, mode):
                return st, fuel
            fuel -= 1
            if fuel <= 0:
                raise OutOfFuel()
            st, fuel = run(c[3], st, fuel, mode, variant, trace, path + (3,), st)
            if any(abs(v) > 10 ** 6 for v in st.values()):
                raise OutOfFuel()
    raise Unsupported(k)


def cube(names, lo, hi):
    names = list(names)
    for vals in itertools.product(range(lo, hi + 1), repeat=len(names)):
        yield dict(zip(names, vals))


# ------------------------------------------------------------------ reading / building repo objects
def from_repo_expr(x):
    """Read an imperative.expr object field by field (no repo method is called)."""
    n = type(x).__name__
    d = x.__dict__
    if n == 'Var':
        return ('v', d['name'])
    if n == 'Const':
        v = d['val']
        if v is True:
            return ('true',)
        if v is False:
            raise Unsupported('false constant')
        return ('n', int(v))
    if n == 'Op':
        return ('op', d['op']) + tuple(from_repo_expr(a) for a in d['args'])
    if n == 'Fun':
        return ('fun', d['fname']) + tuple(from_repo_expr(a) for a in d['args'])
    if n == 'ITE':
        return ('ite', from_repo_expr(d['cond']), from_repo_expr(d['e1']), from_repo_expr(d['e2']))
    raise Unsupported('expr class ' + n)


def to_repo_expr(e):
    from imperative import expr as E
    k = e[0]
    if k == 'v':
        return E.Var(e[1])
    if k == 'n':
        return E.Const(e[1])
    if k == 'true':
        return E.Const(True)
    if k == 'op':
        return E.Op(e[1], *[to_repo_expr(a) for a in e[2:]])
    if k == 'fun':
        return E.Fun(e[1], *[to_repo_expr(a) for a in e[2:]])
    if k == 'ite':
        return E.ITE(*[to_repo_expr(a) for a in e[1:]])
    raise Unsupported(k)


def from_repo_com(x):
    n = type(x).__name__
    d = x.__dict__
    if n == 'Skip':
        return ('skip',)
    if n == 'Assign':
        v = from_repo_expr(d['v'])
        if v[0] != 'v':
            raise Unsupported('assignment target')
        return ('asg', v[1], from_repo_expr(d['e']))
    if n == 'Seq':
        return ('seq', from_repo_com(d['c1']), from_repo_com(d['c2']))
    if n == 'Cond':
        return ('if', from_repo_expr(d['b']), from_repo_com(d['c1']), from_repo_com(d['c2']))
    if n == 'While':
        return ('while', from_repo_expr(d['b']), from_repo_expr(d['inv']), from_repo_com(d['c']))
    raise Unsupported('com class ' + n)


def to_repo_com(c):
    """Fresh objects every time (compute_wp mutates .pre/.post)."""
    from imperative import com as C
    k = c[0]
    if k == 'skip':
        return C.Skip()
    if k == 'asg':
        return C.Assign(c[1], to_repo_expr(c[2]))
    if k == 'seq':
        return C.Seq(to_repo_com(c[1]), to_repo_com(c[2]))
    if k == 'if':
        return C.Cond(to_repo_expr(c[1]), to_repo_com(c[2]), to_repo_com(c[3]))
    if k == 'while':
        return C.While(to_repo_expr(c[1]), to_repo_expr(c[2]), to_repo_com(c[3]))
    raise Unsupported(k)


# ------------------------------------------------------------------ my own printer (witness display only)
def show(e):
    k = e[0]
    if k == 'v':
        return e[1]
    if k == 'n':
        return str(e[1])
    if k == 'true':
        return 'true'
    if k == 'ite':
        return '(if %s then %s else %s)' % tuple(show(a) for a in e[1:])
    if k == 'fun':
        return '%s(%s)' % (e[1], ','.join(show(a) for a in e[2:]))
    if len(e) == 3:
        return '%s(%s)' % (e[1], show(e[2])) if e[2][0] in ('op', 'ite') else e[1] + show(e[2])
    def par(a):
        return '(' + show(a) + ')' if a[0] == 'op' and len(a) == 4 else show(a)
    return '%s %s %s' % (par(e[2]), e[1], par(e[3]))


def show_com(c):
    k = c[0]
    if k == 'skip':
        return 'skip'
    if k == 'asg':
        return '%s := %s' % (c[1], show(c[2]))
    if k == 'seq':
        return '(%s; %s)' % (show_com(c[1]), show_com(c[2]))
    if k == 'if':
        return 'if (%s) then {%s} else {%s}' % (show(c[1]), show_com(c[2]), show_com(c[3]))
    return 'while (%s) [%s] {%s}' % (show(c[1]), show(c[2]), show_com(c[3]))


# ------------------------------------------------------------------ Z3 validity
def z3_valid(build, names, mode='int', rlimit=3000000, check_model=None):
    """build(alg, env) -> z3 Bool of the formula F.  Decides validity of F over all integer
    (mode int) or natural (mode nat) values of `names`.
    Returns ('valid', None) | ('invalid', model dict) | ('unknown', reason).
    An 'invalid' answer is only given when check_model(model) confirms the counter-model by
    evaluation; 'valid' is Z3's unsat of the negation (trusted, stated in the evidence)."""
    import z3
    alg = Z3Alg()
    env = {n: z3.Int(n) for n in names}
    try:
        f = build(alg, env)
    except Unsupported as e:
        return 'unknown', 'unsupported: %s' % e
    s = z3.Solver()
    s.set('rlimit', rlimit)
    if mode == 'nat':
        for n in names:
            s.add(env[n] >= 0)
    s.add(z3.Not(f))
    r = s.check()
    if r == z3.unsat:
        return 'valid', None
    if r == z3.sat:
        m = s.model()
        model = {}
        for n in names:
            v = m.eval(env[n], model_completion=True)
            try:
                model[n] = v.as_long()
            except Exception:
                return 'unknown', 'non-integer model'
        if check_model is not None:
            try:
                ok = check_model(model)
            except Exception as e:
                return 'unknown', 'model re-check failed: %s' % type(e).__name__
            if not ok:
                return 'unknown', 'counter-model not confirmed by evaluation'
        return 'invalid', model
    return 'unknown', 'z3 unknown'


def tuple_valid(vc, mode='int', rlimit=3000000):
    names = sorted(expr_vars(vc))
    return z3_valid(lambda alg, env: ev(vc, env, alg, mode), names, mode, rlimit,
                    check_model=lambda m: ev(vc, m, PY, mode) is False)


# ------------------------------------------------------------------ HOL shadows: generic evaluator
def _strip(sh):
    args = []
    while sh[0] == 'comb':
        args.append(sh[2])
        sh = sh[1]
    args.reverse()
    return sh, args


def _is_nat(T):
    return T == ('tc', 'nat', ())


def _res_type(T, n):
    for _ in range(n):
        T = T[2][1]
    return T


def hol_numeral(sh):
    """python int of a closed numeral shadow (zero, one, of_nat(bit..)), else None."""
    if sh[0] == 'const' and sh[1] == 'zero':
        return 0
    if sh[0] == 'const' and sh[1] == 'one':
        return 1
    if sh[0] == 'comb' and sh[1][0] == 'const' and sh[1][1] == 'of_nat':
        return _bits(sh[2])
    return None


def _bits(sh):
    if sh[0] == 'const' and sh[1] == 'one':
        return 1
    if sh[0] == 'const' and sh[1] == 'zero':
        return 0
    if sh[0] == 'comb' and sh[1][0] == 'const' and sh[1][1] in ('bit0', 'bit1'):
        r = _bits(sh[2])
        if r is None:
            return None
        return 2 * r + (1 if sh[1][1] == 'bit1' else 0)
    return None


class FnVal:
    """function value nat => nat/int: python callable on a CONCRETE key (python int)."""
    def __init__(self, f):
        self.f = f

    def __call__(self, k):
        return self.f(k)


def ev_hol(sh, env, alg=PY, bounds=()):
    """Evaluate a HOL shadow term of the fragment produced by imperative.* .
    env: free variable name -> value (int, z3 Int, or FnVal); bounds: values for de Bruijn indices.
    Function-typed subterms evaluate to FnVal; keys must be concrete numerals."""
    k = sh[0]
    if k == 'bound':
        return bounds[-1 - sh[1]]
    if k == 'var' or k == 'svar':
        if sh[1] not in env:
            raise Unsupported('free variable ' + sh[1])
        return env[sh[1]]
    if k == 'abs':
        body = sh[3]
        return FnVal(lambda kk, body=body, bounds=bounds: ev_hol(body, env, alg, bounds + (kk,)))
    n = hol_numeral(sh)
    if n is not None:
        return alg.num(n)
    h, args = _strip(sh)
    if h[0] != 'const':
        f = ev_hol(h, env, alg, bounds)
        for a in args:
            if not isinstance(f, FnVal):
                raise Unsupported('application of non-function')
            kk = ev_key(a, env, alg, bounds)
            f = f(kk)
        return f
    name, T = h[1], h[2]
    E = lambda i: ev_hol(args[i], env, alg, bounds)
    na = len(args)
    if name == 'true' and na == 0: return alg.tt()
    if name == 'false' and na == 0: return alg.ff()
    if name == 'plus' and na == 2: return alg.add(E(0), E(1))
    if name == 'times' and na == 2: return alg.mul(E(0), E(1))
    if name == 'minus' and na == 2:
        return alg.subnat(E(0), E(1)) if _is_nat(_res_type(T, 2)) else alg.sub(E(0), E(1))
    if name == 'uminus' and na == 1: return alg.neg(E(0))
    if name == 'Suc' and na == 1: return alg.add(E(0), alg.num(1))
    if name == 'less' and na == 2: return alg.lt(E(0), E(1))
    if name == 'less_eq' and na == 2: return alg.le(E(0), E(1))
    if name == 'greater' and na == 2: return alg.lt(E(1), E(0))
    if name == 'greater_eq' and na == 2: return alg.le(E(1), E(0))
    if name == 'equals' and na == 2:
        a, b = E(0), E(1)
        if isinstance(a, FnVal) or isinstance(b, FnVal):
            raise Unsupported('function equality')
        return alg.eq(a, b)
    if name == 'neg' and na == 1: return alg.not_(E(0))
    if name == 'conj' and na == 2: return alg.and_(E(0), E(1))
    if name == 'disj' and na == 2: return alg.or_(E(0), E(1))
    if name == 'implies' and na == 2: return alg.imp(E(0), E(1))
    if name == 'IF' and na == 3: return alg.ite(E(0), E(1), E(2))
    if name == 'abs' and na == 1: return alg.abs_(E(0))
    if name == 'max' and na == 2: return alg.max_(E(0), E(1))
    if name == 'min' and na == 2: return alg.min_(E(0), E(1))
    if name == 'of_nat' and na == 1: return E(0)
    if name == 'fun_upd' and na >= 3:
        f, a, b = E(0), ev_key(args[1], env, alg, bounds), args[2]
        if not isinstance(f, FnVal):
            raise Unsupported('fun_upd of non-function')
        g = FnVal(lambda kk, f=f, a=a, b=b, bounds=bounds: ev_hol(b, env, alg, bounds) if kk == a else f(kk))
        r = g
        for x in args[3:]:
            r = r(ev_key(x, env, alg, bounds))
        return r
    raise Unsupported('constant %s/%d' % (name, na))


def ev_key(sh, env, alg, bounds):
    """a state index: must be a concrete natural number"""
    n = hol_numeral(sh)
    if n is not None:
        return n
    v = ev_hol(sh, env, PY, bounds) if not alg.sym else None
    if isinstance(v, int) and not isinstance(v, bool):
        return v
    raise Unsupported('symbolic state index')


def hol_vc_valid(sh, nvars_hint=8, rlimit=3000000):
    """Validity of a closed-up-to-nat-Vars HOL VC of the form  !s::nat=>nat. body  (or body without
    quantifier).  s k become Z3 Ints >= 0 created on demand; free nat Vars likewise.
    Returns (verdict, info) like z3_valid."""
    import z3
    from vf import shadow as S
    body, quant = sh, False
    if sh[0] == 'comb' and sh[1][0] == 'const' and sh[1][1] == 'all' and sh[2][0] == 'abs':
        body, quant = sh[2][3], True
    ftypes = {n: T for (_k, n, T) in S.atoms(sh, kinds=('var',))}
    fvars = sorted(ftypes)
    for n, T in ftypes.items():
        if not (_is_nat(T) or T == ('tc', 'int', ())):
            return 'unknown', 'free variable %s of unsupported type' % n
    used = {}

    def mk_state(algx, table):
        def f(k):
            if not isinstance(k, int):
                raise Unsupported('symbolic state index')
            if k not in table:
                table[k] = z3.Int('s_%d' % k) if algx.sym else 0
            return table[k]
        return FnVal(f)

    alg = Z3Alg()
    env = {n: z3.Int('v_' + n) for n in fvars}
    try:
        f = ev_hol(body, env, alg, (mk_state(alg, used),) if quant else ())
    except Unsupported as e:
        return 'unknown', 'unsupported: %s' % e
    s = z3.Solver()
    s.set('rlimit', rlimit)
    for n in fvars:
        if _is_nat(ftypes[n]):
            s.add(env[n] >= 0)
    for k, v in used.items():
        s.add(v >= 0)
    s.add(z3.Not(alg._b(f)))
    r = s.check()
    if r == z3.unsat:
        return 'valid', None
    if r == z3.sat:
        m = s.model()
        try:
            st = {k: m.eval(v, model_completion=True).as_long() for k, v in used.items()}
            fv = {n: m.eval(env[n], model_completion=True).as_long() for n in fvars}
            val = ev_hol(body, fv, PY, (FnVal(lambda k: st.get(k, 0)),) if quant else ())
        except Exception as e:
            return 'unknown', 'model re-check failed: %s' % type(e).__name__
        if val is False:
            return 'invalid', {'state': {str(k): v for k, v in st.items()}, 'vars': fv}
        return 'unknown', 'counter-model not confirmed by evaluation'
    return 'unknown', 'z3 unknown'


# ------------------------------------------------------------------ generators
NAMES_INT = ['a', 'b', 'c', 'x', 'y', 'm', 'n', 'A', 'B']


class Gen:
    def __init__(self, rng, mode='int', names=None):
        self.rng = rng
        self.mode = mode
        if names is None:
            if mode == 'nat':
                names = ['a', 'b', 'c'][:rng.choice([1, 2, 2, 3, 3])]
            else:
                names = rng.sample(NAMES_INT, rng.choice([1, 2, 2, 3, 3, 3]))
        self.names = list(names)

    # -- arithmetic
    def var(self):
        return ('v', self.rng.choice(self.names))

    def const(self):
        return ('n', self.rng.choice([0, 1, 1, 2, 2, 3, 4]))

    def leaf(self):
        return self.var() if self.rng.random() < 0.65 else self.const()

    def arith(self, d):
        r = self.rng
        if d <= 0 or r.random() < 0.25:
            return self.leaf()
        if self.mode == 'nat':
            k = r.choice(['+', '+', '+', '*k', 'prec', '-'] if d >= 1 else ['+'])
            if k == '+':
                return ('op', '+', self.arith(d - 1), self.arith(d - 1))
            if k == '-':
                return ('op', '-', self.arith(d - 1), self.leaf())
            if k == '*k':
                return ('op', '*', self.arith(d - 1), self.const() if r.random() < 0.7 else self.var())
            a, b, c = self.leaf(), self.leaf(), self.leaf()
            return r.choice([('op', '*', ('op', '+', a, b), c), ('op', '+', ('op', '*', a, b), c),
                             ('op', '*', a, ('op', '+', b, c)), ('op', '+', a, ('op', '*', b, c))])
        k = r.choice(['+', '-', '-', '*k', 'neg', 'fun', 'prec', 'prec'])
        if k in ('+', '-'):
            return ('op', k, self.arith(d - 1), self.arith(d - 1))
        if k == '*k':
            return ('op', '*', self.arith(d - 1), self.const() if r.random() < 0.7 else self.var())
        if k == 'neg':
            return ('op', '-', self.arith(d - 1))
        if k == 'fun':
            if r.random() < 0.5:
                return ('fun', 'abs', self.arith(d - 1))
            return ('fun', 'max', self.arith(d - 1), self.arith(d - 1))
        # nestings where precedence matters
        a, b, c = self.leaf(), self.leaf(), self.leaf()
        return r.choice([
            ('op', '-', a, ('op', '-', b, c)), ('op', '-', ('op', '-', a, b), c),
            ('op', '-', ('op', '+', a, b)), ('op', '+', ('op', '-', a), b),
            ('op', '*', ('op', '+', a, b), c), ('op', '+', ('op', '*', a, b), c),
            ('op', '-', a, ('op', '+', b, c)), ('op', '+', ('op', '-', a, b), c),
            ('op', '*', a, ('op', '-', b, c)), ('op', '-', ('op', '*', a, b), c),
            ('op', '*', ('op', '-', a), b), ('op', '-', ('op', '-', a)),
        ])

    # -- conditions
    def atom(self, d=1, ops=None):
        op = self.rng.choice(ops or ['==', '!=', '<=', '<', '<=', '<'])
        return ('op', op, self.arith(d), self.arith(self.rng.choice([0, d])))

    def cond(self, d, arith_d=1):
        r = self.rng
        if d <= 0 or r.random() < 0.3:
            return self.atom(arith_d)
        k = r.choice(['&', '|', '-->', '~', 'ite', 'prec', 'prec'])
        if k in ('&', '|', '-->'):
            return ('op', k, self.cond(d - 1, arith_d), self.cond(d - 1, arith_d))
        if k == '~':
            return ('op', '~', self.cond(d - 1, arith_d))
        if k == 'ite':
            return ('ite', self.cond(d - 1, 0), self.cond(d - 1, arith_d), self.cond(d - 1, arith_d))
        p, q, s = self.atom(arith_d), self.atom(0), self.atom(0)
        return r.choice([
            ('op', '~', ('op', '&', p, q)), ('op', '~', ('op', '|', p, q)), ('op', '~', ('op', '-->', p, q)),
            ('op', '&', ('op', '|', p, q), s), ('op', '&', p, ('op', '|', q, s)),
            ('op', '-->', ('op', '-->', p, q), s), ('op', '-->', p, ('op', '-->', q, s)),
            ('op', '|', ('op', '-->', p, q), s), ('op', '&', ('op', '-->', p, q), s),
            ('op', '&', ('ite', p, q, s), p), ('op', '~', ('op', '~', p)),
            ('op', '|', ('op', '&', p, q), s), ('op', '&', ('op', '~', p), q),
        ])

    def test(self, simple=False):
        """a loop / branch condition"""
        r = self.rng
        if simple:          # what imp.eval_Sem can decide: equalities between variables/numerals
            a = self.var()
            b = self.const() if r.random() < 0.7 else self.var()
            return ('op', r.choice(['==', '!=']), a, b)
        x = r.random()
        if x < 0.6:
            return ('op', r.choice(['==', '!=', '<', '<=', '<', '<=']), self.leaf() if r.random() < 0.8 else self.arith(1),
                    self.leaf())
        if x < 0.85:
            return ('op', r.choice(['&', '|']), self.test(), self.test())
        return self.cond(1, 1)

    # -- programs
    def assign(self, d=2):
        return ('asg', self.rng.choice(self.names), self.arith(self.rng.choice([1, 1, d])))

    def com(self, depth, simple_tests=False, loops_left=None):
        r = self.rng
        if loops_left is None:
            loops_left = [2]
        if depth <= 1:
            return ('skip',) if r.random() < 0.12 else self.assign()
        k = r.choice(['seq', 'seq', 'seq', 'if', 'if', 'while', 'while', 'leaf'])
        if k == 'while' and loops_left[0] <= 0:
            k = 'seq'
        if k == 'leaf':
            return self.com(1)
        if k == 'seq':
            if r.random() < 0.25:
                # data dependence across the sequence: a branch whose test reads the variable just assigned
                a = self.assign()
                x = ('v', a[1])
                if simple_tests:
                    b = ('op', r.choice(['==', '!=']), x, self.const())
                else:
                    b = ('op', r.choice(['<', '<=', '==', '!=']), r.choice([x, ('op', '+', x, self.leaf())]), self.leaf())
                return ('seq', a, ('if', b, self.com(depth - 1, simple_tests, loops_left),
                                   self.com(depth - 1, simple_tests, loops_left)))
            return ('seq', self.com(depth - 1, simple_tests, loops_left), self.com(depth - 1, simple_tests, loops_left))
        if k == 'if':
            return ('if', self.test(simple_tests), self.com(depth - 1, simple_tests, loops_left),
                    self.com(depth - 1, simple_tests, loops_left))
        loops_left[0] -= 1
        return self.loop(depth, simple_tests, loops_left)

    def loop(self, depth, simple_tests, loops_left):
        """terminating counting loops most of the time; invariant filled in later (placeholder true)"""
        r = self.rng
        x = r.choice(self.names)
        others = [n for n in self.names if n != x]
        body_extra = self.com(depth - 2, simple_tests, loops_left) if depth >= 3 and r.random() < 0.8 else None
        if body_extra is not None and x in _assigned(body_extra):
            body_extra = _rename_assigned(body_extra, x, others) if others else None
        bound = ('n', r.choice([1, 2, 3, 4])) if (r.random() < 0.6 or not others) else ('v', r.choice(others))
        if body_extra is not None and bound[0] == 'v' and bound[1] in _assigned(body_extra):
            bound = ('n', r.choice([2, 3]))
        kind = r.random()
        if self.mode == 'nat' or kind < 0.55:      # count up
            if simple_tests:
                b = ('op', '!=', ('v', x), bound)
            else:
                b = r.choice([('op', '<', ('v', x), bound), ('op', '!=', ('v', x), bound),
                              ('op', '<=', ('op', '+', ('v', x), ('n', 1)), bound),
                              ('op', '~', ('op', '<=', bound, ('v', x)))])
            step = ('asg', x, ('op', '+', ('v', x), ('n', 1)))
        elif kind < 0.9:                            # count down
            b = r.choice([('op', '<', bound, ('v', x)), ('op', '!=', ('v', x), bound),
                          ('op', '&', ('op', '<', bound, ('v', x)), ('op', '!=', ('v', x), bound))])
            step = ('asg', x, ('op', '-', ('v', x), ('n', 1)))
        else:                                       # anything
            b = self.test(simple_tests)
            step = self.assign()
        body = step if body_extra is None else (('seq', body_extra, step) if r.random() < 0.7 else ('seq', step, body_extra))
        return ('while', b, ('true',), body)


def _assigned(c, acc=None):
    if acc is None:
        acc = set()
    if c[0] == 'asg':
        acc.add(c[1])
    elif c[0] == 'seq':
        _assigned(c[1], acc), _assigned(c[2], acc)
    elif c[0] == 'if':
        _assigned(c[2], acc), _assigned(c[3], acc)
    elif c[0] == 'while':
        _assigned(c[3], acc)
    return acc


def _rename_assigned(c, x, others):
    """assignments to x inside c are redirected to others[0] (keeps counting loops terminating)"""
    if c[0] == 'asg':
        return ('asg', others[0], c[2]) if c[1] == x else c
    if c[0] == 'seq':
        return ('seq', _rename_assigned(c[1], x, others), _rename_assigned(c[2], x, others))
    if c[0] == 'if':
        return ('if', c[1], _rename_assigned(c[2], x, others), _rename_assigned(c[3], x, others))
    if c[0] == 'while':
        return ('while', c[1], c[2], _rename_assigned(c[3], x, others))
    return c


def loops_of(c, path=()):
    """paths (as used by run's trace) of all while nodes"""
    if c[0] == 'seq':
        yield from loops_of(c[1], path + (1,))
        yield from loops_of(c[2], path + (2,))
    elif c[0] == 'if':
        yield from loops_of(c[2], path + (2,))
        yield from loops_of(c[3], path + (3,))
    elif c[0] == 'while':
        yield path
        yield from loops_of(c[3], path + (3,))


def set_inv(c, invs, path=()):
    if c[0] == 'seq':
        return ('seq', set_inv(c[1], invs, path + (1,)), set_inv(c[2], invs, path + (2,)))
    if c[0] == 'if':
        return ('if', c[1], set_inv(c[2], invs, path + (2,)), set_inv(c[3], invs, path + (3,)))
    if c[0] == 'while':
        return ('while', c[1], invs.get(path, c[2]), set_inv(c[3], invs, path + (3,)))
    return c


def sub_at(c, path):
    for i in path:
        c = c[i]
    return c


def conj_list(ps):
    ps = list(ps)
    if not ps:
        return ('op', '==', ('n', 0), ('n', 0))
    r = ps[-1]
    for p in reversed(ps[:-1]):
        r = ('op', '&', p, r)
    return r


def candidate_pool(gen, extra=12):
    """assertion candidates over gen.names: simple relational atoms + generated (precedence-sensitive) conditions"""
    r = gen.rng
    ns = gen.names
    pool = []
    ks = [0, 1, 2, 3, 4]
    for v in ns:
        for k in ks:
            pool.append(('op', '==', ('v', v), ('n', k)))
            pool.append(('op', '<=', ('v', v), ('n', k)))
            pool.append(('op', '<=', ('n', k), ('v', v)))
            pool.append(('op', '!=', ('v', v), ('n', k)))
            pool.append(('op', '<', ('n', k), ('v', v)))
    for v in ns:
        for w in ns:
            if v == w:
                continue
            pool.append(('op', '<=', ('v', v), ('v', w)))
            pool.append(('op', '==', ('v', v), ('v', w)))
            pool.append(('op', '<', ('v', v), ('v', w)))
            pool.append(('op', '!=', ('v', v), ('v', w)))
            for k in (1, 2, 3):
                pool.append(('op', '==', ('v', v), ('op', '+', ('v', w), ('n', k))))
                pool.append(('op', '==', ('v', v), ('op', '*', ('v', w), ('n', k))))
                pool.append(('op', '<=', ('v', v), ('op', '+', ('v', w), ('n', k))))
                if gen.mode == 'int':
                    pool.append(('op', '<=', ('op', '-', ('v', v), ('v', w)), ('n', k)))
            for u in ns:
                if u != v and u != w and v < w:
                    pool.append(('op', '==', ('v', u), ('op', '+', ('v', v), ('v', w))))
                    if gen.mode == 'int':
                        pool.append(('op', '==', ('v', u), ('op', '-', ('v', v), ('v', w))))
                        pool.append(('op', '==', ('op', '-', ('op', '-', ('v', u), ('v', v)), ('v', w)), ('n', 0)))
    for _ in range(extra):
        pool.append(gen.cond(r.choice([1, 1, 2]), r.choice([0, 1, 1, 2])))
    r.shuffle(pool)
    return pool
