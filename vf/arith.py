"""Independent evaluator of HOL arithmetic shadows following the DECLARED types in the term
(DESIGN C05): naturals with truncated subtraction, integers, exact rationals, x/0 = 0,
of_nat/of_int coercions, natural and real powers (library definition in transcendentals.json),
sign-preserving sqrt; irrational values by mpmath at 80 digits with a 1e-45 decision margin.
Results are three-valued: True / False / None (unknown)."""
from fractions import Fraction
import math
import mpmath
from vf import shadow as S

mp = mpmath.mp.clone()
mp.dps = 80
TOL = mpmath.mpf(10) ** -45


class Unknown(Exception):
    pass


class Val:
    __slots__ = ('q', 'f', 'irr')

    def __init__(self, q=None, f=None, irr=False):
        self.q = q              # exact Fraction or None
        self.f = mp.mpf(q.numerator) / q.denominator if q is not None else f
        self.irr = irr          # known irrational

    def __repr__(self):
        return 'Val(%s)' % (self.q if self.q is not None else mpmath.nstr(self.f, 25) + ('~irr' if self.irr else '~'))


def Q(x):
    return Val(q=Fraction(x))


def approx(f, irr=False):
    return Val(f=mp.mpf(f), irr=irr)


def compare(a, b):
    """'<' '>' '=' '!=' (different, order unknown) or '?'"""
    if a.q is not None and b.q is not None:
        return '<' if a.q < b.q else ('>' if a.q > b.q else '=')
    d = a.f - b.f
    scale = 1 + abs(a.f) + abs(b.f)
    if abs(d) > TOL * scale:
        return '<' if d < 0 else '>'
    if (a.q is not None and b.irr) or (b.q is not None and a.irr):
        return '!='
    return '?'


def add(a, b):
    if a.q is not None and b.q is not None:
        return Q(a.q + b.q)
    return approx(a.f + b.f, irr=(a.q is not None and b.irr) or (b.q is not None and a.irr))


def neg(a):
    return Q(-a.q) if a.q is not None else approx(-a.f, a.irr)


def mul(a, b):
    if a.q is not None and b.q is not None:
        return Q(a.q * b.q)
    if (a.q is not None and a.q == 0) or (b.q is not None and b.q == 0):
        return Q(0)
    return approx(a.f * b.f, irr=(a.q is not None and b.irr) or (b.q is not None and a.irr))


def inv(a):
    if a.q is not None:
        return Q(0) if a.q == 0 else Q(1 / a.q)
    if abs(a.f) < TOL:
        raise Unknown('inverse of a value not distinguishable from 0')
    return approx(1 / a.f, a.irr)


def iroot(n, k):
    """exact integer k-th root of n >= 0 or None"""
    if n < 0:
        return None
    if n < 2:
        return n
    r = int(round(n ** (1.0 / k))) if n < 10 ** 300 else int(mp.nint(mp.root(n, k)))
    for c in (r - 1, r, r + 1, r + 2, r - 2):
        if c >= 0 and c ** k == n:
            return c
    return None


def qpow_rational(base, p, q):
    """base > 0 exact Fraction, exponent p/q in lowest terms (q>=1). -> Val"""
    if q == 1:
        return Q(base ** p) if abs(p) < 4000 else approx(mp.power(mp.mpf(base.numerator) / base.denominator, p))
    rn, rd = iroot(base.numerator, q), iroot(base.denominator, q)
    if rn is not None and rd is not None:
        return Q(Fraction(rn, rd) ** p)
    return approx(mp.power(mp.mpf(base.numerator) / base.denominator, mp.mpf(p) / q), irr=True)


def real_power(x, y):
    """library definition (transcendentals.json): x>0: exp(y log x); x=0: 1 if y=0 else 0;
    x<0: -(exp(y log -x)) if |y| = m/n with m,n odd else exp(y log -x)"""
    c0 = compare(x, Q(0))
    if c0 in ('?', '!='):
        raise Unknown('sign of power base unknown')
    if c0 == '=':
        cy = compare(y, Q(0))
        if cy == '?':
            raise Unknown('0 ^ y with y ~ 0')
        return Q(1) if cy == '=' else Q(0)
    if c0 == '>':
        if x.q is not None and y.q is not None:
            return qpow_rational(x.q, y.q.numerator, y.q.denominator)
        return approx(mp.exp(y.f * mp.log(x.f)))
    # negative base
    if y.q is None:
        raise Unknown('negative base with inexact exponent')
    ay = abs(y.q)
    odd_odd = (ay.numerator % 2 == 1 and ay.denominator % 2 == 1)
    mag = real_power(neg(x), y)
    return neg(mag) if odd_odd else mag


def nat_of(v):
    if v.q is None or v.q.denominator != 1 or v.q < 0:
        raise Unknown('not a natural number value')
    return int(v.q)


def is_num_type(T):
    return T in (S.NAT, S.INT, S.REAL)


def binary(s):
    """value of a bit0/bit1/zero/one nat term or None"""
    if s[0] == 'const' and s[2] == S.NAT:
        if s[1] == 'zero':
            return 0
        if s[1] == 'one':
            return 1
        return None
    if s[0] == 'comb' and s[1][0] == 'const' and s[1][2] == S.fun(S.NAT, S.NAT):
        if s[1][1] in ('bit0', 'bit1'):
            v = binary(s[2])
            if v is None:
                return None
            return 2 * v + (1 if s[1][1] == 'bit1' else 0)
    return None


def ev(s, env=None):
    """value of a numeric shadow term.  env: {('var',name,T): Fraction}"""
    k = s[0]
    if k in ('var', 'svar'):
        if env is not None and s in env:
            return Q(env[s])
        raise Unknown('free variable %s' % s[1])
    if k == 'const':
        n, T = s[1], s[2]
        if n == 'zero' and is_num_type(T):
            return Q(0)
        if n == 'one' and is_num_type(T):
            return Q(1)
        if n == 'pi' and T == S.REAL:
            return approx(mp.pi, irr=True)
        raise Unknown('constant %s' % n)
    if k != 'comb':
        raise Unknown('binder')
    h, args = S.strip_comb(s)
    if h[0] != 'const':
        raise Unknown('head not a constant')
    n, T = h[1], h[2]
    argTs, res = [], T
    for _ in args:
        if not (res[0] == 'tc' and res[1] == 'fun'):
            raise Unknown('ill-typed')
        argTs.append(res[2][0])
        res = res[2][1]
    if not is_num_type(res):
        raise Unknown('non-numeric result type')
    na = len(args)
    if n in ('bit0', 'bit1') and na == 1:
        v = binary(s)
        if v is None:
            raise Unknown('bad binary')
        return Q(v)
    if n == 'of_nat' and na == 1 and argTs[0] == S.NAT:
        b = binary(args[0])
        if b is not None:
            return Q(b)
        return Q(nat_of(ev(args[0], env)))
    if n == 'of_int' and na == 1 and argTs[0] == S.INT:
        v = ev(args[0], env)
        if v.q is None or v.q.denominator != 1:
            raise Unknown('of_int of non-integer')
        return v
    if n == 'Suc' and na == 1 and res == S.NAT:
        return Q(nat_of(ev(args[0], env)) + 1)
    if n in ('plus', 'minus', 'times') and na == 2 and argTs == [res, res]:
        a, b = ev(args[0], env), ev(args[1], env)
        if res in (S.NAT, S.INT):
            for v in (a, b):
                if v.q is None or v.q.denominator != 1 or (res == S.NAT and v.q < 0):
                    raise Unknown('non-integral value at integral type')
        if n == 'plus':
            return add(a, b)
        if n == 'times':
            return mul(a, b)
        if res == S.NAT:
            return Q(max(0, a.q - b.q))
        return add(a, neg(b))
    if n == 'uminus' and na == 1 and argTs == [res] and res in (S.INT, S.REAL):
        return neg(ev(args[0], env))
    if n == 'real_divide' and na == 2 and res == S.REAL and argTs == [S.REAL, S.REAL]:
        a, b = ev(args[0], env), ev(args[1], env)
        if b.q is not None and b.q == 0:
            return Q(0)
        return mul(a, inv(b))
    if n == 'real_inverse' and na == 1 and res == S.REAL:
        return inv(ev(args[0], env))
    if n == 'power' and na == 2 and argTs[0] == res:
        a = ev(args[0], env)
        if argTs[1] == S.NAT:
            e = nat_of(ev(args[1], env))
            if e > 5000:
                raise Unknown('huge exponent')
            if a.q is not None:
                if res in (S.NAT, S.INT) and a.q.denominator != 1:
                    raise Unknown('bad base')
                return Q(a.q ** e)
            return approx(mp.power(a.f, e))
        if argTs[1] == S.REAL and res == S.REAL:
            return real_power(a, ev(args[1], env))
        raise Unknown('power at exponent type')
    if res == S.REAL and na == 1 and argTs == [S.REAL]:
        a = ev(args[0], env)
        if n == 'abs':
            return Q(abs(a.q)) if a.q is not None else approx(abs(a.f), a.irr)
        if n == 'sqrt':
            c = compare(a, Q(0))
            if c in ('?', '!='):
                raise Unknown('sqrt near 0')
            if c == '=':
                return Q(0)
            m = a if c == '>' else neg(a)
            r = qpow_rational(m.q, 1, 2) if m.q is not None else approx(mp.sqrt(m.f))
            return r if c == '>' else neg(r)
        if n == 'exp':
            if a.q is not None and a.q == 0:
                return Q(1)
            if abs(a.f) > 10000:
                raise Unknown('exp of huge')
            return approx(mp.exp(a.f), irr=a.q is not None)
        if n == 'log':
            c = compare(a, Q(0))
            if c != '>':
                raise Unknown('log of non-positive')
            if a.q is not None and a.q == 1:
                return Q(0)
            return approx(mp.log(a.f), irr=a.q is not None)
        if n in ('sin', 'cos', 'tan', 'atn'):
            if a.q is not None and a.q == 0:
                return Q(1) if n == 'cos' else Q(0)
            if abs(a.f) > 10 ** 6:
                raise Unknown('trig of huge')
            f = {'sin': mp.sin, 'cos': mp.cos, 'tan': mp.tan, 'atn': mp.atan}[n]
            if n == 'tan' and abs(mp.cos(a.f)) < mpmath.mpf(10) ** -30:
                raise Unknown('tan near pole')
            return approx(f(a.f), irr=a.q is not None)   # Lindemann / Niven for nonzero rational arguments
    if res == S.REAL and n in ('max', 'min') and na == 2:
        a, b = ev(args[0], env), ev(args[1], env)
        c = compare(a, b)
        if c in ('?', '!='):
            raise Unknown('max/min undecided')
        big, small = (b, a) if c == '<' else (a, b)
        return big if n == 'max' else small
    raise Unknown('operator %s' % n)


REL = {'equals': lambda c: {'=': True, '<': False, '>': False, '!=': False}.get(c),
       'less': lambda c: {'<': True, '=': False, '>': False}.get(c),
       'less_eq': lambda c: {'<': True, '=': True, '>': False}.get(c),
       'greater': lambda c: {'>': True, '=': False, '<': False}.get(c),
       'greater_eq': lambda c: {'>': True, '=': True, '<': False}.get(c)}


def truth(s, env=None):
    """truth value of a proposition built from relations between numeric terms, neg, true/false,
    and equality between propositions.  None = unknown."""
    if s == ('const', 'true', S.BOOL):
        return True
    if s == ('const', 'false', S.BOOL):
        return False
    h, args = S.strip_comb(s)
    if h[0] != 'const':
        return None
    n = h[1]
    if n == 'neg' and len(args) == 1:
        v = truth(args[0], env)
        return None if v is None else (not v)
    if n in ('conj', 'disj', 'implies') and len(args) == 2:
        a, b = truth(args[0], env), truth(args[1], env)
        if a is None or b is None:
            return None
        return {'conj': a and b, 'disj': a or b, 'implies': (not a) or b}[n]
    if n in REL and len(args) == 2:
        T = h[2]
        if not (T[0] == 'tc' and T[1] == 'fun'):
            return None
        aT = T[2][0]
        if aT == S.BOOL and n == 'equals':
            a, b = truth(args[0], env), truth(args[1], env)
            if a is None or b is None:
                return None
            return a == b
        if not is_num_type(aT):
            return None
        try:
            a, b = ev(args[0], env), ev(args[1], env)
        except Unknown:
            return None
        except (OverflowError, ZeroDivisionError, ValueError, mpmath.libmp.libmpf.ComplexResult):
            return None
        return REL[n](compare(a, b))
    return None


# ---------------------------------------------------------------- construction helpers (shadows)
def c(name, T):
    return ('const', name, T)


def binary_sh(n):
    if n == 0:
        return c('zero', S.NAT)
    if n == 1:
        return c('one', S.NAT)
    return ('comb', c('bit1' if n % 2 else 'bit0', S.fun(S.NAT, S.NAT)), binary_sh(n // 2))


def num(T, x):
    """numeral in the repo's normal form (mirrors kernel.term.Number)"""
    x = Fraction(x)
    if x == 0:
        return c('zero', T)
    if x == 1:
        return c('one', T)
    if x < 0:
        return ('comb', c('uminus', S.fun(T, T)), num(T, -x))
    if x.denominator != 1:
        return S.mk_comb(c('real_divide', S.funs(T, T, T)), num(T, x.numerator), num(T, x.denominator))
    return ('comb', c('of_nat', S.fun(S.NAT, T)), binary_sh(int(x)))


def binop(name, T, a, b):
    return S.mk_comb(c(name, S.funs(T, T, T)), a, b)


def rel(name, T, a, b):
    return S.mk_comb(c(name, S.funs(T, T, S.BOOL)), a, b)


def neg_p(p):
    return ('comb', c('neg', S.fun(S.BOOL, S.BOOL)), p)
