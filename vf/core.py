"""Runner core: environment, shard contexts, merging, verdicts, evidence.

Verdict discipline (DESIGN 0.4):
  violation  -> only on a definite witness; exit 1 + VIOLATION line (unless the
                mechanism key is listed in known_findings.json -> KNOWN-FINDING)
  held       -> exit 0, evidence lists what the monitors observed
  inconclusive run -> exit 2 (deciding monitor saw too little)
"""
import os, sys, json, time, random, hashlib, subprocess, importlib, traceback, types, tempfile, shutil
from collections import Counter
from concurrent.futures import ThreadPoolExecutor

VF_HOME = os.environ.get('VF_HOME') or os.path.dirname(os.path.dirname(os.path.abspath(__file__)))
REPO = os.environ.get('VF_REPO', '/repo')
PY = os.environ.get('VF_PYTHON', sys.executable)
NPROC = int(os.environ.get('VF_NPROC', '16'))


def setup_repo():
    """Make /repo importable the way the harness needs it (no repo edits)."""
    if REPO not in sys.path:
        sys.path.insert(0, REPO)
    deps = os.path.join(VF_HOME, '.deps')
    if deps not in sys.path:
        sys.path.append(deps)
    sys.setrecursionlimit(20000)
    # PyPI package `smt` shadows the repo's namespace dir smt/ (DESIGN 0.6)
    if 'smt' not in sys.modules or not getattr(sys.modules['smt'], '_vf_shim', False):
        m = types.ModuleType('smt')
        m.__path__ = [os.path.join(REPO, 'smt')]
        m._vf_shim = True
        sys.modules['smt'] = m


def _flat(obj):
    """repr-like serialisation without recursion (deep tuples, e.g. binary numerals)"""
    out, stack = [], [obj]
    while stack:
        x = stack.pop()
        if isinstance(x, (tuple, list)):
            out.append('(' if isinstance(x, tuple) else '[')
            stack.append(None)
            stack.extend(reversed(x))
        elif x is None and False:
            pass
        elif isinstance(x, dict):
            out.append('{')
            stack.append(None)
            for k in sorted(x, key=repr):
                stack.append(x[k])
                stack.append(k)
        elif x is None:
            out.append(')')
        else:
            out.append(repr(x))
            out.append(',')
    return ''.join(out)


def h64(obj):
    """Stable 64-bit hash of a JSON-able / repr-able object."""
    if not isinstance(obj, (str, bytes)):
        obj = _flat(obj)
    if isinstance(obj, str):
        obj = obj.encode('utf-8', 'backslashreplace')
    return int.from_bytes(hashlib.blake2b(obj, digest_size=8).digest(), 'big')


class Ctx:
    """Per-shard recording context handed to a property module."""
    MAX_SAMPLES = 6
    MAX_VIOL = 40

    def __init__(self, prop, tier, seed, spec=None):
        self.prop, self.tier, self.seed, self.spec = prop, tier, seed, spec or {}
        self.rng = random.Random(h64((prop, tier, seed, json.dumps(self.spec, sort_keys=True))))
        self.counters = Counter()
        self.evaluations = 0
        self.distinct = set()
        self.samples = []
        self.violations = []
        self.notes = []

    # -- recording
    def case(self, key, nontrivial=True, sample=None):
        """One driven case. key: anything hashable/repr-able identifying it."""
        self.evaluations += 1
        if nontrivial:
            self.distinct.add(h64(key))
        if sample is not None and len(self.samples) < self.MAX_SAMPLES:
            self.samples.append(sample)
        elif sample is None and self.evaluations <= 2 and len(self.samples) < 2 and nontrivial:
            self.samples.append({'case_key': _flat(key)[:600]})   # never leave the evidence without a written-out case

    def count(self, name, n=1):
        self.counters[name] += n

    def violation(self, mech, desc, witness):
        """mech: mechanism key (classifier output), desc: one line, witness: JSON-able."""
        self.counters['violations_raw'] += 1
        if len(self.violations) < self.MAX_VIOL or not any(v['mech'] == mech for v in self.violations):
            self.violations.append({'mech': mech, 'desc': desc, 'witness': witness})

    def note(self, s):
        if len(self.notes) < 20:
            self.notes.append(s)

    def dump(self):
        return {'counters': dict(self.counters), 'evaluations': self.evaluations,
                'distinct': sorted(self.distinct), 'samples': self.samples,
                'violations': self.violations, 'notes': self.notes}


def freeze():
    """after loading a big theory: move it to the permanent GC generation (full collections of
    millions of long-lived objects otherwise cost seconds each)"""
    import gc
    gc.collect()
    gc.freeze()


def load_prop(pid):
    return importlib.import_module('vf.props.' + pid.lower())


def load_known():
    p = os.path.join(VF_HOME, 'known_findings.json')
    if not os.path.exists(p):
        return {'known': [], 'fixed': []}
    with open(p) as f:
        return json.load(f)


def _child_env(seed):
    env = dict(os.environ)
    env['PYTHONHASHSEED'] = str(seed % 4294967295)
    env['PYTHONDONTWRITEBYTECODE'] = '1'
    env['VF_HOME'] = VF_HOME
    env['VF_REPO'] = REPO
    pp = [VF_HOME, REPO]
    env['PYTHONPATH'] = os.pathsep.join(pp)
    return env


def run_shard_subprocess(pid, tier, seed, idx, spec, outdir, timeout):
    out = os.path.join(outdir, 'shard_%d.json' % idx)
    cmd = [PY, '-m', 'vf.run', '--shard', pid, tier, str(seed), json.dumps(spec), out]
    t0 = time.time()
    hs = spec.get('hashseed', seed + idx) if isinstance(spec, dict) else seed + idx
    try:
        p = subprocess.run(cmd, cwd=REPO, env=_child_env(hs), timeout=timeout,
                           stdout=subprocess.PIPE, stderr=subprocess.PIPE)
        status = 'ok' if p.returncode == 0 else 'rc%d' % p.returncode
        err = p.stderr.decode('utf-8', 'replace')[-3000:]
    except subprocess.TimeoutExpired as e:
        status, err = 'timeout', ''
    res = None
    if os.path.exists(out):
        try:
            with open(out) as f:
                res = json.load(f)
        except Exception:
            res = None
    return {'idx': idx, 'spec': spec, 'status': status, 'stderr': err, 'res': res,
            'wall': time.time() - t0}


def shard_main(pid, tier, seed, spec_json, out):
    """Entry point inside a shard subprocess."""
    setup_repo()
    spec = json.loads(spec_json)
    mod = load_prop(pid)
    ctx = Ctx(pid, tier, seed, spec)
    rc = 0
    try:
        mod.run_shard(ctx, spec)
    except BaseException:
        ctx.note('shard crashed: ' + traceback.format_exc()[-2500:])
        ctx.count('shard_crash')
        rc = 4
    tmp = out + '.tmp'
    with open(tmp, 'w') as f:
        json.dump(ctx.dump(), f)
    os.replace(tmp, out)
    sys.stdout.flush()
    os._exit(rc)


def main_check(pid, tier, seed, replay=None):
    t0 = time.time()
    setup_repo()
    mod = load_prop(pid)
    known = load_known()
    known_keys = {k['key']: k for k in known.get('known', []) if k['property'] == pid}

    if replay is not None:
        with open(replay) as f:
            w = json.load(f)
        specs = [{'replay': w}]
        tier = w.get('tier', 'quick')
        seed = w.get('seed', seed)
    else:
        specs = mod.shards(tier, seed)
    timeout = getattr(mod, 'SHARD_TIMEOUT', {}).get(tier, 900 if tier == 'quick' else 7200)
    outdir = tempfile.mkdtemp(prefix='vf_%s_' % pid)
    results = []
    try:
        with ThreadPoolExecutor(max_workers=NPROC) as ex:
            futs = [ex.submit(run_shard_subprocess, pid, tier, seed, i, s, outdir, timeout)
                    for i, s in enumerate(specs)]
            for f in futs:
                results.append(f.result())
    finally:
        shutil.rmtree(outdir, ignore_errors=True)

    counters, distinct, samples, violations, notes = Counter(), set(), [], [], []
    evaluations = 0
    bad_shards = []
    for r in results:
        if r['res'] is None or r['status'] != 'ok':
            bad_shards.append({'idx': r['idx'], 'status': r['status'], 'stderr': r['stderr'][-800:],
                               'spec': r['spec'] if replay is None else 'replay'})
        if r['res'] is not None:
            res = r['res']
            counters.update(res['counters'])
            evaluations += res['evaluations']
            distinct.update(res['distinct'])
            for s in res['samples']:
                if len(samples) < 10:
                    samples.append(s)
            violations.extend(res['violations'])
            notes.extend(res['notes'])

    # --- classify violations
    new_v, known_hits = [], Counter()
    for v in violations:
        if v['mech'] in known_keys:
            known_hits[v['mech']] += 1
        else:
            new_v.append(v)
    lines = []
    for k, n in sorted(known_hits.items()):
        lines.append('KNOWN-FINDING: property=%s %s [%s] (%d witnesses this run)' % (
            pid, known_keys[k]['what'], k, n))
    rdir = os.path.join(VF_HOME, 'replays', pid)
    if os.path.realpath(REPO) != '/repo':
        rdir = os.path.join(tempfile.gettempdir(), 'vf_replays_alt', pid)
    seen_mech = set()
    nviol = 0
    for v in new_v:
        if v['mech'] in seen_mech:
            continue
        seen_mech.add(v['mech'])
        nviol += 1
        os.makedirs(rdir, exist_ok=True)
        body = {'property': pid, 'tier': tier, 'seed': seed, 'mech': v['mech'], 'desc': v['desc'],
                'witness': v['witness']}
        path = os.path.join(rdir, '%016x.json' % h64(json.dumps(body, sort_keys=True, default=str)))
        with open(path, 'w') as f:
            json.dump(body, f, indent=1, default=str)
        lines.append('VIOLATION property=%s replay=%s' % (pid, path))
        lines.append('  mechanism=%s : %s' % (v['mech'], v['desc']))

    # --- inconclusive?
    inconcl = []
    if replay is None:
        for name, minimum in getattr(mod, 'REQUIRED', {}).get(tier, getattr(mod, 'REQUIRED', {}).get('any', {})).items():
            if counters.get(name, 0) < minimum:
                inconcl.append('monitor %s observed %d < %d events' % (name, counters.get(name, 0), minimum))
        if hasattr(mod, 'extra_inconclusive'):
            inconcl += list(mod.extra_inconclusive(counters, tier))
        if len(bad_shards) > max(0, len(specs) // 4):
            inconcl.append('%d of %d shards failed/timeouts' % (len(bad_shards), len(specs)))
        if len(distinct) < 2 or evaluations < 1:
            inconcl.append('fewer than 2 distinct non-trivial cases')
    wall = time.time() - t0

    # --- evidence (not for replays)
    if replay is None:
        cov = {'evaluations': int(evaluations), 'distinct_nontrivial': len(distinct),
               'rule': getattr(mod, 'RULE', ''), 'samples': samples,
               'monitor_counters': dict(sorted(counters.items())),
               'shards': len(specs), 'shards_failed': bad_shards[:5],
               'known_finding_hits': dict(known_hits), 'inconclusive_reasons': inconcl,
               'notes': notes[:10]}
        if hasattr(mod, 'coverage_extra'):
            cov.update(mod.coverage_extra(counters, tier))
        ev = {'property_id': pid, 'tier': tier, 'seed': int(seed),
              'level': getattr(mod, 'LEVEL', 'exploration'), 'coverage': cov,
              'assumptions': getattr(mod, 'ASSUMPTIONS', []), 'wall_s': round(wall, 2),
              'violations': nviol}
        evdir = os.path.join(VF_HOME, 'evidence')
        if os.path.realpath(REPO) != '/repo':
            evdir = os.path.join(tempfile.gettempdir(), 'vf_evidence_alt')   # runs against scratch trees are not evidence
        os.makedirs(evdir, exist_ok=True)
        p = os.path.join(evdir, pid + '.json')
        with open(p + '.tmp', 'w') as f:
            json.dump(ev, f, indent=1, default=str)
        os.replace(p + '.tmp', p)

    for l in lines:
        print(l)
    summary = '%s %s seed=%d: %d cases, %d distinct, %d shards (%d bad), %.1fs' % (
        pid, tier, seed, evaluations, len(distinct), len(specs), len(bad_shards), wall)
    print(summary)
    interesting = {k: v for k, v in counters.items()}
    print('  counters: ' + ', '.join('%s=%s' % kv for kv in sorted(interesting.items())))
    slow = sorted(results, key=lambda r: -r['wall'])[:3]
    print('  slowest shards: ' + ', '.join('#%d %.0fs' % (r['idx'], r['wall']) for r in slow))
    for n in notes[:6]:
        print('  note: ' + n.replace('\n', '\n        '))
    for b in bad_shards[:3]:
        print('  bad shard %s: %s %s' % (b['idx'], b['status'], b['stderr'][-600:].replace('\n', '\n        ')))
    if nviol:
        return 1
    if inconcl:
        print('INCONCLUSIVE property=%s reason=%s' % (pid, '; '.join(inconcl)))
        return 2
    return 0
