"""CLI:  python -m vf.run <ID> quick|thorough | <ID> --replay <file> | --shard ..."""
import os, sys
from vf import core


def main(argv):
    if argv and argv[0] == '--shard':
        _, pid, tier, seed, spec, out = argv
        core.shard_main(pid, tier, int(seed), spec, out)
        return 0
    if not argv:
        print('usage: check <ID> quick|thorough | check <ID> --replay <file>')
        return 3
    pid = argv[0].upper()
    seed = int(os.environ.get('VERIF_SEED', '0') or 0)
    if len(argv) >= 3 and argv[1] == '--replay':
        return core.main_check(pid, 'quick', seed, replay=argv[2])
    tier = argv[1] if len(argv) > 1 else os.environ.get('VERIF_TIER', 'quick')
    if tier not in ('quick', 'thorough'):
        print('unknown tier', tier)
        return 3
    return core.main_check(pid, tier, seed)


if __name__ == '__main__':
    sys.exit(main(sys.argv[1:]))
