"""C12 child: executed in a FRESH interpreter (python -c 'from vf.oracle_c12_child import main; main()').

Reads one JSON spec from stdin, performs the scripted history step by step against the real
repo code and writes a JSON result file.  Nothing of the repo is imported before the first
history step asks for it (only os/sys/json here), so that "fresh process" really is fresh.
vf.shadow is imported lazily at the first dump and the recursion limit it raises is put back,
because the recursion limit is process state that the loader's behaviour can depend on.

spec = {'out': path, 'dirname': None | '<tree>/logic', 'tree': None | '<tree>', 'steps': [step, ...]}
step ops:
  load       name, limit (None | 'start' | [ty, name]), username (opt), ctx (None | 'fresh_theory'),
             dump (bool: full dump of theory.thy after a successful load),
             interrupt (opt {'at': N, 'exc': 'KeyboardInterrupt'|'MemoryError'}: the N-th call of
             server.items.parse_item made during this load raises - an interrupted load)
  import     module
  metadata   username (opt)                     -> basic.load_metadata()
  use        n                                  -> look at n theorems (get_theorem svar + print)
  write      path (relative to tree), text, delta  (new content, mtime := old mtime + delta)
  utime      path, delta                        (mtime poke only)
  delete     path
  reclimit   n                                  -> sys.setrecursionlimit(n)
"""
import sys, os, json

_S = None


def _shadow():
    global _S
    if _S is None:
        lim = sys.getrecursionlimit()
        from vf import shadow
        sys.setrecursionlimit(lim)
        _S = shadow
    return _S


def _flat(obj):
    out, stack = [], [obj]
    while stack:
        x = stack.pop()
        if isinstance(x, (tuple, list)):
            out.append('(')
            stack.append(None)
            stack.extend(reversed(x))
        elif x is None:
            out.append(')')
        else:
            out.append(repr(x))
            out.append(',')
    return ''.join(out)


def _h(obj):
    import hashlib
    s = obj if isinstance(obj, str) else _flat(obj)
    return hashlib.blake2b(s.encode('utf-8', 'backslashreplace'), digest_size=8).hexdigest()


def dump_thy(thy):
    """Canonical dump of theory.thy.data; terms and types go through vf.shadow (attribute reads only)."""
    if thy is None:
        return {'none': True, 'digest': 'none'}
    S = _shadow()
    d = thy.data
    res = {}
    res['types'] = {str(k): d['type_sig'][k] for k in sorted(d.get('type_sig', {}))}
    res['consts'] = {str(k): _h(S.ty_shadow(d['term_sig'][k])) for k in sorted(d.get('term_sig', {}))}
    tmemo = {}
    thms = {}
    for k in sorted(d.get('theorems', {})):
        th = d['theorems'][k]
        hyps = tuple(S.tm_shadow(h, None, tmemo) for h in th.hyps)
        thms[str(k)] = _h((hyps, S.tm_shadow(th.prop, None, tmemo)))
    res['thms'] = thms
    res['attrs'] = {str(k): [str(a) for a in d['attributes'][k]] for k in sorted(d.get('attributes', {}))}
    res['overload'] = sorted(str(k) for k in d.get('overload', {}))
    res['svar_keys'] = sorted(str(k) for k in d.get('theorems_svar', {}))
    res['other_keys'] = sorted(str(k) for k in d if k not in (
        'type_sig', 'term_sig', 'theorems', 'theorems_svar', 'attributes', 'overload'))
    # what the accessors hand out (the theorem a proof step actually gets, the signature type inference gets):
    # a cache between the tables above and their readers must not make these depend on the history either
    api_t, api_c = {}, {}
    names = sorted(d.get('theorems', {}))
    step = max(1, len(names) // 400)
    for k in names[::step]:
        try:
            th = thy.get_theorem(k, svar=True)
            api_t[str(k)] = _h((tuple(S.tm_shadow(h, None, tmemo) for h in th.hyps), S.tm_shadow(th.prop, None, tmemo)))
        except Exception as e:
            api_t[str(k)] = 'raises:' + type(e).__name__
    cn = sorted(d.get('term_sig', {}))
    for k in cn[::max(1, len(cn) // 400)]:
        try:
            api_c[str(k)] = _h((S.ty_shadow(thy.get_term_sig(k)), S.ty_shadow(thy.get_term_sig(k, stvar=True))))
        except Exception as e:
            api_c[str(k)] = 'raises:' + type(e).__name__
    res['api_thms'], res['api_consts'] = api_t, api_c
    res['digest'] = _h(json.dumps([res[k] for k in ('types', 'consts', 'thms', 'attrs', 'overload', 'other_keys',
                                                    'api_thms', 'api_consts')], sort_keys=True))
    return res


def touch(thy):
    """what any user of a freshly loaded theory does: look theorems and constants up (fills the accessor caches)"""
    if thy is None:
        return
    d = thy.data
    names = sorted(d.get('theorems', {}))
    for k in names[::max(1, len(names) // 200)]:
        try:
            thy.get_theorem(k, svar=True)
        except Exception:
            pass
    cn = sorted(d.get('term_sig', {}))
    for k in cn[::max(1, len(cn) // 200)]:
        try:
            thy.get_term_sig(k)
            thy.get_term_sig(k, stvar=True)
        except Exception:
            pass


def _cur_thy():
    m = sys.modules.get('kernel.theory')
    return None if m is None else m.thy


def _smt_shim():
    # same shim as vf.core.setup_repo (PyPI package `smt` shadows the repo's namespace dir)
    import types
    if 'smt' not in sys.modules or not getattr(sys.modules['smt'], '_vf_shim', False):
        m = types.ModuleType('smt')
        m.__path__ = [os.path.join(os.environ.get('VF_REPO', '/repo'), 'smt')]
        m._vf_shim = True
        sys.modules['smt'] = m


def _safe_path(spec, rel):
    tree = spec.get('tree')
    assert tree, 'file operation outside a temporary tree'
    p = os.path.join(tree, rel)
    assert not os.path.islink(p), 'refusing to touch a symlink (would modify the repo)'
    rp = os.path.realpath(p)
    assert rp.startswith(os.path.realpath(tree) + os.sep), 'path escapes the temporary tree'
    return p


def do_step(spec, st):
    op = st['op']
    rec = {'op': op}
    if op == 'load':
        from logic import basic
        from kernel import theory
        kw = {}
        lim = st.get('limit')
        if lim is not None:
            kw['limit'] = 'start' if lim == 'start' else tuple(lim)
        if st.get('username'):
            kw['username'] = st['username']
        before = _cur_thy()
        rec['before_digest'] = dump_thy(before)['digest'] if st.get('state_check') else None
        intr = st.get('interrupt')
        orig = None
        cnt = [0]
        if intr:
            from server import items
            orig = items.parse_item
            exc_cls = {'KeyboardInterrupt': KeyboardInterrupt, 'MemoryError': MemoryError}[intr['exc']]

            def wrapper(data, _n=intr['at']):
                cnt[0] += 1
                if cnt[0] == _n:
                    raise exc_cls('vf: injected interruption of load')
                return orig(data)
            items.parse_item = wrapper
        try:
            try:
                if st.get('ctx') == 'fresh_theory':
                    with theory.fresh_theory():
                        basic.load_theory(st['name'], **kw)
                        if st.get('dump'):
                            rec['dump'] = dump_thy(theory.thy)
                else:
                    basic.load_theory(st['name'], **kw)
                    if st.get('dump'):
                        rec['dump'] = dump_thy(theory.thy)
                    elif st.get('touch', True):
                        touch(theory.thy)
                rec['outcome'] = 'ok'
            finally:
                if orig is not None:
                    from server import items
                    items.parse_item = orig
                    rec['parse_calls'] = cnt[0]
                    rec['fired'] = cnt[0] >= intr['at']
        except BaseException as e:
            rec['outcome'] = 'raised'
            rec['exc'] = type(e).__name__
            rec['msg'] = str(e)[:300]
            if st.get('state_check'):
                after = dump_thy(_cur_thy())
                rec['after_digest'] = after['digest']
                if after['digest'] != rec['before_digest']:
                    rec['after_dump'] = after
    elif op == 'import':
        import importlib
        if st['module'].split('.')[0] == 'smt':
            _smt_shim()
        try:
            importlib.import_module(st['module'])
            rec['outcome'] = 'ok'
        except BaseException as e:
            rec['outcome'] = 'raised'
            rec['exc'] = type(e).__name__
            rec['msg'] = str(e)[:300]
    elif op == 'metadata':
        from logic import basic
        try:
            if st.get('username'):
                basic.load_metadata(st['username'])
            else:
                basic.load_metadata()
            rec['outcome'] = 'ok'
        except BaseException as e:
            rec['outcome'] = 'raised'
            rec['exc'] = type(e).__name__
            rec['msg'] = str(e)[:300]
    elif op == 'use':
        try:
            from kernel import theory
            from syntax import printer
            thy = theory.thy
            n = 0
            if thy is not None:
                for name in sorted(thy.data['theorems'])[::max(1, len(thy.data['theorems']) // max(1, st.get('n', 50)))]:
                    th = thy.get_theorem(name, svar=True)
                    printer.print_thm(th)
                    printer.print_thm(thy.get_theorem(name, svar=False))
                    n += 1
            rec['outcome'] = 'ok'
            rec['n'] = n
        except BaseException as e:
            rec['outcome'] = 'raised'
            rec['exc'] = type(e).__name__
            rec['msg'] = str(e)[:300]
    elif op == 'write':
        p = _safe_path(spec, st['path'])
        old = os.path.getmtime(p) if os.path.exists(p) else None
        with open(p, 'w', encoding='utf-8') as f:
            f.write(st['text'])
        if old is not None:
            t = old + st.get('delta', 10)
            os.utime(p, (t, t))
        rec['outcome'] = 'ok'
    elif op == 'utime':
        p = _safe_path(spec, st['path'])
        t = os.path.getmtime(p) + st.get('delta', 10)
        os.utime(p, (t, t))
        rec['outcome'] = 'ok'
    elif op == 'delete':
        p = _safe_path(spec, st['path'])
        os.remove(p)
        rec['outcome'] = 'ok'
    elif op == 'reclimit':
        sys.setrecursionlimit(st['n'])
        rec['outcome'] = 'ok'
    else:
        raise ValueError('unknown op %r' % (op,))
    return rec


def main():
    spec = json.load(sys.stdin)
    res = {'steps': [], 'completed': False, 'reclimit_start': sys.getrecursionlimit()}
    try:
        if spec.get('dirname'):
            from logic import basic
            basic.dirname = spec['dirname']
        for st in spec['steps']:
            res['steps'].append(do_step(spec, st))
        res['completed'] = True
        res['reclimit_end'] = sys.getrecursionlimit()
        res['modules'] = sorted(m for m in sys.modules if m.split('.')[0] in (
            'data', 'prover', 'imperative', 'integral', 'smt') and '.' in m)
    except BaseException as e:
        import traceback
        res['crash'] = traceback.format_exc()[-2000:]
    tmp = spec['out'] + '.tmp'
    with open(tmp, 'w') as f:
        json.dump(res, f)
    os.replace(tmp, spec['out'])
    sys.stdout.flush()
    os._exit(0)
