"""Finite standard-model evaluator for HOL shadow terms (DESIGN 0.2).

bool -> {False, True}; every type variable -> a finite set {0..n-1} chosen by the
model; A => B -> all total functions, as tuples indexed by the enumeration of A.
Constants of library/logic_base.json get their standard meaning.
"""
import itertools
from vf import shadow as S


class NotEvaluable(Exception):
    pass


class Model:
    def __init__(self, sizes, cap=256):
        self.sizes = dict(sizes)       # shadow type atom -> cardinality
        self.cap = cap
        self._dom = {}
        self._idx = {}
        self._const = {}

    def card(self, T):
        if T == S.BOOL:
            return 2
        if T[0] in ('tv', 'stv'):
            if T not in self.sizes:
                raise NotEvaluable('no size for %r' % (T,))
            return self.sizes[T]
        if T[0] == 'tc' and T[1] == 'fun' and len(T[2]) == 2:
            a, b = self.card(T[2][0]), self.card(T[2][1])
            if a > 16:
                raise NotEvaluable('domain too large')
            c = b ** a
            if c > self.cap:
                raise NotEvaluable('domain too large')
            return c
        raise NotEvaluable('type %s has no finite interpretation here' % S.ty_str(T))

    def dom(self, T):
        d = self._dom.get(T)
        if d is None:
            n = self.card(T)
            if T == S.BOOL:
                d = [False, True]
            elif T[0] in ('tv', 'stv'):
                d = list(range(n))
            else:
                d = list(itertools.product(self.dom(T[2][1]), repeat=len(self.dom(T[2][0]))))
            self._dom[T] = d
            self._idx[T] = {v: i for i, v in enumerate(d)}
        return d

    def idx(self, T):
        self.dom(T)
        return self._idx[T]

    def mk_fun(self, argTs, f):
        if not argTs:
            return f()
        return tuple(self.mk_fun(argTs[1:], (lambda *rest, d=d: f(d, *rest))) for d in self.dom(argTs[0]))

    def const(self, name, T):
        key = (name, T)
        if key in self._const:
            return self._const[key]
        v = self._const_value(name, T)
        self._const[key] = v
        return v

    def _const_value(self, name, T):
        B = S.BOOL

        def is_fun(X):
            return X[0] == 'tc' and X[1] == 'fun' and len(X[2]) == 2
        if name == 'true' and T == B:
            return True
        if name == 'false' and T == B:
            return False
        if name == 'neg' and T == S.fun(B, B):
            return self.mk_fun([B], lambda x: not x)
        if name == 'conj' and T == S.funs(B, B, B):
            return self.mk_fun([B, B], lambda x, y: x and y)
        if name == 'disj' and T == S.funs(B, B, B):
            return self.mk_fun([B, B], lambda x, y: x or y)
        if name == 'implies' and T == S.funs(B, B, B):
            return self.mk_fun([B, B], lambda x, y: (not x) or y)
        if name == 'equals' and is_fun(T) and is_fun(T[2][1]) and T[2][0] == T[2][1][2][0] and T[2][1][2][1] == B:
            A = T[2][0]
            return self.mk_fun([A, A], lambda x, y: x == y)
        if name in ('all', 'exists', 'exists1') and is_fun(T) and T[2][1] == B and is_fun(T[2][0]) and T[2][0][2][1] == B:
            P = T[2][0]
            if name == 'all':
                return self.mk_fun([P], lambda p: all(p))
            if name == 'exists':
                return self.mk_fun([P], lambda p: any(p))
            return self.mk_fun([P], lambda p: sum(1 for x in p if x) == 1)
        if name == 'IF' and is_fun(T) and T[2][0] == B:
            A = T[2][1][2][0] if is_fun(T[2][1]) else None
            if A is not None and T == S.funs(B, A, A, A):
                return self.mk_fun([B, A, A], lambda c, x, y: x if c else y)
        if name in ('Some', 'The') and is_fun(T) and is_fun(T[2][0]) and T[2][0][2][1] == B and T[2][0][2][0] == T[2][1]:
            A = T[2][1]
            D = self.dom(A)

            def some(p):
                for i, x in enumerate(p):
                    if x:
                        return D[i]
                return D[0]

            def the(p):
                hits = [D[i] for i, x in enumerate(p) if x]
                return hits[0] if len(hits) == 1 else D[0]
            return self.mk_fun([T[2][0]], some if name == 'Some' else the)
        if name == '_VAR' and is_fun(T) and T[2][1] == B:
            return self.mk_fun([T[2][0]], lambda x: True)
        raise NotEvaluable('constant %s :: %s not interpreted' % (name, S.ty_str(T)))

    def compile(self, s, bd=()):
        """-> (type, fn(env, val)).  Raises ShadowError if ill-typed, NotEvaluable if out of reach."""
        k = s[0]
        if k in ('var', 'svar'):
            self.dom(s[2])
            return s[2], (lambda env, val, s=s: val[s])
        if k == 'const':
            v = self.const(s[1], s[2])
            return s[2], (lambda env, val, v=v: v)
        if k == 'comb':
            Tf, ff = self.compile(s[1], bd)
            Ta, fa = self.compile(s[2], bd)
            if Tf[0] != 'tc' or Tf[1] != 'fun' or len(Tf[2]) != 2 or Tf[2][0] != Ta:
                raise S.ShadowError('ill-typed application')
            ix = self.idx(Ta)
            return Tf[2][1], (lambda env, val, ff=ff, fa=fa, ix=ix: ff(env, val)[ix[fa(env, val)]])
        if k == 'abs':
            T = s[2]
            D = self.dom(T)
            Tb, fb = self.compile(s[3], (T,) + bd)
            self.dom(S.fun(T, Tb))
            return S.fun(T, Tb), (lambda env, val, fb=fb, D=D: tuple(fb((d,) + env, val) for d in D))
        if k == 'bound':
            n = s[1]
            if n >= len(bd):
                raise S.ShadowError('loose bound')
            return bd[n], (lambda env, val, n=n: env[n])
        raise S.ShadowError(s)


def sequent_atoms(terms):
    tvs, ats = [], []
    for t in terms:
        for T in S.term_types(t):
            S.type_vars(T, tvs)
        S.atoms(t, ('var', 'svar'), ats)
    return tvs, ats


def refute(hyps, concl, rng, max_size=3, space_cap=4096, nsamples=256, cap=256):
    """Search finite standard models for (model, valuation) with all hyps true, concl false.
    -> ('refuted', witness) | ('not_refuted', info) | ('not_evaluable', reason) | ('ill_typed', reason)"""
    terms = list(hyps) + [concl]
    for t in terms:
        try:
            if S.typeof(t) != S.BOOL:
                return 'ill_typed', 'non-boolean proposition %s' % S.tm_str(t, True)
        except S.ShadowError as e:
            return 'ill_typed', '%s in %s' % (e, S.tm_str(t, True))
    tvs, ats = sequent_atoms(terms)
    size_choices = list(itertools.product(range(1, max_size + 1), repeat=len(tvs)))
    if len(size_choices) > 27:
        size_choices = rng.sample(size_choices, 27)
    models_done = valuations = 0
    reason = None
    for sizes in size_choices:
        m = Model(dict(zip(tvs, sizes)), cap=cap)
        try:
            fns = [m.compile(t)[1] for t in terms]
            doms = [m.dom(a[2]) for a in ats]
        except NotEvaluable as e:
            reason = str(e)
            continue
        space = 1
        for d in doms:
            space *= len(d)
            if space > 10 ** 9:
                break
        if space <= space_cap:
            it = itertools.product(*doms)
        else:
            it = (tuple(rng.choice(d) for d in doms) for _ in range(nsamples))
        models_done += 1
        for vals in it:
            valuations += 1
            val = dict(zip(ats, vals))
            if all(f((), val) for f in fns[:-1]) and not fns[-1]((), val):
                return 'refuted', {'sizes': {S.ty_str(t): n for t, n in zip(tvs, sizes)},
                                   'valuation': {S.tm_str(a, True): repr(v) for a, v in val.items()}}
    if models_done == 0:
        return 'not_evaluable', reason or 'no model evaluable'
    return 'not_refuted', {'models': models_done, 'valuations': valuations}


def eval_closed(m, s, val=None):
    T, f = m.compile(s)
    return T, f((), val or {})
