"""C11 oracles on shadows: an independent signature built from the history of observed extensions, a
well-formedness / typing judgement for generated extensions, the textbook side conditions of a conservative
constant definition, and a field-by-field comparison of items.

Nothing in here calls a method of a repo Term / Type / Thm / Item / Extension object: only attribute reads
(`ext.ty, ext.name, ext.T, ext.arity, ext.th.prop, ext.th.hyps`, item fields) and vf.shadow conversions.
"""
from vf import shadow as S

A_ = ('tv', 'a')


# ---------------------------------------------------------------- type operations (own matcher / unifier)
def match_decl(pat, T, inst):
    """T is an instance of the declared type `pat` (type variables of pat are the pattern variables)."""
    k = pat[0]
    if k in ('tv', 'stv'):
        key = (k, pat[1])
        if key in inst:
            return inst[key] == T
        inst[key] = T
        return True
    if k == 'tc':
        if T[0] != 'tc' or T[1] != pat[1] or len(T[2]) != len(pat[2]):
            return False
        for p, a in zip(pat[2], T[2]):
            if not match_decl(p, a, inst):
                return False
        return True
    return False


def is_instance(decl, T):
    return match_decl(decl, T, {})


def rename_apart(T, tag):
    k = T[0]
    if k in ('tv', 'stv'):
        return (k, tag + T[1])
    if k == 'tc':
        return ('tc', T[1], tuple(rename_apart(a, tag) for a in T[2]))
    return T


def _walk(T, sub):
    while T[0] in ('tv', 'stv') and T in sub:
        T = sub[T]
    return T


def _occurs(v, T, sub):
    T = _walk(T, sub)
    if T == v:
        return True
    if T[0] == 'tc':
        return any(_occurs(v, a, sub) for a in T[2])
    return False


def unify(T1, T2, sub=None):
    """most general unifier treating every type variable as a variable; None if not unifiable"""
    if sub is None:
        sub = {}
    stack = [(T1, T2)]
    while stack:
        a, b = stack.pop()
        a, b = _walk(a, sub), _walk(b, sub)
        if a == b:
            continue
        if a[0] in ('tv', 'stv'):
            if _occurs(a, b, sub):
                return None
            sub[a] = b
        elif b[0] in ('tv', 'stv'):
            if _occurs(b, a, sub):
                return None
            sub[b] = a
        elif a[0] == 'tc' and b[0] == 'tc':
            if a[1] != b[1] or len(a[2]) != len(b[2]):
                return None
            stack.extend(zip(a[2], b[2]))
        else:
            return None
    return sub


def overlap(T1, T2):
    """two declarations / occurrences of one constant name can denote the same instance"""
    return unify(rename_apart(T1, 'l_'), rename_apart(T2, 'r_')) is not None


# ---------------------------------------------------------------- signature
class Sig:
    """types: name -> arity ; consts: name -> {'general': T, 'overloaded': bool, 'instances': [T]}"""

    def __init__(self):
        self.types = {'bool': 0, 'fun': 2}
        self.consts = {}
        self.theorems = {}
        for n, T in (('equals', S.funs(A_, A_, S.BOOL)), ('implies', S.funs(S.BOOL, S.BOOL, S.BOOL)),
                     ('all', S.fun(S.fun(A_, S.BOOL), S.BOOL))):
            self.consts[n] = {'general': T, 'overloaded': False, 'instances': []}

    def copy(self):
        r = Sig.__new__(Sig)
        r.types = dict(self.types)
        r.consts = {n: {'general': c['general'], 'overloaded': c['overloaded'], 'instances': list(c['instances'])}
                    for n, c in self.consts.items()}
        r.theorems = dict(self.theorems)
        return r

    def type_problem(self, T):
        """None if T is well formed over the type signature, else a short reason"""
        stack = [T]
        while stack:
            x = stack.pop()
            k = x[0]
            if k in ('tv', 'stv'):
                continue
            if k != 'tc':
                return 'missing type'
            if x[1] not in self.types:
                return 'unknown type constructor %s' % x[1]
            if self.types[x[1]] != len(x[2]):
                return 'type constructor %s used with %d arguments, arity %d' % (x[1], len(x[2]), self.types[x[1]])
            stack.extend(x[2])
        return None


EXT_KINDS = ('tconst', 'constant', 'theorem', 'attribute', 'overload')


def read_exts(exts, statements=True):
    """repo extension objects -> plain tuples (attribute reads only); statements=False: theorem statements are skipped"""
    out = []
    for e in exts:
        k = EXT_KINDS[e.ty]
        if k == 'tconst':
            out.append(('tconst', e.name, e.arity))
        elif k == 'constant':
            out.append(('constant', e.name, S.ty_shadow(e.T), e.ref_name))
        elif k == 'theorem':
            if statements:
                out.append(('theorem', e.name, tuple(S.tm_shadow(h) for h in e.th.hyps), S.tm_shadow(e.th.prop)))
        elif k == 'attribute':
            out.append(('attribute', e.name, e.attribute))
        else:
            out.append(('overload', e.name))
    return out


def statement_problems(sig, s):
    """-> list of (key, text): closed, type bool, types well formed, constants at instances of their declarations"""
    out = []
    if not S.is_closed(s):
        out.append(('loose-bound-variable', 'statement has a loose bound variable'))
        return out
    try:
        T = S.typeof(s)
    except S.ShadowError as e:
        out.append(('ill-typed', 'statement does not type-check (%s)' % e))
        T = None
    if T is not None and T != S.BOOL:
        out.append(('statement-not-bool', 'statement has type %s, not bool' % S.ty_str(T)))
    seen = set()
    for T2 in S.term_types(s):
        if T2 in seen:
            continue
        seen.add(T2)
        p = sig.type_problem(T2)
        if p:
            out.append(('ill-formed-type', p))
            break
    seen = set()
    stack = [s]
    while stack:
        x = stack.pop()
        k = x[0]
        if k == 'comb':
            stack.append(x[1])
            stack.append(x[2])
        elif k == 'abs':
            stack.append(x[3])
        elif k == 'const' and x not in seen:
            seen.add(x)
            c = sig.consts.get(x[1])
            if c is None:
                out.append(('undeclared-constant', 'constant %s is not in the signature' % x[1]))
            elif not is_instance(c['general'], x[2]):
                out.append(('constant-not-at-instance-of-declared-type', 'constant %s used at %s, declared %s' % (
                    x[1], S.ty_str(x[2]), S.ty_str(c['general']))))
    return out


def apply_exts(sig, rexts):
    """Extend sig (in place) by the extension list; -> list of (key, text) problems."""
    out = []
    for e in rexts:
        k = e[0]
        if k == 'tconst':
            if e[1] in sig.types and sig.types[e[1]] != e[2]:
                out.append(('type-redeclared-with-other-arity', 'type %s: arity %d -> %d' % (e[1], sig.types[e[1]], e[2])))
            sig.types[e[1]] = e[2]
        elif k == 'constant':
            name, T = e[1], e[2]
            p = sig.type_problem(T)
            if p:
                out.append(('constant-of-ill-formed-type', 'constant %s :: %s: %s' % (name, S.ty_str(T), p)))
            c = sig.consts.get(name)
            if c is None:
                sig.consts[name] = {'general': T, 'overloaded': False, 'instances': []}
            elif c['overloaded']:
                if not is_instance(c['general'], T):
                    out.append(('overload-instance-not-an-instance', 'constant %s :: %s is not an instance of %s' % (
                        name, S.ty_str(T), S.ty_str(c['general']))))
                c['instances'].append(T)
            else:
                out.append(('constant-redeclared', 'constant %s :: %s is declared again at %s' % (
                    name, S.ty_str(c['general']), S.ty_str(T))))
                c['instances'].append(T)
        elif k == 'overload':
            c = sig.consts.get(e[1])
            if c is None:
                out.append(('overload-of-undeclared-constant', 'constant %s' % e[1]))
            else:
                c['overloaded'] = True
        elif k == 'theorem':
            for h in e[2]:
                for key, text in statement_problems(sig, h):
                    out.append((key, 'hypothesis of %s: %s' % (e[1], text)))
            for key, text in statement_problems(sig, e[3]):
                out.append((key, 'theorem %s: %s' % (e[1], text)))
            sig.theorems[e[1]] = sig.theorems.get(e[1], 0) + 1
    return out


def table_problems(sig, thy):
    """cross-check: the theory's own tables (read as plain dicts) against the extension history"""
    out = []
    ts = thy.data['term_sig']
    tys = thy.data['type_sig']
    for n, c in sig.consts.items():
        if n not in ts:
            out.append(('constant-missing-from-term_sig', n))
        elif S.ty_shadow(ts[n]) != c['general']:
            out.append(('term_sig-differs-from-first-declaration', '%s: table %s, first declared %s' % (
                n, S.ty_str(S.ty_shadow(ts[n])), S.ty_str(c['general']))))
    for n in ts:
        if n not in sig.consts:
            out.append(('term_sig-has-undeclared-constant', n))
    for n, a in sig.types.items():
        if tys.get(n) != a:
            out.append(('type_sig-differs', '%s: table %r, history %r' % (n, tys.get(n), a)))
    ov = thy.data['overload']
    for n, c in sig.consts.items():
        if c['overloaded'] != (n in ov):
            out.append(('overload-table-differs', n))
    return out


# ---------------------------------------------------------------- conservative definition
def strip_foralls(s):
    """open outer universal quantifiers with distinct fresh variables; -> (body, [vars])"""
    vs = []
    while (s[0] == 'comb' and s[1][0] == 'const' and s[1][1] == 'all' and s[2][0] == 'abs'):
        ab = s[2]
        used = {a[1] for a in S.atoms(ab[3])} | {v[1] for v in vs}
        nm = ab[1]
        while nm in used:
            nm += "'"
        v = ('var', nm, ab[2])
        vs.append(v)
        s = S.inst_bound(ab[3], v)
    return s, vs


def rhs_types(s):
    return S.term_type_vars(s)


def self_occurrence_types(name, rhs):
    """the distinct types at which the constant `name` occurs in rhs, in order of first occurrence (left to right)"""
    out, stack = [], [rhs]
    while stack:
        x = stack.pop()
        k = x[0]
        if k == 'comb':
            stack.append(x[2])
            stack.append(x[1])
        elif k == 'abs':
            stack.append(x[3])
        elif k == 'const' and x[1] == name and x[2] not in out:
            out.append(x[2])
    return out


def definition_rhs(prop):
    body, _ = strip_foralls(prop)
    h, args = S.strip_comb(body)
    if h[0] == 'const' and h[1] == 'equals' and len(args) == 2:
        return args[1]
    return None


def definition_problems(sig_before, name, T, prop):
    """Side conditions of a conservative constant definition  c x1 .. xn = t.  -> list of (key, text)"""
    out = []
    body, _ = strip_foralls(prop)
    h, args = S.strip_comb(body)
    if not (h[0] == 'const' and h[1] == 'equals' and len(args) == 2):
        return [('def:not-an-equation', 'defining proposition is not an equation: %s' % S.tm_str(prop)[:200])]
    lhs, rhs = args
    f, xs = S.strip_comb(lhs)
    if not (f[0] == 'const' and f[1] == name):
        out.append(('def:lhs-head-is-not-the-new-constant', 'head of the left side is %s' % S.tm_str(f, True)))
    elif f[2] != T:
        out.append(('def:lhs-head-at-other-type', 'left side uses %s at %s, declared %s' % (name, S.ty_str(f[2]), S.ty_str(T))))
    nonvar = [x for x in xs if x[0] != 'var']
    if nonvar:
        out.append(('def:non-variable-argument', 'argument %s of the left side is not a variable' % S.tm_str(nonvar[0])))
    vs = [x for x in xs if x[0] == 'var']
    if len(set(vs)) != len(vs):
        out.append(('def:repeated-argument', 'a variable occurs twice among the arguments'))
    extra = [a for a in S.atoms(rhs) if a not in vs]
    if extra:
        out.append(('def:extra-free-variable-in-rhs', 'right side mentions %s' % S.tm_str(extra[0], True)))
    tv_c = set(S.type_vars(T))
    tv_r = [v for v in rhs_types(rhs) if v not in tv_c]
    if tv_r:
        out.append(('def:rhs-type-variable-not-in-constant-type', "right side has type variable %s, constant :: %s" % (
            S.ty_str(tv_r[0]), S.ty_str(T))))
    # EVERY occurrence of the name on the right side is judged (an overloaded constant may occur at several types)
    bad = [U for U in self_occurrence_types(name, rhs) if overlap(U, T)]
    if bad:
        out.append(('def:self-reference-accepted', 'right side mentions %s at %s (defined at %s)' % (
            name, ', '.join(S.ty_str(U) for U in bad), S.ty_str(T))))
    c = sig_before.consts.get(name)
    if c is not None:
        if not c['overloaded']:
            out.append(('def:constant-already-declared', 'constant %s :: %s already exists' % (name, S.ty_str(c['general']))))
        else:
            for U in c['instances']:
                if overlap(U, T):
                    out.append(('def:overloaded-instance-already-declared', 'overloaded %s was already introduced at %s, now defined at %s' % (
                        name, S.ty_str(U), S.ty_str(T))))
                    break
    return out


# ---------------------------------------------------------------- items as plain data
def _tm(t):
    return S.tm_shadow(t)


def item_fields(item):
    """(fields, opaque) - fields: dict field -> plain data / shadows (attribute reads only)"""
    d = item.__dict__
    ty = d['ty']
    f = {'ty': ty, 'error': None if d.get('error') is None else type(d['error']).__name__}
    if d.get('error') is not None:
        f['raw'] = {k: repr(v)[:300] for k, v in d.items() if k not in ('error', 'trace')}
        return f
    if ty == 'def.ax':
        f.update(name=d['name'], type=S.ty_shadow(d['type']), overloaded=d['overloaded'], cname=d['cname'])
    elif ty in ('thm.ax', 'thm'):
        f.update(name=d['name'], vars={n: S.ty_shadow(T) for n, T in d['vars'].items()}, vars_order=list(d['vars'].keys()),
                 prop=_tm(d['prop']), attributes=list(d['attributes']))
        if ty == 'thm':
            f.update(steps=d['steps'], proof=d['proof'], num_gaps=d['num_gaps'])
    elif ty == 'def':
        f.update(name=d['name'], type=S.ty_shadow(d['type']), prop=_tm(d['prop']), cname=d['cname'],
                 attributes=list(d['attributes']))
    elif ty == 'def.ind':
        f.update(name=d['name'], type=S.ty_shadow(d['type']), cname=d['cname'],
                 rules=[_tm(r['prop']) for r in d['rules']],
                 rule_keys=[sorted(r.keys()) for r in d['rules']])
    elif ty == 'def.pred':
        f.update(name=d['name'], type=S.ty_shadow(d['type']), cname=d['cname'],
                 rules=[_tm(r['prop']) for r in d['rules']], rule_names=[r['name'] for r in d['rules']])
    elif ty == 'type.ax':
        f.update(name=d['name'], args=list(d['args']))
    elif ty == 'type.ind':
        f.update(name=d['name'], args=list(d['args']),
                 constrs=[(c['name'], S.ty_shadow(c['type']), c['cname'], list(c['args'])) for c in d['constrs']])
    elif ty == 'header':
        f.update(name=d['name'], depth=d['depth'])
    return f


TERM_FIELDS = {'prop'}
TERM_LIST_FIELDS = {'rules'}
SOFT_FIELDS = {'vars_order'}     # differences counted, not judged


def diff_fields(f1, f2):
    """-> (hard, soft): names of fields that differ (terms modulo bound names: hard; bound names / order only: soft)"""
    hard, soft = [], []
    for k in sorted(set(f1) | set(f2)):
        a, b = f1.get(k, '<absent>'), f2.get(k, '<absent>')
        if a == b:
            continue
        if k in SOFT_FIELDS:
            soft.append(k)
        elif k in TERM_FIELDS and isinstance(a, tuple) and isinstance(b, tuple):
            (soft if S.aeq(a, b) else hard).append(k)
        elif k in TERM_LIST_FIELDS and isinstance(a, list) and isinstance(b, list) and len(a) == len(b):
            if all(S.aeq(x, y) for x, y in zip(a, b)):
                soft.append(k)
            else:
                hard.append(k)
        else:
            hard.append(k)
    return hard, soft


def show_field(v):
    if isinstance(v, tuple) and v and v[0] in ('comb', 'abs', 'var', 'const', 'svar', 'bound'):
        return S.tm_str(v, True)[:400]
    if isinstance(v, tuple) and v and v[0] in ('tc', 'tv', 'stv', 'none'):
        return S.ty_str(v)
    if isinstance(v, list) and v and isinstance(v[0], tuple) and v[0] and v[0][0] in ('comb', 'abs', 'var', 'const'):
        return '[' + '; '.join(S.tm_str(x, True)[:200] for x in v) + ']'
    return repr(v)[:400]


def _erase(s):
    k = s[0]
    if k in ('var', 'svar', 'const'):
        return (k, s[1])
    if k == 'comb':
        return ('comb', _erase(s[1]), _erase(s[2]))
    if k == 'abs':
        return ('abs', _erase(s[3]))
    return s


def same_shape(a, b):
    """two term fields (or lists of terms) that differ only in type annotations"""
    def is_tm(x):
        return isinstance(x, tuple) and x and x[0] in ('comb', 'abs', 'var', 'const', 'svar', 'bound')
    if is_tm(a) and is_tm(b):
        return _erase(a) == _erase(b)
    if isinstance(a, list) and isinstance(b, list) and len(a) == len(b) and a and all(is_tm(x) for x in a + b):
        return all(_erase(x) == _erase(y) for x, y in zip(a, b))
    return False


# ---------------------------------------------------------------- O4: structural induction theorem of a datatype
def _implies(a, b):
    return S.mk_comb(('const', 'implies', S.funs(S.BOOL, S.BOOL, S.BOOL)), a, b)


def _forall(v, body):
    return ('comb', ('const', 'all', S.fun(S.fun(v[2], S.BOOL), S.BOOL)), ('abs', v[1], v[2], S.abstract(body, v)))


def datatype_instances(name, T, acc=None):
    """all occurrences (as plain types) of the type constructor `name` inside T, outermost first"""
    acc = [] if acc is None else acc
    if T[0] == 'tc':
        if T[1] == name:
            acc.append(T)
        for a in T[2]:
            datatype_instances(name, a, acc)
    return acc


def expected_induct(name, args, constrs):
    """textbook structural induction over the declared type D = (args) name with P :: D => bool:
    one premise per constructor, !a1..an. P ai (for exactly those ai :: D, in order) --> P (C a1..an); conclusion P x.
    An argument at another instance of `name` (non-uniform recursion) gets NO hypothesis: P cannot be applied to it."""
    D = ('tc', name, tuple(('tv', a) for a in args))
    P = ('var', 'P', S.fun(D, S.BOOL))
    prems = []
    for cname, cT, _, anames in constrs:
        argTs = []
        U = cT
        while U[0] == 'tc' and U[1] == 'fun' and len(argTs) < len(anames):
            argTs.append(U[2][0])
            U = U[2][1]
        vs = [('var', n, A) for n, A in zip(anames, argTs)]
        body = ('comb', P, S.mk_comb(('const', cname, cT), *vs))
        for v in reversed([v for v in vs if v[2] == D]):
            body = _implies(('comb', P, v), body)
        for v in reversed(vs):
            body = _forall(v, body)
        prems.append(body)
    th = ('comb', P, ('var', 'x', D))
    for p in reversed(prems):
        th = _implies(p, th)
    return th


def _count_P_applications(s, acc):
    """types of the arguments P is applied to, anywhere in s"""
    stack = [s]
    while stack:
        x = stack.pop()
        if x[0] == 'comb':
            if x[1][0] == 'var' and x[1][1] == 'P':
                acc.append(x[1][2])
            stack.append(x[1])
            stack.append(x[2])
        elif x[0] == 'abs':
            stack.append(x[3])
    return acc


def induct_problems(fields, rexts):
    """fields of an accepted type.ind item + its extensions -> (key, text) problems of <name>_induct"""
    name = fields['name']
    got = [e for e in rexts if e[0] == 'theorem' and e[1] == name + '_induct']
    if len(got) != 1:
        return [('induct-theorem-missing-or-repeated', 'theorem %s_induct: generated %d times' % (name, len(got)))]
    e = got[0]
    if e[2]:
        return [('induct-theorem-has-hypotheses', 'theorem %s_induct: carries %d hypotheses' % (name, len(e[2])))]
    want = expected_induct(name, fields['args'], fields['constrs'])
    if S.aeq(e[3], want):
        return []
    D = ('tc', name, tuple(('tv', a) for a in fields['args']))
    n_got = len(_count_P_applications(e[3], []))
    n_want = len(_count_P_applications(want, []))
    if n_got > n_want:
        how = 'induction-hypothesis-for-a-non-recursive-argument'
    elif n_got < n_want:
        how = 'induction-hypothesis-missing'
    else:
        how = 'differs-from-structural-induction'
    return [(how, 'theorem %s_induct: is %s, structural induction over %s is %s' % (
        name, S.tm_str(e[3])[:300], S.ty_str(D), S.tm_str(want)[:300]))]
