"""C10 - conversions prove equations about the given term; normal forms are canonical.

Contract on get_proof_term of every logic.conv.Conv subclass (class attributes wrapped by walking
Conv.__subclasses__() after the data modules are imported; only the outermost call is judged, inner calls
are counted): the result is an equation whose left side is exactly the input, hypotheses only from the
conversion's own supplied conditions, the exported proof is accepted by the checker (sampled), a class's
own eval agrees with its proof term.  Canonicity (harness level): polynomially equal expressions /
conjunctions and disjunctions with the same members get identical normal forms; normalising is idempotent
and value preserving.
"""
from fractions import Fraction
from vf import shadow as S, arith as A, gen as G, libreplay

ID = 'C10'
LEVEL = 'exploration'
RULE = ('case = one outermost Conv.get_proof_term call (library replay: every conversion run while replaying recorded '
        'proofs; generated: traversal combinators with beta/eta/rewrite conversions on terms with binders) or one pair of '
        'rearrangements (associativity, commutativity, distribution, neutral elements, duplicated members) of a generated '
        'nat / int / real polynomial expression or propositional conjunction/disjunction given to the normalisers; '
        'distinct = hash of (conversion class, term shadow); non-trivial = term size >= 4')
ASSUMPTIONS = ['hypotheses allowed in a result = hypotheses of ProofTerm / Thm objects reachable from the conversion object',
               'polynomial equality of the two rearrangements is established by construction (value-preserving rewrites) and '
               're-checked by exact evaluation at random points']
REQUIRED = {'quick': {'outer_calls_judged': 4000, 'exports_checked': 300, 'canon_pairs:nat': 150, 'canon_pairs:int': 150,
                      'canon_pairs:real': 150, 'canon_pairs:prop': 300, 'lib_outer_calls': 300, 'levels_pairs': 60,
                      'levels_order:limited-first': 20, 'levels_order:full-first': 20,
                      'comb_terms_with_binder_named_like_a_free_variable': 60,
                      'spell_groups': 16, 'spell_groups:exponent-2': 5, 'spell_groups:exponent-3': 6, 'spell_groups:exponent-4': 2,
                      'spell_groups:nested': 3, 'spell_terms_normalised:auto.auto_conv': 60},
            'thorough': {'outer_calls_judged': 80000, 'exports_checked': 6000, 'canon_pairs:nat': 3000, 'canon_pairs:int': 3000,
                         'canon_pairs:real': 3000, 'canon_pairs:prop': 6000, 'lib_outer_calls': 10000, 'levels_pairs': 2000,
                         'levels_order:limited-first': 700, 'levels_order:full-first': 700,
                         'spell_groups': 300, 'spell_groups:exponent-3': 80, 'spell_groups:nested': 40}}
SHARD_TIMEOUT = {'quick': 1500, 'thorough': 7200}

NAT, INT, REAL, B = S.NAT, S.INT, S.REAL, S.BOOL


def shards(tier, seed):
    q = tier == 'quick'
    out = [{'kind': 'canon', 'dom': d, 'i': i, 'count': 60 if q else 800} for d in ('nat', 'int', 'real') for i in range(3 if q else 4)]
    out += [{'kind': 'canon', 'dom': 'prop', 'i': i, 'count': 220 if q else 2000} for i in range(2 if q else 3)]
    out += [{'kind': 'comb', 'i': 0, 'count': 500 if q else 6000}]
    out += [{'kind': 'spell', 'i': i, 'count': 20 if q else 160} for i in range(1 if q else 3)]
    out += [{'kind': 'levels', 'i': i, 'count': 120 if q else 1500} for i in range(1 if q else 3)]
    out += [{'kind': 'lib', 'i': i, 'parts': 4 if q else 24, 'frac': 0.05 if q else 1.0} for i in range(4 if q else 24)]
    return out


# ------------------------------------------------------------------ the contract
class Mon:
    ctx = None
    depth = 0
    origin = 'gen'
    installed = False
    export_every = 1
    n = 0
    classes = set()
    inner_n = 0


def allowed_hyps(cv, seen=None, depth=0):
    """alpha-keys of hypotheses of every ProofTerm / Thm reachable from the conversion object"""
    from kernel.proofterm import ProofTerm
    from kernel.thm import Thm
    from logic.conv import Conv
    out = set()
    if seen is None:
        seen = set()
    if id(cv) in seen or depth > 4:
        return out
    seen.add(id(cv))
    if isinstance(cv, ProofTerm):
        out.update(S.alpha(S.tm_shadow(h)) for h in cv.th.hyps)
    elif isinstance(cv, Thm):
        out.update(S.alpha(S.tm_shadow(h)) for h in cv.hyps)
    elif isinstance(cv, (list, tuple)):
        for x in cv:
            out |= allowed_hyps(x, seen, depth + 1)
    elif isinstance(cv, Conv):
        for v in vars(cv).values():
            out |= allowed_hyps(v, seen, depth + 1)
    return out


def judge(ctx, cv, t_sh, pt, origin):
    from kernel import theory
    cls = type(cv).__module__ + '.' + type(cv).__name__
    wit = {'conv': cls, 'term': S.jsonable(t_sh) if S.size(t_sh) < 400 else None, 'origin': origin, 'theory_has': None}
    hy, pr = S.thm_shadow(pt.th)
    ctx.count('outer_calls_judged')
    h, args = S.strip_comb(pr)
    if not (h[0] == 'const' and h[1] == 'equals' and len(args) == 2):
        ctx.violation('conv:result-is-not-an-equation:' + cls, '%s returned %s' % (cls, S.tm_str(pr)[:300]), wit)
        return
    if not S.aeq(args[0], t_sh):
        ctx.violation('conv:left-side-is-not-the-given-term:' + cls, '%s on %s returned an equation about %s' % (
            cls, S.tm_str(t_sh)[:200], S.tm_str(args[0])[:200]), wit)
        return
    if hy:
        allowed = allowed_hyps(cv)
        extra = [x for x in hy if S.alpha(x) not in allowed]
        if extra:
            ctx.violation('conv:hypothesis-not-among-supplied-conditions:' + cls, '%s introduced hypothesis %s' % (cls, S.tm_str(extra[0])[:200]), wit)
            return
    Mon.n += 1

    def has_atom(p, seen):
        if id(p) in seen:
            return False
        seen.add(id(p))
        return p.rule == 'atom' or any(has_atom(q, seen) for q in p.prevs)
    if Mon.n % Mon.export_every == 0 and has_atom(pt, set()):
        # the proof term cites lines of a surrounding proof state: it cannot be checked stand-alone
        ctx.count('export_skipped_cites_outer_lines')
    elif Mon.n % Mon.export_every == 0:
        try:
            prf = pt.export()
            th2 = theory.thy.check_proof(prf)
            h2, p2 = S.thm_shadow(th2)
            ctx.count('exports_checked')
            if not (S.aeq(p2, pr) and {S.alpha(x) for x in h2} <= {S.alpha(x) for x in hy}):
                ctx.violation('conv:checked-proof-concludes-another-sequent:' + cls, '%s: exported proof checks to %s' % (cls, S.tm_str(p2)[:200]), wit)
        except Exception as e:
            ctx.count('export_check_raised:' + type(e).__name__)
            if type(e).__name__ == 'CheckProofException':
                ctx.violation('conv:exported-proof-rejected-by-checker:' + cls, '%s on %s: %s' % (cls, S.tm_str(t_sh)[:200], getattr(e, 'str', '')[:150]), wit)
    if 'eval' in type(cv).__dict__:
        try:
            the = cv.eval(S.to_repo_term(t_sh))
            he, pe = S.thm_shadow(the)
            ctx.count('own_eval_compared')
            if not S.aeq(pe, pr):
                ctx.violation('conv:eval-differs-from-proof-term:' + cls, '%s.eval gives %s, get_proof_term gives %s' % (cls, S.tm_str(pe)[:160], S.tm_str(pr)[:160]), wit)
        except Exception as e:
            ctx.count('own_eval_raised:' + type(e).__name__)


def install(ctx):
    from logic import conv as convmod
    Mon.ctx = ctx
    if Mon.installed:
        return
    import data.nat, data.integer, data.real, data.proplogic, data.set, data.function, logic.logic, logic.auto   # noqa
    seen = set()

    def walk(c):
        for sub in c.__subclasses__():
            if sub not in seen:
                seen.add(sub)
                walk(sub)
    walk(convmod.Conv)
    ConvException = convmod.ConvException

    def wrap(cls):
        orig = cls.__dict__['get_proof_term']

        def wrapper(self, t, *a, **kw):
            if Mon.depth > 0:
                Mon.ctx.count('inner_calls')
                Mon.inner_n += 1
                pt = orig(self, t, *a, **kw)
                if Mon.inner_n % 4 == 0:
                    # light contract for inner calls: an equation about exactly the given term
                    try:
                        t_sh = S.tm_shadow(t)
                        pr = S.tm_shadow(pt.th.prop)
                        h, args = S.strip_comb(pr)
                        Mon.ctx.count('inner_calls_judged')
                        cname = cls.__module__ + '.' + cls.__name__
                        if cls.__name__ not in Mon.classes:
                            Mon.classes.add(cls.__name__)
                            Mon.ctx.count('class_judged:' + cls.__name__)
                        if not (h[0] == 'const' and h[1] == 'equals' and len(args) == 2):
                            Mon.ctx.violation('conv:result-is-not-an-equation:' + cname, '%s returned %s' % (cname, S.tm_str(pr)[:300]),
                                              {'conv': cname, 'term': S.jsonable(t_sh) if S.size(t_sh) < 400 else None, 'origin': Mon.origin + '/inner'})
                        elif not S.aeq(args[0], t_sh):
                            Mon.ctx.violation('conv:left-side-is-not-the-given-term:' + cname, '%s on %s returned an equation about %s' % (
                                cname, S.tm_str(t_sh)[:200], S.tm_str(args[0])[:200]),
                                {'conv': cname, 'term': S.jsonable(t_sh) if S.size(t_sh) < 400 else None, 'origin': Mon.origin + '/inner'})
                    except Exception:
                        Mon.ctx.count('inner_judge_error')
                return pt
            c = Mon.ctx
            Mon.depth += 1
            try:
                try:
                    t_sh = S.tm_shadow(t)
                except Exception:
                    t_sh = None
                try:
                    pt = orig(self, t, *a, **kw)
                except ConvException:
                    c.count('rejected:ConvException')
                    raise
                except Exception as e:
                    c.count('rejected:' + type(e).__name__)
                    raise
                if t_sh is not None:
                    if cls.__name__ not in Mon.classes:
                        Mon.classes.add(cls.__name__)
                        c.count('class_judged:' + cls.__name__)
                    if Mon.origin == 'lib':
                        c.count('lib_outer_calls')
                    try:
                        judge(c, self, t_sh, pt, Mon.origin)
                        c.case((cls.__name__, t_sh), nontrivial=S.size(t_sh) >= 4)
                    except S.ShadowError:
                        c.count('shadow_error')
                return pt
            finally:
                Mon.depth -= 1
        cls.get_proof_term = wrapper
    n = 0
    for cls in seen:
        if 'get_proof_term' in cls.__dict__:
            wrap(cls)
            n += 1
    ctx.count('conv_classes_wrapped', n)
    Mon.installed = True


# ------------------------------------------------------------------ canonicity workloads
def var(n, T):
    return ('var', n, T)


def gen_poly(rng, T, depth, vars_):
    if depth <= 0 or rng.random() < 0.2:
        if rng.random() < 0.65:
            return rng.choice(vars_)
        return A.num(T, rng.choice([0, 1, 2, 3, 5] + ([-1, -2] if T != NAT else []) + ([Fraction(1, 2)] if T == REAL else [])))
    ops = ['plus', 'plus', 'times']
    if T != NAT:
        ops += ['minus', 'uminus']
    if rng.random() < 0.15 and T != NAT:
        ops = ['power']
    op = rng.choice(ops)
    g = lambda: gen_poly(rng, T, depth - 1, vars_)
    if op == 'uminus':
        return ('comb', A.c('uminus', S.fun(T, T)), g())
    if op == 'power':
        base = rng.choice(vars_) if rng.random() < 0.6 else gen_poly(rng, T, 1, vars_)
        return S.mk_comb(A.c('power', S.funs(T, NAT, T)), base, A.num(NAT, rng.choice([0, 1, 2, 2, 3])))
    return A.binop(op, T, g(), g())


def rearrange(rng, s, T, steps):
    """value-preserving rewrites at random positions"""
    def is_op(t, name):
        h, args = S.strip_comb(t)
        return h[0] == 'const' and h[1] == name and len(args) == 2 and h[2] == S.funs(T, T, T)

    def rewrite(t):
        h, args = S.strip_comb(t)
        opts = []
        if is_op(t, 'plus') or is_op(t, 'times'):
            n = h[1]
            a, b = args
            opts.append(lambda: A.binop(n, T, b, a))
            if is_op(a, n):
                a1, a2 = S.strip_comb(a)[1]
                opts.append(lambda: A.binop(n, T, a1, A.binop(n, T, a2, b)))
            if is_op(b, n):
                b1, b2 = S.strip_comb(b)[1]
                opts.append(lambda: A.binop(n, T, A.binop(n, T, a, b1), b2))
            if n == 'times' and is_op(b, 'plus'):
                b1, b2 = S.strip_comb(b)[1]
                opts.append(lambda: A.binop('plus', T, A.binop('times', T, a, b1), A.binop('times', T, a, b2)))
            if n == 'times' and is_op(a, 'plus'):
                a1, a2 = S.strip_comb(a)[1]
                opts.append(lambda: A.binop('plus', T, A.binop('times', T, a1, b), A.binop('times', T, a2, b)))
        opts.append(lambda: A.binop('plus', T, t, A.num(T, 0)))
        opts.append(lambda: A.binop('times', T, t, A.num(T, 1)))
        opts.append(lambda: A.binop('times', T, A.num(T, 1), t))
        u = rng.choice([A.num(T, 0), A.num(T, 2)] + [('var', n_, T) for n_ in ('x', 'y')])
        zero_like = u if T == NAT else A.binop('minus', T, u, u)                 # u - u = 0 (int/real)
        if T == NAT:
            zero_like = A.binop('times', T, A.num(T, 0), u)
        if T != NAT:      # nat.norm_full only covers plus and times: powers are outside its domain
            opts.append(lambda: A.binop('times', T, t, S.mk_comb(A.c('power', S.funs(T, NAT, T)), zero_like, A.num(NAT, 0))))   # * 0^0 = * 1
            opts.append(lambda: A.binop('plus', T, t, S.mk_comb(A.c('power', S.funs(T, NAT, T)), zero_like, A.num(NAT, 2))))    # + 0^2 = + 0
        opts.append(lambda: A.binop('plus', T, t, zero_like))
        if T != NAT and is_op(t, 'minus'):
            a, b = args
            opts.append(lambda: A.binop('plus', T, a, ('comb', A.c('uminus', S.fun(T, T)), b)))
        return rng.choice(opts)()

    def at_random(t):
        if t[0] == 'comb' and rng.random() < 0.6:
            h, args = S.strip_comb(t)
            if len(args) == 2 and h[0] == 'const' and h[1] in ('plus', 'times', 'minus'):
                k = rng.randrange(2)
                new = list(args)
                new[k] = at_random(args[k])
                return S.mk_comb(h, *new)
        return rewrite(t)
    for _ in range(steps):
        s = at_random(s)
    return s


def values_agree(rng, a, b, vars_, T):
    """exact evaluation at random points (harness self-check and value preservation)"""
    for _ in range(6):
        env = {}
        for v in vars_:
            env[v] = Fraction(rng.randrange(0, 6)) if T == NAT else (Fraction(rng.randrange(-5, 6)) if T == INT else Fraction(rng.randrange(-8, 9), rng.choice([1, 2, 3])))
        try:
            x, y = A.ev(a, env), A.ev(b, env)
        except A.Unknown:
            return None
        if A.compare(x, y) != '=':
            return False
    return True


def run_canon_arith(ctx, spec):
    from logic import basic
    dom = spec['dom']
    rng = ctx.rng
    T = {'nat': NAT, 'int': INT, 'real': REAL}[dom]
    install(ctx)            # imports data modules (some load theories as an import side effect) BEFORE the theory is chosen
    basic.load_theory({'nat': 'nat', 'int': 'int', 'real': 'real'}[dom])
    from data import nat, integer, real
    mk = {'nat': nat.norm_full, 'int': integer.int_norm_conv, 'real': real.real_norm_conv}[dom]
    vars_ = [var(n, T) for n in ('x', 'y', 'z')]
    Mon.origin = 'canon'
    Mon.export_every = 4
    for k in range(spec['count']):
        e1 = gen_poly(rng, T, rng.choice([2, 3, 3]), vars_)
        e2 = rearrange(rng, e1, T, rng.choice([1, 2, 4, 6]))
        if values_agree(rng, e1, e2, vars_, T) is not True:
            ctx.count('harness_rearrangement_not_value_preserving')
            continue
        try:
            p1 = mk().get_proof_term(S.to_repo_term(e1))
            p2 = mk().get_proof_term(S.to_repo_term(e2))
        except Exception as e:
            ctx.count('canon_raised:%s:%s' % (dom, type(e).__name__))
            continue
        r1, r2 = S.tm_shadow(p1.th.prop.arg), S.tm_shadow(p2.th.prop.arg)
        ctx.count('canon_pairs:' + dom)
        wit = {'dom': dom, 'e1': S.jsonable(e1), 'e2': S.jsonable(e2)}
        if dom == 'int':
            # the statement speaks of naturals and reals; integer normal forms are observed, not judged
            ctx.count('int_normal_forms_differ' if not S.aeq(r1, r2) else 'int_normal_forms_agree')
            ctx.case(('canon', dom, e1, e2), nontrivial=S.size(e1) >= 4)
            continue
        if not S.aeq(r1, r2):
            ctx.violation('canon:%s:equal-polynomials-get-different-normal-forms' % dom, '%s -> %s but %s -> %s' % (
                S.tm_str(e1), S.tm_str(r1), S.tm_str(e2), S.tm_str(r2)), wit)
        v = values_agree(rng, e1, r1, vars_, T)
        if v is False:
            ctx.violation('canon:%s:normal-form-has-a-different-value' % dom, '%s normalised to %s' % (S.tm_str(e1), S.tm_str(r1)), wit)
        try:
            p3 = mk().get_proof_term(S.to_repo_term(r1))
            r3 = S.tm_shadow(p3.th.prop.arg)
            ctx.count('canon_idempotence:' + dom)
            if not S.aeq(r3, r1):
                ctx.violation('canon:%s:normalising-a-normal-form-changes-it' % dom, '%s -> %s -> %s' % (S.tm_str(e1), S.tm_str(r1), S.tm_str(r3)), wit)
        except Exception as e:
            ctx.count('canon_idem_raised:%s:%s' % (dom, type(e).__name__))
        ctx.case(('canon', dom, e1, e2), nontrivial=S.size(e1) >= 4,
                 sample={'dom': dom, 'e1': S.tm_str(e1), 'e2': S.tm_str(e2), 'normal_form': S.tm_str(r1)} if k < 1 and spec['i'] == 0 else None)


# ------------------------------------------------------------------ directed family: one power of a sum, several spellings
def pw(T, base, n):
    return S.mk_comb(A.c('power', S.funs(T, NAT, T)), base, A.num(NAT, n))


def spell_monomial(rng, T, vars_, allow_const=True):
    """coefficient * (at most two variable powers); shadow term"""
    coef = rng.choice([1, 1, 1, 2, 3, -1, -2, Fraction(1, 2)])
    nv = rng.choice([0, 1, 1, 1, 2] if allow_const else [1, 1, 1, 2])
    fs = []
    for v in rng.sample(vars_, nv):
        e = rng.choice([1, 1, 1, 2])
        fs.append(v if e == 1 else pw(T, v, e))
    if not fs:
        return A.num(T, coef if coef != 1 else rng.choice([1, 2, 5]))
    t = fs[0]
    for f in fs[1:]:
        t = A.binop('times', T, t, f)
    if coef == -1 and rng.random() < 0.5:
        return ('comb', A.c('uminus', S.fun(T, T)), t)
    return t if coef == 1 else A.binop('times', T, A.num(T, coef), t)


def spell_sum(rng, T, members):
    """the members joined by + / - with a random nesting (so the top is not always a literal plus)"""
    ms = list(members)
    while len(ms) > 1:
        i = rng.randrange(len(ms) - 1)
        op = 'minus' if rng.random() < 0.25 else 'plus'
        ms[i:i + 2] = [A.binop(op, T, ms[i], ms[i + 1])]
    return ms[0]


def spell_variant(rng, T, base):
    """the same sum with its top operands commuted (only for a literal plus)"""
    h, args = S.strip_comb(base)
    if h[0] == 'const' and h[1] == 'plus' and len(args) == 2 and rng.random() < 0.5:
        return A.binop('plus', T, args[1], args[0])
    return base


def spellings(rng, T, base, n):
    """[(name, term)] all equal to base^n as polynomials.  Literal exponents of a sum stay <= 3 (real_nat_power_conv
    documents that larger literal powers of a sum are left unexpanded); exponent 4 is written through squares, cubes
    and products."""
    b = lambda: spell_variant(rng, T, base)
    mul = lambda *xs: xs[0] if len(xs) == 1 else A.binop('times', T, mul(*xs[:-1]), xs[-1])
    if n == 2:
        return [('power', pw(T, base, 2)), ('product', mul(base, b())), ('power-of-commuted', pw(T, b(), 2))]
    if n == 3:
        return [('power', pw(T, base, 3)), ('product', mul(base, b(), b())),
                ('product-right-nested', A.binop('times', T, base, mul(b(), b()))),
                ('base-times-square', mul(b(), pw(T, base, 2))), ('square-times-base', mul(pw(T, base, 2), b()))]
    return [('square-of-square', pw(T, pw(T, base, 2), 2)), ('square-times-square', mul(pw(T, base, 2), pw(T, b(), 2))),
            ('base-times-cube', mul(b(), pw(T, base, 3))), ('cube-times-base', mul(pw(T, base, 3), b())),
            ('product', mul(base, b(), b(), b()))]


def run_spell(ctx, spec):
    """Directed family for the rule that unfolds small powers of a sum in the real normaliser behind auto.auto_conv
    (data.real.real_nat_power_conv with real_pow_2 / real_pow_3 and distribution): groups of polynomially equal real
    terms that differ only in how one power of a sum is spelled - literal power, product, mixed power * product,
    commuted copies - for exponents 2, 3, 4, sums of 2-3 monomials (with subtraction, negative and fractional
    coefficients), also nested (a spelled power inside the sum that is raised again) and inside a context.  All
    normal forms of one group must coincide, have the value of the input at random points and be fixed points;
    spelled1 - spelled2 must normalise to 0.  The same groups are given to real.real_norm_conv.  Powers of single
    monomials and of numerals are controls."""
    from logic import basic, auto
    rng = ctx.rng
    T = REAL
    install(ctx)
    basic.load_theory('real')
    from data import real
    vars_ = [var(n, T) for n in ('x', 'y', 'z')]
    Mon.origin = 'spell'
    Mon.export_every = 8
    convs = [('auto.auto_conv', auto.auto_conv), ('real.real_norm_conv', real.real_norm_conv)]
    plan = [(3, 2, False), (2, 2, False), (4, 2, False), (3, 3, False), (3, 2, True), (2, 3, False), (3, 2, False), (2, 2, True)]
    for k in range(spec['count']):
        n, nm, nested = plan[k % len(plan)] if k < 2 * len(plan) else (rng.choice([2, 3, 3, 3, 4]), rng.choice([2, 2, 3]), rng.random() < 0.25)
        if n == 4 and nm == 3:
            nm = 2
        members = [spell_monomial(rng, T, vars_, allow_const=(j > 0)) for j in range(nm)]
        inner_sp = None
        if nested:
            ib = spell_sum(rng, T, [spell_monomial(rng, T, vars_[:2], allow_const=(j > 0)) for j in range(2)])
            inner_n = 2 if n >= 3 else rng.choice([2, 3])
            inner_sp = spellings(rng, T, ib, inner_n)
            members = members[:1] + [inner_sp[0][1]]
            if n == 4:
                n = 2
        base = spell_sum(rng, T, members)
        group = spellings(rng, T, base, n)
        if nested:
            # the inner power re-spelled inside one more copy of the outer power
            alt = rng.choice(inner_sp[1:])
            base2 = S.mk_comb(*[alt[1] if x == inner_sp[0][1] else x for x in ((lambda h, a: [h] + list(a))(*S.strip_comb(base)))])
            group.append(('inner-' + alt[0], pw(T, base2, n) if n <= 3 else pw(T, pw(T, base2, 2), 2)))
        kind = 'sum'
        if rng.random() < 0.15 and not nested:
            # controls: power of one monomial / of a numeral
            base = spell_monomial(rng, T, vars_, allow_const=rng.random() < 0.3)
            group = spellings(rng, T, base, n)
            kind = 'monomial-control'
        ctxm = rng.choice(['none', 'none', 'plus', 'times', 'minus-other-spelling'])
        if ctxm in ('plus', 'times'):
            m = spell_monomial(rng, T, vars_)
            group = [(nm_, A.binop(ctxm, T, e, m) if rng.random() < 0.5 else A.binop(ctxm, T, m, e)) for nm_, e in group]
        terms = [e for _, e in group]
        if any(values_agree(rng, terms[0], e, vars_, T) is not True for e in terms[1:]):
            ctx.count('harness_spellings_not_value_preserving')
            continue
        ctx.count('spell_groups')
        ctx.count('spell_groups:exponent-%d' % n)
        ctx.count('spell_groups:%s-of-%d-members' % (kind, len(members) if kind == 'sum' else 1))
        if nested:
            ctx.count('spell_groups:nested')
        if ctxm != 'none':
            ctx.count('spell_groups:in-context-' + ctxm)
        tag = 'exponent-%d%s' % (n, ':nested' if nested else '')
        for cname, mk in convs:
            nfs = []
            for nm_, e in group:
                try:
                    r = S.tm_shadow(mk().get_proof_term(S.to_repo_term(e)).th.prop.arg)
                    ctx.count('spell_terms_normalised:' + cname)
                    nfs.append((nm_, e, r))
                except Exception as ex:
                    ctx.count('spell_raised:%s:%s' % (cname, type(ex).__name__))
            if len(nfs) < 2:
                continue
            n0, e0, r0 = nfs[0]
            for nm_, e, r in nfs[1:]:
                ctx.count('spell_pairs_compared:' + cname)
                if not S.aeq(r, r0):
                    ctx.violation('canon:real:power-of-a-sum-not-unfolded-like-the-product:%s:%s' % (cname, tag),
                                  '%s: [%s] %s -> %s but the polynomially equal [%s] %s -> %s' % (cname, n0, S.tm_str(e0), S.tm_str(r0), nm_, S.tm_str(e), S.tm_str(r)),
                                  {'dom': 'real', 'conv': cname, 'e1': S.jsonable(e0), 'e2': S.jsonable(e), 'spelling1': n0, 'spelling2': nm_, 'exponent': n})
                    break
            if values_agree(rng, e0, r0, vars_, T) is False:
                ctx.violation('canon:real:normal-form-has-a-different-value:' + cname, '%s normalised to %s' % (S.tm_str(e0), S.tm_str(r0)),
                              {'dom': 'real', 'conv': cname, 'e1': S.jsonable(e0)})
            try:
                r3 = S.tm_shadow(mk().get_proof_term(S.to_repo_term(r0)).th.prop.arg)
                ctx.count('spell_idempotence:' + cname)
                if not S.aeq(r3, r0):
                    ctx.violation('canon:real:normalising-a-normal-form-changes-it:' + cname, '%s -> %s -> %s' % (S.tm_str(e0), S.tm_str(r0), S.tm_str(r3)),
                                  {'dom': 'real', 'conv': cname, 'e1': S.jsonable(e0)})
            except Exception as ex:
                ctx.count('spell_idem_raised:%s:%s' % (cname, type(ex).__name__))
            if ctxm == 'minus-other-spelling' and len(group) >= 2:
                # spelled1 - spelled2 = 0
                (na, ea), (nb, eb) = group[0], rng.choice(group[1:])
                d = A.binop('minus', T, ea, eb)
                try:
                    rd = S.tm_shadow(mk().get_proof_term(S.to_repo_term(d)).th.prop.arg)
                    ctx.count('spell_differences_normalised:' + cname)
                    if not S.aeq(rd, A.num(T, 0)):
                        ctx.violation('canon:real:power-of-a-sum-not-unfolded-like-the-product:%s:%s' % (cname, tag),
                                      '%s: difference of the spellings %s and %s: %s -> %s (expected 0)' % (cname, na, nb, S.tm_str(d), S.tm_str(rd)),
                                      {'dom': 'real', 'conv': cname, 'e1': S.jsonable(d), 'exponent': n})
                except Exception as ex:
                    ctx.count('spell_raised:%s:%s' % (cname, type(ex).__name__))
            if cname == 'auto.auto_conv' and n == 2 and kind == 'sum' and not nested and ctxm == 'none':
                # observed, not judged: a literal exponent >= 4 of a sum is documented as left unexpanded
                try:
                    r4 = S.tm_shadow(mk().get_proof_term(S.to_repo_term(pw(T, base, 4))).th.prop.arg)
                    rp = S.tm_shadow(mk().get_proof_term(S.to_repo_term(pw(T, pw(T, base, 2), 2))).th.prop.arg)
                    ctx.count('spell_observed:literal-4th-power-of-a-sum-' + ('expanded-like-square-of-square' if S.aeq(r4, rp) else 'left-opaque-unlike-square-of-square'))
                except Exception as ex:
                    ctx.count('spell_observe_raised:' + type(ex).__name__)
        ctx.case(('spell', tuple(terms)), nontrivial=True,
                 sample={'dom': 'real', 'exponent': n, 'spellings': [S.tm_str(e) for e in terms[:3]]} if k < 1 and spec['i'] == 0 else None)


def run_levels(ctx, spec):
    """W-HIST for conversions whose behaviour depends on how much of the theory is loaded (nat.norm_full: identity /
    AC for addition / full semiring).  The same terms are normalised under a limited theory and under the full one,
    in both orders; every call goes through the installed contract (equation about the given term, exported proof
    checked IN THE THEORY THAT IS CURRENT), and in the full theory the normal forms of two equal polynomials must
    coincide whatever was normalised before under another level."""
    from logic import basic
    from kernel import theory
    rng = ctx.rng
    install(ctx)
    from data import nat
    LEVELS = [None, ('thm', 'mult_0_right'), ('thm', 'add_cancel_left')]
    vars_ = [var(n, NAT) for n in ('x', 'y', 'z')]
    Mon.origin = 'levels'
    Mon.export_every = 1

    def at(level):
        if level is None:
            basic.load_theory('nat')
        else:
            basic.load_theory('nat', limit=level)

    def norm(e):
        return nat.norm_full().get_proof_term(S.to_repo_term(e))
    for k in range(spec['count']):
        e1 = gen_poly(rng, NAT, rng.choice([1, 2, 2, 3]), vars_)
        e2 = rearrange(rng, e1, NAT, rng.choice([1, 2, 4]))
        if values_agree(rng, e1, e2, vars_, NAT) is not True:
            continue
        lim = rng.choice(LEVELS[1:])
        order = rng.choice(['limited-first', 'full-first'])
        wit = {'dom': 'nat', 'e1': S.jsonable(e1), 'e2': S.jsonable(e2), 'limit': list(lim), 'order': order}
        try:
            first = None
            if order == 'full-first':
                at(None)
                first = S.tm_shadow(norm(e1).th.prop.arg)
            at(lim)
            pl = norm(e1)                       # judged by the contract under the limited theory
            ctx.count('levels_limited_calls')
            if rng.random() < 0.5:
                norm(e2)
            at(None)
            p1, p2 = norm(e1), norm(e2)
        except Exception as e:
            ctx.count('levels_raised:' + type(e).__name__)
            at(None)
            continue
        r1, r2 = S.tm_shadow(p1.th.prop.arg), S.tm_shadow(p2.th.prop.arg)
        ctx.count('levels_pairs')
        ctx.count('levels_order:' + order)
        if not S.aeq(r1, r2):
            ctx.violation('canon:nat:equal-polynomials-get-different-normal-forms:after-normalising-under-another-theory-level',
                          '%s -> %s but %s -> %s (full theory; %s was normalised before with the theory limited to %s)' % (
                              S.tm_str(e1), S.tm_str(r1), S.tm_str(e2), S.tm_str(r2), S.tm_str(e1), lim), wit)
        if first is not None and not S.aeq(first, r1):
            ctx.violation('history:normal-form-in-the-full-theory-changes-after-a-call-under-a-limited-theory',
                          '%s -> %s, then (after a call under limit %s) -> %s' % (S.tm_str(e1), S.tm_str(first), lim, S.tm_str(r1)), wit)
        ctx.case(('levels', e1, e2, lim, order), nontrivial=S.size(e1) >= 3,
                 sample={'e1': S.tm_str(e1), 'limit': list(lim), 'order': order, 'limited_result': S.tm_str(S.tm_shadow(pl.th.prop.arg)),
                         'full_result': S.tm_str(r1)} if k < 1 else None)


def run_canon_prop(ctx, spec):
    from logic import basic
    install(ctx)
    basic.load_theory('sat')
    from data import proplogic
    from logic import logic
    rng = ctx.rng
    atoms = [var(n, B) for n in ('A', 'B', 'C', 'D')] + [('comb', A.c('neg', S.fun(B, B)), var('A', B))]
    Mon.origin = 'canon'
    Mon.export_every = 3

    def build(op, members):
        """random nesting of a list of members under binary op"""
        members = list(members)
        while len(members) > 1:
            i = rng.randrange(len(members) - 1)
            members[i:i + 2] = [S.mk_comb(A.c(op, S.funs(B, B, B)), members[i], members[i + 1])]
        return members[0]
    for k in range(spec['count']):
        op = rng.choice(['conj', 'disj'])
        base = rng.sample(atoms, rng.choice([2, 3, 4]))
        m1 = base + [rng.choice(base) for _ in range(rng.choice([0, 1, 2]))]
        m2 = base + [rng.choice(base) for _ in range(rng.choice([0, 1, 3]))]
        rng.shuffle(m1)
        rng.shuffle(m2)
        e1, e2 = build(op, m1), build(op, m2)
        for cname, mk in (('proplogic.norm_full', proplogic.norm_full), ('logic.%s_norm' % op, logic.conj_norm if op == 'conj' else logic.disj_norm)):
            try:
                r1 = S.tm_shadow(mk().get_proof_term(S.to_repo_term(e1)).th.prop.arg)
                r2 = S.tm_shadow(mk().get_proof_term(S.to_repo_term(e2)).th.prop.arg)
            except Exception as e:
                ctx.count('canon_raised:prop:%s:%s' % (cname, type(e).__name__))
                continue
            ctx.count('canon_pairs:prop')
            wit = {'dom': 'prop', 'conv': cname, 'e1': S.jsonable(e1), 'e2': S.jsonable(e2)}
            if not S.aeq(r1, r2):
                negs = {S.alpha(x[2]) for x in base if x[0] == 'comb'}
                compl = any(S.alpha(x) in negs for x in base)
                ctx.violation('canon:prop:same-members-different-normal-forms:' + cname + (':complementary-members' if compl else ''), '%s -> %s but %s -> %s' % (
                    S.tm_str(e1), S.tm_str(r1), S.tm_str(e2), S.tm_str(r2)), wit)
            try:
                r3 = S.tm_shadow(mk().get_proof_term(S.to_repo_term(r1)).th.prop.arg)
                if not S.aeq(r3, r1):
                    ctx.violation('canon:prop:normalising-a-normal-form-changes-it:' + cname, '%s -> %s -> %s' % (S.tm_str(e1), S.tm_str(r1), S.tm_str(r3)), wit)
            except Exception as e:
                ctx.count('canon_idem_raised:prop:' + type(e).__name__)
        ctx.case(('canon', 'prop', e1, e2), nontrivial=True,
                 sample={'dom': 'prop', 'e1': S.tm_str(e1), 'e2': S.tm_str(e2)} if k < 1 and spec['i'] == 0 else None)


def run_comb(ctx, spec):
    """traversal combinators with beta / eta / rewriting conversions on terms with binders"""
    from logic import basic
    install(ctx)
    basic.load_theory('logic')
    from logic import conv as C
    rng = ctx.rng
    Mon.origin = 'comb'
    Mon.export_every = 2
    thms = ['conj_comm', 'disj_comm', 'double_neg', 'eq_sym_eq', 'if_true', 'if_false', 'cond_id', 'conj_assoc', 'disj_assoc',
            'de_morgan_thm1', 'not_imp', 'imp_disj_eq']
    from kernel import theory
    thms = [t for t in thms if theory.thy.has_theorem(t)]
    for k in range(spec['count']):
        g = G.TermGen(rng, G.LOGIC_BASE_SIG, G.logic_pool(), p_svar=0.0, p_fresh=0.35, p_redex=0.4, weights={'abs': 4})
        s = g.gen(g.rand_type() if rng.random() < 0.5 else B, rng.choice([2, 3, 4]))
        try:
            S.typeof(s)
        except S.ShadowError:
            continue
        if rng.random() < 0.5:
            # binders renamed (alpha-equivalently) to the names of variables that occur FREE in the term: a traversal
            # that opens an abstraction under its recorded name would identify the two
            free = [a for a in S.atoms(s) if a[0] == 'var']
            if free:
                def clash(t):
                    if t[0] == 'comb':
                        return ('comb', clash(t[1]), clash(t[2]))
                    if t[0] == 'abs':
                        same = [a[1] for a in free if a[2] == t[2]] or [a[1] for a in free]
                        nm = rng.choice(same) if rng.random() < 0.7 else t[1]
                        return ('abs', nm, t[2], clash(t[3]))
                    return t
                s = clash(s)
                ctx.count('comb_terms_with_binder_named_like_a_free_variable')
        inner = rng.choice([C.beta_conv(), C.beta_norm_conv(), C.try_conv(C.beta_conv()), C.try_conv(C.eta_conv())] +
                           [C.try_conv(C.rewr_conv(t)) for t in thms] + [C.try_conv(C.rewr_conv(t, sym=True)) for t in thms[:3]])
        wrap = rng.choice([lambda c: c, C.top_conv, C.bottom_conv, C.top_sweep_conv, C.sub_conv, lambda c: C.try_conv(C.abs_conv(c)),
                           lambda c: C.try_conv(C.arg_conv(c)), lambda c: C.then_conv(C.try_conv(c), C.top_conv(C.try_conv(C.beta_conv()))),
                           lambda c: C.repeat_conv(c) if not isinstance(c, type(C.try_conv(C.all_conv()))) else c])
        try:
            cv = wrap(inner)
            cv.get_proof_term(S.to_repo_term(s))
        except C.ConvException:
            pass
        except Exception as e:
            ctx.count('comb_raised:' + type(e).__name__)


def run_lib(ctx, spec):
    libreplay.prepare()
    install(ctx)
    Mon.origin = 'lib'
    Mon.export_every = 60
    bins = libreplay.partition(spec['parts'])
    for name in bins[spec['i']]:
        try:
            for item in libreplay.iter_theorems(name, ctx.rng, spec['frac'], want_proof=False):
                try:
                    libreplay.replay_steps(item)
                    ctx.count('lib_theorems_replayed')
                except Exception as e:
                    ctx.count('lib_replay_error:' + type(e).__name__)
        except Exception as e:
            ctx.count('lib_theory_error:' + type(e).__name__)


def run_shard(ctx, spec):
    import warnings
    warnings.simplefilter('ignore')
    if 'replay' in spec:
        ctx.note('replay: re-run the shard kind with the recorded seed; witness = %s' % str(spec['replay'].get('desc'))[:300])
        ctx.case('replay')
        return
    k = spec['kind']
    if k == 'canon' and spec['dom'] == 'prop':
        run_canon_prop(ctx, spec)
    elif k == 'canon':
        run_canon_arith(ctx, spec)
    elif k == 'comb':
        run_comb(ctx, spec)
    elif k == 'levels':
        run_levels(ctx, spec)
    elif k == 'spell':
        run_spell(ctx, spec)
    else:
        run_lib(ctx, spec)


def extra_inconclusive(counters, tier):
    n = len([k for k in counters if k.startswith('class_judged:')])
    need = 25 if tier == 'quick' else 40
    return [] if n >= need else ['only %d distinct conversion classes were judged at the outermost level (< %d)' % (n, need)]


def coverage_extra(counters, tier):
    return {'distinct_conversion_classes_judged': len([k for k in counters if k.startswith('class_judged:')])}
