"""C20 - VC generation and program evaluation are sound w.r.t. execution; conditions shown to the
user (and re-parsed from the printed text) mean what was computed.

Two program representations of the repo are driven, both from program OBJECTS generated here
(never from program text, so the grammar's reading of text cannot make oracle and code disagree
about what the program is):

 (1) imperative/com.py + expr.py + parser2.py   (integer programs, python-level Com/Expr objects)
     events : Com.compute_wp, Com.get_lines (-> the VC as AST, as printed string, as HOL term), every
              top-level Expr.__str__ made while printing, parser2.cond_parser.parse of the printed text
 (2) imperative/imp.py over library/hoare.json   (nat programs, HOL terms)
     events : imp.eval_Sem / macro 'eval_Sem' theorems (kernel-checked), imp.vcg_norm theorems

Oracles (vf/oracle_c20_lang.py): direct fuel-bounded interpreter, own evaluator for conditions, own
evaluator for the HOL fragment (on shadow terms), own Z3 encodings.  VC truth is NEVER decided by
sampling: a soundness verdict is only given when every generated VC is proved valid by Z3 (unsat of
the negation); a sampled falsifying state or a confirmed Z3 counter-model only says "not all VCs valid"
(no verdict), Z3 unknown is inconclusive.
"""
import json
from collections import Counter
from vf import shadow as S
from vf import oracle_c20_lang as L
from vf.core import h64

ID = 'C20'
LEVEL = 'exploration'
RULE = ('case = one annotated while-program generated as an object (depth <= 4, <= 3 variables, <= 2 loops, '
        'pre/post/invariants chosen from a candidate pool guided by sampled runs: "good" specs hold on all sampled '
        'runs, "hostile" specs hold under a deliberately wrong semantics (branches swapped / assignment ignored / '
        'sequence reversed) but fail on a real run) driven through compute_wp+get_lines (int) or eval_Sem / vcg_norm '
        '(nat), plus stand-alone conditions printed and re-parsed; distinct = hash of (program, pre, post); '
        'non-trivial = the real code accepted the case and at least one monitor judged it')
ASSUMPTIONS = [
    'Z3 5.1 unsat of the negated VC (own encoding over unbounded ints; nats as ints >= 0, truncated minus) is taken as "VC valid"; '
    'rlimit-bounded, unknown => program inconclusive',
    'Z3 counter-models and sampled states are only used to say "not all VCs valid" (no verdict) and are re-checked by evaluation',
    'executions: every initial state in [-4,4]^n (ints) / [0,4]^n (nats) satisfying the precondition, fuel 300 loop iterations; '
    'runs out of fuel are skipped (the statement only speaks of terminating executions)',
    'meaning comparison of printed/re-parsed/HOL forms is by evaluation on the same cube of states (a difference is a definite '
    'witness; agreement on the cube is only "no difference observed")',
    'eval_Sem / vcg theorems are re-checked by theory.check_proof(check_level=0) before their statement is judged',
]
REQUIRED = {
    'quick': {'py_cases_accepted': 500, 'py_allvalid_runs_checked': 10000, 'py_programs_all_vcs_valid': 120,
              'py_loop_programs_all_vcs_valid': 25, 'py_hostile_specs_refuted': 150,
              'pp_checked': 3000, 'convhol_vcs_compared': 800, 'call:Com.compute_wp(all, recursive)': 1500,
              'call:Expr.__str__(top-level)': 8000, 'call:Expr.convert_hol(top-level)': 800,
              'call:parser2.cond_parser.parse': 3000, 'call:imp.eval_Sem': 100, 'hol_evalsem_agree': 100,
              'call:macro eval_Sem via check_proof': 200, 'call:imp.vcg_norm': 60,
              'hol_vcg_programs_all_vcs_valid': 20, 'hol_vcg_runs_checked': 300,
              'py_connective_spec_cases': 200, 'py_connective_spec_vcs_with_implication_or_ite_hypothesis': 80,
              'vc_shown_lines_checked': 1500},
    'thorough': {'py_cases_accepted': 8000, 'py_allvalid_runs_checked': 160000, 'py_programs_all_vcs_valid': 2000,
                 'py_loop_programs_all_vcs_valid': 400, 'py_hostile_specs_refuted': 2400,
                 'pp_checked': 40000, 'convhol_vcs_compared': 12000, 'call:Com.compute_wp(all, recursive)': 24000,
                 'call:Expr.__str__(top-level)': 120000, 'call:Expr.convert_hol(top-level)': 12000,
                 'call:parser2.cond_parser.parse': 40000, 'call:imp.eval_Sem': 1600, 'hol_evalsem_agree': 1500,
                 'call:macro eval_Sem via check_proof': 3000, 'call:imp.vcg_norm': 900,
                 'hol_vcg_programs_all_vcs_valid': 300, 'hol_vcg_runs_checked': 5000,
                 'py_connective_spec_cases': 3000, 'py_connective_spec_vcs_with_implication_or_ite_hypothesis': 1200,
                 'vc_shown_lines_checked': 12000},
}
SHARD_TIMEOUT = {'quick': 600, 'thorough': 3600}

FUEL = 300
INT_LO, INT_HI = -4, 4
NAT_LO, NAT_HI = 0, 4


def shards(tier, seed):
    if tier == 'quick':
        return [{'i': i, 'py': 52, 'conds': 220, 'hol': 7, 'holvcg': 20, 'connspec': 14} for i in range(16)]
    return [{'i': i, 'py': 420, 'conds': 1500, 'hol': 50, 'holvcg': 160, 'connspec': 110} for i in range(32)]


# =========================================================================== monitors on the real code
class Mon:
    """function-boundary observation of Expr.__str__ / Expr.convert_hol / Com.compute_wp"""
    installed = False
    depth_str = 0
    depth_hol = 0
    recording = False
    str_events = []     # (object, printed text) of every TOP-LEVEL str() while recording
    hol_events = []     # (object, HOL term) of every TOP-LEVEL convert_hol() while recording
    calls = Counter()

    @classmethod
    def start(cls):
        cls.recording = True
        cls.str_events = []
        cls.hol_events = []

    @classmethod
    def stop(cls):
        cls.recording = False


def install_monitors():
    if Mon.installed:
        return
    Mon.installed = True
    from imperative import expr as E, com as C

    def wrap_str(klass):
        orig = klass.__dict__['__str__']

        def __str__(self):
            Mon.depth_str += 1
            try:
                r = orig(self)
            finally:
                Mon.depth_str -= 1
            if Mon.depth_str == 0:
                Mon.calls['call:Expr.__str__(top-level)'] += 1
                if Mon.recording:
                    Mon.str_events.append((self, r))
            return r
        klass.__str__ = __str__

    def wrap_hol(klass):
        orig = klass.__dict__['convert_hol']

        def convert_hol(self, ctxt):
            Mon.depth_hol += 1
            try:
                r = orig(self, ctxt)
            finally:
                Mon.depth_hol -= 1
            if Mon.depth_hol == 0:
                Mon.calls['call:Expr.convert_hol(top-level)'] += 1
                if Mon.recording:
                    Mon.hol_events.append((self, r))
            return r
        klass.convert_hol = convert_hol

    for name in ('Var', 'Const', 'Op', 'Fun', 'ITE', 'ArrayElt', 'Field', 'Forall'):
        klass = getattr(E, name, None)
        if klass is None:
            continue
        if '__str__' in klass.__dict__:
            wrap_str(klass)
        if 'convert_hol' in klass.__dict__:
            wrap_hol(klass)

    orig_wp = C.Com.compute_wp

    def compute_wp(self, post):
        Mon.calls['call:Com.compute_wp(all, recursive)'] += 1
        return orig_wp(self, post)
    C.Com.compute_wp = compute_wp


def flush_calls(ctx):
    for k, v in Mon.calls.items():
        ctx.count(k, v)
    Mon.calls.clear()


# =========================================================================== print / re-parse monitor
PP_CACHE = {}
VC_NOTED = set()


def reparse(ctx, s):
    """the REAL condition parser on printed text -> my tuple, or None (rejected)"""
    from imperative import parser2
    if ctx is not None:
        ctx.count('call:parser2.cond_parser.parse')
    try:
        r = parser2.cond_parser.parse(s)
    except Exception:
        return None
    try:
        return L.from_repo_expr(r)
    except L.Unsupported:
        return None


def first_difference(e1, e2, names, mode='int'):
    lo, hi = (INT_LO, INT_HI) if mode == 'int' else (NAT_LO, NAT_HI)
    for st in L.cube(sorted(names), lo, hi):
        try:
            v1, v2 = L.ev(e1, st, L.PY, mode), L.ev(e2, st, L.PY, mode)
        except L.Unsupported:
            return None
        if v1 != v2:
            return st, v1, v2
    return None


def roundtrip_tuple(e):
    """print e with the repo printer, re-parse with the repo parser; arithmetic e is wrapped as `e == 0`.
    returns my tuple of the re-parsed expression, or None"""
    if L.is_bool(e):
        s = str(L.to_repo_expr(e))
        return reparse(None, s)
    s = str(L.to_repo_expr(('op', '==', e, ('n', 0))))
    r = reparse(None, s)
    if r is None or r[0] != 'op' or r[1] != '==' or len(r) != 4:
        return None
    return r[2]


def classify_pp(e):
    """mechanism key for a print/re-parse meaning change of e: the smallest subterm whose own round trip
    changes its meaning on the cube decides (its operator and the operator of the child that lost its parentheses)."""
    names = L.expr_vars(e) or {'a'}
    for t in L.subterms(e):
        if t[0] in ('v', 'n', 'true'):
            continue
        r = roundtrip_tuple(t)
        if r is None or r == t:
            continue
        if first_difference(t, r, names) is None:
            continue
        # t is minimal
        if t[0] == 'op' and len(t) == 3 and t[1] == '~':
            return 'print-parse:negation-loses-parentheses'
        if t[0] == 'op' and len(t) == 4 and t[1] in ('+', '-', '*'):
            # the grammar is precedence-free and right-nesting, the printer only parenthesises +/- under *:
            # every operator printed without parentheses inside the LEFT operand is re-associated with what follows
            parent = t[1]
            exposed = set()

            def walk(x, under):
                if x[0] != 'op' or x[1] not in ('+', '-', '*'):
                    return
                if len(x) == 3:
                    exposed.add('neg')
                    walk(x[2], 'neg')
                    return
                if under == '*' and x[1] in ('+', '-'):
                    return          # printed in parentheses
                exposed.add(x[1])
                walk(x[2], x[1])
                walk(x[3], x[1])
            walk(t[2], parent)
            if '*' in exposed and parent in ('+', '-'):
                return 'print-parse:product-left-of-sum'
            if 'neg' in exposed:
                return 'print-parse:unary-minus-captures-right-operand'
            if '-' in exposed and parent in ('+', '-'):
                return 'print-parse:left-nested-minus'
            return 'print-parse:arith-other'
        if t[0] == 'op' and len(t) == 4 and t[1] in L.BOOLBIN:
            def has_ite(x):     # an if-then-else printed without parentheses at the right end of the left operand
                if x[0] == 'ite':
                    return True
                if x[0] == 'op' and x[1] in L.BOOLBIN:
                    return has_ite(x[3])
                if x[0] == 'op' and x[1] == '~':
                    return has_ite(x[2])
                return False
            if has_ite(t[2]):
                return 'print-parse:if-then-else-captures-right-operand'
            return 'print-parse:boolean-operator-nesting'
        return 'print-parse:other'
    return 'print-parse:other'


def check_print_parse(ctx, e, printed, where, extra=None):
    """e: my tuple of the object that was printed; printed: what the real printer returned."""
    key = (e, printed)
    if key in PP_CACHE:
        ctx.count('pp_cached')
        return PP_CACHE[key]
    ctx.count('pp_checked')
    ctx.count('pp_where:' + where)
    r = reparse(ctx, printed)
    if r is None:
        ctx.count('pp_reparse_rejected')
        PP_CACHE[key] = None
        return None
    if r == e:
        ctx.count('pp_identical')
        PP_CACHE[key] = r
        return r
    names = L.expr_vars(e) | L.expr_vars(r)
    d = first_difference(e, r, names or {'a'})
    if d is None:
        ctx.count('pp_structure_differs_same_value_on_cube')
    else:
        st, v1, v2 = d
        mech = classify_pp(e)
        ctx.count('pp_meaning_changed')
        ctx.count('pp_meaning_changed_in:' + where)
        ctx.count('pp_meaning_changed:' + mech.split(':', 1)[1] + ':' + where)
        w = {'kind': 'pp', 'expr': e, 'printed': printed, 'reparsed': r, 'state': st, 'where': where}
        if extra:
            w.update(extra)
        desc = '%s: %s prints as "%s" which re-parses as %s; at %s the values are %s vs %s' % (
            where, L.show(e), printed, L.show(r), st, v1, v2)
        if where == 'vc' and mech not in VC_NOTED:
            VC_NOTED.add(mech)
            ctx.note('VC shown to the user changes meaning [%s] %s' % (mech, desc[:500]))
        ctx.violation(mech, desc, w)
    PP_CACHE[key] = r
    return r


# =========================================================================== python-level pipeline
def py_pipeline(names, c, P, Q):
    """Drive the REAL code: objects -> compute_wp -> get_lines.  Returns a record."""
    rec = {'status': 'ok'}
    rc = L.to_repo_com(c)
    if L.from_repo_com(rc) != c:
        raise RuntimeError('harness: object construction does not read back')
    rP, rQ = L.to_repo_expr(P), L.to_repo_expr(Q)
    rc.pre = [rP]
    Mon.calls['call:Com.compute_wp'] += 1
    try:
        rc.compute_wp(rQ)
    except Exception as ex:
        rec['status'] = 'wp_rejected:' + type(ex).__name__
        return rec
    Mon.start()
    try:
        lines = rc.get_lines({n: 'int' for n in names})
    except Exception as ex:
        rec['status'] = 'get_lines_rejected:' + type(ex).__name__
        return rec
    finally:
        Mon.stop()
    Mon.calls['call:Com.get_lines'] += 1
    vc_lines = [l for l in lines if l['ty'] == 'vc']
    hol = list(Mon.hol_events)
    strs = list(Mon.str_events)
    if len(hol) != len(vc_lines) or any(h[1] is not l['prop'] for h, l in zip(hol, vc_lines)):
        rec['status'] = 'monitor_mismatch'
        return rec
    rec['lines'] = lines
    rec['vc_objs'] = [h[0] for h in hol]
    rec['vc_props'] = [h[1] for h in hol]
    rec['vc_strs'] = [l['str'] for l in vc_lines]
    rec['str_events'] = strs
    try:
        rec['vcs'] = [L.from_repo_expr(o) for o in rec['vc_objs']]
    except L.Unsupported as ex:
        rec['status'] = 'vc_unreadable:%s' % ex
    return rec


Z3_CACHE = {}


def judge_vcs(vcs, names, mode='int'):
    """('valid',) only if EVERY vc is proved by Z3; ('refuted', i, state) if some vc is false in a sampled
    state or in a re-checked Z3 model (=> not all VCs valid, no soundness verdict); ('unknown', why)."""
    lo, hi = (INT_LO, INT_HI) if mode == 'int' else (NAT_LO, NAT_HI)
    states = list(L.cube(sorted(names), lo, hi))
    for i, vc in enumerate(vcs):
        for st in states:
            try:
                if L.ev(vc, st, L.PY, mode) is False:
                    return ('refuted', i, st)
            except L.Unsupported as ex:
                return ('unknown', str(ex))
    for i, vc in enumerate(vcs):
        k = (vc, mode)
        if k not in Z3_CACHE:
            Z3_CACHE[k] = L.tuple_valid(vc, mode)
        v, info = Z3_CACHE[k]
        if v == 'invalid':
            return ('refuted', i, info)
        if v != 'valid':
            return ('unknown', info)
    return ('valid',)


def violating_run(c, P, Q, names, mode='int'):
    """first terminating execution from a P-state of the cube that ends outside Q: (s0, final, nruns) or (None, None, nruns)"""
    lo, hi = (INT_LO, INT_HI) if mode == 'int' else (NAT_LO, NAT_HI)
    n = 0
    for st in L.cube(sorted(names), lo, hi):
        if L.ev(P, st, L.PY, mode) is not True:
            continue
        try:
            fin, _ = L.run(c, st, FUEL, mode)
        except L.OutOfFuel:
            continue
        n += 1
        if L.ev(Q, fin, L.PY, mode) is not True:
            return st, fin, n
    return None, None, n


def py_unsound(names, c, P, Q):
    """silent re-run used by the shrinker: witness dict if (all VCs valid by Z3) and a run violates Q"""
    rec = py_pipeline(names, c, P, Q)
    if rec['status'] != 'ok':
        return None
    if judge_vcs(rec['vcs'], names)[0] != 'valid':
        return None
    s0, fin, _ = violating_run(c, P, Q, names)
    if s0 is None:
        return None
    return {'state': s0, 'final': fin, 'vcs': rec['vc_strs']}


def shrink_candidates(c):
    """simpler programs (children alone, a child replaced by skip), outermost first"""
    k = c[0]
    out = []
    if k == 'seq':
        out += [c[1], c[2]]
        for x in shrink_candidates(c[1]):
            out.append(('seq', x, c[2]))
        for x in shrink_candidates(c[2]):
            out.append(('seq', c[1], x))
    elif k == 'if':
        out += [c[2], c[3], ('skip',)]
        for x in shrink_candidates(c[2]):
            out.append(('if', c[1], x, c[3]))
        for x in shrink_candidates(c[3]):
            out.append(('if', c[1], c[2], x))
    elif k == 'while':
        out += [c[3], ('skip',)]
        for x in shrink_candidates(c[3]):
            out.append(('while', c[1], c[2], x))
    elif k == 'asg':
        out += [('skip',)]
    return out


def shrink(c, pred, budget=90):
    """greedy delta-debugging on the program with the specification fixed; pred(c) -> witness or None"""
    best_w = None
    improved = True
    while improved and budget > 0:
        improved = False
        for cand in shrink_candidates(c):
            if budget <= 0:
                break
            budget -= 1
            try:
                w = pred(cand)
            except Exception:
                w = None
            if w is not None:
                c, best_w, improved = cand, w, True
                break
    return c, best_w


def kinds_key(c):
    order = ['skip', 'asg', 'seq', 'if', 'while']
    nm = {'skip': 'skip', 'asg': 'assign', 'seq': 'seq', 'if': 'cond', 'while': 'while'}
    ks = L.com_kinds(c)
    core = ks - {'skip', 'seq'}     # glue left over by the shrinker is not part of the mechanism
    if core:
        ks = core
    return '+'.join(nm[k] for k in order if k in ks)


def outer_connective(e):
    if e[0] == 'ite':
        return 'if-then-else'
    if e[0] == 'op' and len(e) == 4 and e[1] in L.BOOLBIN:
        return {'&': 'conjunction', '|': 'disjunction', '-->': 'implication', '<-->': 'iff'}[e[1]]
    if e[0] == 'op' and e[1] == '~':
        return 'negation'
    return 'atom'


def check_shown_vcs(ctx, rec, names, wbase, reparsed_vcs):
    """Every 'vc' line of get_lines carries a text ('str') and the HOL form ('prop') of one computed condition.  The
    text is what the user reads and what is parsed back, so it has to denote the computed condition - no matter how
    get_lines put it together (print of the computed object, or pieces glued by string formatting).
    Texts equal to the repo's own print of the computed object are judged by monitor (A); here the remaining ones.
    Fills reparsed_vcs[i] for the lines (A) could not attribute; returns the per-line mechanism key (or None)."""
    mechs = [None] * len(rec['vcs'])
    printed_of = {id(o): p for o, p in rec['str_events']}
    for i, (vc, obj, shown) in enumerate(zip(rec['vcs'], rec['vc_objs'], rec['vc_strs'])):
        ctx.count('vc_shown_lines_checked')
        canon = printed_of.get(id(obj))
        if canon is None:
            ctx.count('vc_shown_computed_object_was_not_printed')
            try:
                canon = str(obj)
            except Exception:
                canon = None
        text = shown
        if text.endswith(';'):          # the ';' get_lines appends to the last line of the first half of a sequence
            text = text[:-1]
        if canon is not None and text == canon:
            ctx.count('vc_shown_is_print_of_computed_vc')
            if reparsed_vcs[i] is None:
                reparsed_vcs[i] = reparse(ctx, text)
            continue
        ctx.count('vc_shown_text_is_not_the_print_of_computed_vc')
        hyp = outer_connective(vc[2]) if vc[0] == 'op' and len(vc) == 4 and vc[1] == '-->' else 'none'
        ctx.count('vc_shown_assembled_text_with_hypothesis:' + hyp)
        r = reparse(ctx, text)
        w = dict(wbase, kind='vc-shown', vc=vc, shown=shown, print_of_computed=canon)
        if r is None:
            ctx.count('vc_shown_assembled_text_not_reparsable')
            if canon is not None and reparse(ctx, canon) is not None:
                mechs[i] = 'vc-display:assembled-text-not-parsable:hypothesis-' + hyp
                ctx.violation(mechs[i], 'VC line shows "%s", which the condition parser rejects; the computed condition %s prints '
                              'as "%s", which it accepts' % (shown, L.show(vc), canon), w)
            continue
        reparsed_vcs[i] = r
        if r == vc:
            ctx.count('vc_shown_assembled_text_reads_back_identical')
            continue
        d = first_difference(vc, r, set(names) | L.expr_vars(r))
        if d is None:
            ctx.count('vc_shown_assembled_text_same_value_on_cube')
            continue
        st, v1, v2 = d
        mechs[i] = 'vc-display:text-not-printed-from-computed-vc:%s-hypothesis-loses-parentheses' % hyp
        ctx.count('vc_shown_assembled_text_meaning_changed')
        desc = ('VC line shows "%s", which reads back as %s, but the condition computed for that line (its HOL form) is %s, '
                'printed "%s"; at %s the values are %s (computed) vs %s (shown)' % (shown, L.show(r), L.show(vc), canon, st, v1, v2))
        if mechs[i] not in VC_NOTED:
            VC_NOTED.add(mechs[i])
            ctx.note('VC text assembled by get_lines changes meaning [%s] %s' % (mechs[i], desc[:500]))
        ctx.violation(mechs[i], desc, dict(w, reparsed=r, state=st))
    return mechs


def py_case(ctx, names, c, P, Q, tag, replaying=False):
    """all python-level monitors on one annotated program"""
    rec = py_pipeline(names, c, P, Q)
    if rec['status'] != 'ok':
        ctx.count('py_rejected:' + rec['status'].split(':')[0])
        return rec
    ctx.count('py_cases_accepted')
    ctx.count('py_vcs_generated', len(rec['vcs']))
    has_loop = 'while' in L.com_kinds(c)
    wbase = {'names': list(names), 'com': c, 'pre': P, 'post': Q, 'tag': tag}

    # --- (A) every condition printed while listing the program: print -> real parser -> same meaning?
    id2vc = {id(o): i for i, o in enumerate(rec['vc_objs'])}
    reparsed_vcs = [None] * len(rec['vcs'])
    for obj, printed in rec['str_events']:
        try:
            e = L.from_repo_expr(obj)
        except L.Unsupported:
            ctx.count('pp_unreadable_object')
            continue
        if not L.is_bool(e):
            ctx.count('pp_arith_text_not_reparsed')      # assignment targets / right-hand sides: no cond to re-parse
            continue
        where = 'vc' if id(obj) in id2vc else 'program-text'
        r = check_print_parse(ctx, e, printed, where, {'case': wbase} if where == 'vc' else None)
        if id(obj) in id2vc:
            i = id2vc[id(obj)]
            shown = rec['vc_strs'][i]
            if printed != shown:
                # get_lines appends ';' to the last line of the first half of a sequence; when that line is a VC
                # (sequence whose first half ends in a loop) the VC is listed as "<vc>;"
                if shown == printed + ';':
                    ctx.count('vc_listed_with_trailing_semicolon')
                    if reparse(ctx, shown) is None:
                        ctx.count('vc_listed_with_trailing_semicolon_not_reparsable')
                else:
                    ctx.count('monitor_vc_string_mismatch')
            reparsed_vcs[i] = r

    # --- (A2) the TEXT listed on each VC line (whatever it was assembled from), read back by the real parser, must
    #          mean the condition that was computed (the one whose HOL form sits next to it in the same line)
    display_mech = check_shown_vcs(ctx, rec, names, wbase, reparsed_vcs)

    # --- (B) the HOL form of each VC means the same as the AST
    for i, (vc, prop) in enumerate(zip(rec['vcs'], rec['vc_props'])):
        check_convert_hol(ctx, vc, prop, names, wbase)

    # --- (C) soundness: all VCs (as computed) valid  ==>  no terminating run from pre ends outside post
    verdict = judge_vcs(rec['vcs'], names)
    rec['verdict'] = verdict
    if verdict[0] == 'unknown':
        ctx.count('py_inconclusive_z3_unknown')
    elif verdict[0] == 'refuted':
        ctx.count('py_not_all_vcs_valid')
        if tag.startswith('hostile'):
            ctx.count('py_hostile_specs_refuted')
    else:
        ctx.count('py_programs_all_vcs_valid')
        if has_loop:
            ctx.count('py_loop_programs_all_vcs_valid')
        for k in L.com_kinds(c):
            ctx.count('py_allvalid_with:' + k)
        s0, fin, nruns = violating_run(c, P, Q, names)
        ctx.count('py_allvalid_runs_checked', nruns)
        if nruns == 0:
            ctx.count('py_allvalid_but_no_terminating_run_from_pre')
        if s0 is not None:
            small, w2 = shrink(c, lambda cc: py_unsound(names, cc, P, Q))
            mech = 'py-vcg-unsound:' + kinds_key(small)
            w = dict(wbase, kind='py-sound', state=s0, final=fin, vcs=rec['vc_strs'], shrunk=small,
                     shrunk_witness=w2)
            ctx.violation(mech, 'all %d VCs %s are valid (Z3) but {%s} %s {%s} started in %s ends in %s' % (
                len(rec['vcs']), rec['vc_strs'], L.show(P), L.show_com(c), L.show(Q), s0, fin), w)

    # --- (D) the VCs AS SHOWN (printed, re-parsed) all valid  ==>  same conclusion must hold
    if verdict[0] != 'valid' and all(r is not None for r in reparsed_vcs) and \
            any(r != v for r, v in zip(reparsed_vcs, rec['vcs'])):
        ctx.count('py_shown_vcs_differ_structurally')
        v2 = judge_vcs(reparsed_vcs, names)
        if v2[0] == 'valid':
            s0, fin, nruns = violating_run(c, P, Q, names)
            ctx.count('py_shown_allvalid_runs_checked', nruns)
            if s0 is not None:
                mech = 'print-parse:other'
                for v, r, dm in zip(rec['vcs'], reparsed_vcs, display_mech):
                    if r != v and first_difference(v, r, set(names)) is not None:
                        mech = dm or classify_pp(v)
                        break
                w = dict(wbase, kind='py-shown', state=s0, final=fin, vcs=rec['vc_strs'])
                ctx.count('py_shown_vcs_all_valid_but_run_violates_post')
                if 'shown' not in VC_NOTED:
                    VC_NOTED.add('shown')
                    ctx.note('consequence of [%s]: every VC AS SHOWN %s is valid (Z3), the computed VCs are not, and {%s} %s {%s} '
                             'started in %s ends in %s' % (mech, rec['vc_strs'], L.show(P), L.show_com(c), L.show(Q), s0, fin))
                ctx.violation(mech, 'every VC as shown to the user %s (re-parsed) is valid, the computed ones are not, and '
                              '{%s} %s {%s} started in %s ends in %s' % (rec['vc_strs'], L.show(P), L.show_com(c),
                                                                          L.show(Q), s0, fin), w)
    return rec


# =========================================================================== convert_hol monitor
def check_convert_hol(ctx, vc, prop, names, wbase):
    try:
        sh = S.tm_shadow(prop)
    except Exception as ex:
        ctx.count('convhol_malformed_term')
        ctx.violation('convert-hol:not-a-term', 'convert_hol of %s returned an object that is not a kernel term (%s)' % (
            L.show(vc), type(ex).__name__), dict(wbase, kind='convert-hol', vc=vc))
        return
    ctx.count('convhol_vcs_compared')
    for st in L.cube(sorted(names), INT_LO, INT_HI):
        try:
            v1 = L.ev(vc, st, L.PY, 'int')
            v2 = L.ev_hol(sh, st, L.PY)
        except L.Unsupported as ex:
            ctx.count('convhol_unsupported')
            return
        if v1 != v2:
            op = 'other'
            for t in L.subterms(vc):
                if t[0] in ('v', 'n'):
                    continue
                try:
                    tt = S.tm_shadow(L.to_repo_expr(t).convert_hol({n: 'int' for n in names}))
                    if any(L.ev(t, s2, L.PY, 'int') != L.ev_hol(tt, s2, L.PY) for s2 in L.cube(sorted(names), -2, 2)):
                        op = t[1] if t[0] in ('op', 'fun') else t[0]
                        break
                except Exception:
                    continue
            ctx.violation('convert-hol:meaning-differs:' + op,
                          'VC %s and its HOL form %s differ at %s (%s vs %s)' % (L.show(vc), S.tm_str(sh), st, v1, v2),
                          dict(wbase, kind='convert-hol', vc=vc, state=st))
            return


# =========================================================================== specification generation
def pick_spec(rng, gen, c, mode):
    """(P, c with invariants, Q, tag) guided by sampled runs; None if no terminating run from P exists"""
    names = gen.names
    lo, hi = (INT_LO, INT_HI) if mode == 'int' else (NAT_LO, NAT_HI)
    pool = L.candidate_pool(gen)
    states = list(L.cube(sorted(names), lo, hi))
    # candidates are filtered on a wider box too, otherwise cube artefacts such as `x <= 4` survive as "invariants"
    wlo, whi = (-9, 9) if mode == 'int' else (0, 9)
    states += [{n: rng.randint(wlo, whi) for n in names} for _ in range(160)]

    def holds(p, st):
        try:
            return L.ev(p, st, L.PY, mode) is True
        except L.Unsupported:
            return False

    # precondition
    P = ('true',)
    x = rng.random()
    exact = rng.random() < 0.25
    if exact:
        # pin the initial state (one variable may range over 2-3 values): the set of final states is then small enough
        # to be written down exactly, which gives specifications that match a WRONG semantics precisely
        s0 = rng.choice(states[:len(states) - 160])
        free = rng.choice(sorted(names)) if rng.random() < 0.6 else None
        parts = []
        for n_ in sorted(names):
            if n_ == free:
                a_ = max(lo, s0[n_] - rng.choice([1, 2]))
                parts += [('op', '<=', num(a_), ('v', n_)), ('op', '<=', ('v', n_), num(s0[n_]))]
            else:
                parts.append(('op', '==', ('v', n_), num(s0[n_])))
        P = L.conj_list(parts)
    elif x < 0.7:
        for _ in range(6):
            k = rng.choice([1, 1, 2])
            cand = L.conj_list(rng.sample(pool, k))
            if sum(1 for st in states if holds(cand, st)) >= 3:
                P = cand
                break
    elif x < 0.8:
        P = gen.cond(2, 1)
    pstates = [st for st in states if holds(P, st)]
    if len(pstates) > 200:
        pstates_run = rng.sample(pstates, 200)
    else:
        pstates_run = pstates
    trace = {}
    entry_heads = {}
    finals = []
    for st in pstates_run:
        tr = {}
        try:
            fin, _ = L.run(c, st, FUEL, mode, None, tr)
        except L.OutOfFuel:
            continue
        finally:
            for pth, hs in tr.items():
                trace.setdefault(pth, []).extend(hs)
                entry_heads.setdefault(pth, []).append(hs[0])
        finals.append(fin)
    if not finals:
        return None

    # invariants
    hostile_inv = rng.random() < 0.12
    invs = {}
    for path in L.loops_of(c):
        w = L.sub_at(c, path)
        heads = trace.get(path, [])
        if len(heads) > 150:
            heads = rng.sample(heads, 150)
        if hostile_inv:
            invs[path] = L.conj_list(rng.sample(pool, rng.choice([1, 2])))
            continue
        cands = [p for p in pool if all(holds(p, h) for h in heads)]
        sub = rng.sample(cands, min(len(cands), rng.choice([1, 2, 3, 4, 6, 8])))
        # Houdini on the cube: drop conjuncts that are not preserved by one iteration of the body
        changed = True
        rounds = 0
        while changed and sub and rounds < 6:
            changed = False
            rounds += 1
            for st in states:
                if not all(holds(p, st) for p in sub) or not holds(w[1], st):
                    continue
                try:
                    st2, _ = L.run(w[3], st, 60, mode)
                except L.OutOfFuel:
                    continue
                keep = [p for p in sub if holds(p, st2)]
                if len(keep) != len(sub):
                    sub, changed = keep, True
                    if not sub:
                        break
        invs[path] = L.conj_list(sub)
    # hostile invariant: holds whenever the loop is entered, is broken by the body on a real run, and I & ~b implies a
    # postcondition that a real run violates (any weakening of the preservation VC lets this through)
    hq = None
    loops = list(L.loops_of(c))
    if loops and not hostile_inv and rng.random() < 0.3:
        path = rng.choice(loops)
        w = L.sub_at(c, path)
        ents, heads = entry_heads.get(path, []), trace.get(path, [])
        broken = [p for p in pool if ents and all(holds(p, h) for h in ents) and not all(holds(p, h) for h in heads)]
        rng.shuffle(broken)
        for I in broken[:6]:
            exitq = [p for p in pool if not all(holds(p, f) for f in finals) and
                     all(holds(p, st) for st in states if holds(I, st) and not holds(w[1], st))]
            if exitq or path != tail_loop_path(c):
                invs[path] = I
                if path == tail_loop_path(c):
                    hq = rng.choice(exitq)
                break
    c2 = L.set_inv(c, invs)

    # postcondition
    y = rng.random()
    tag = 'good'
    Q = None
    if hq is not None:
        Q, tag, y = hq, 'hostile:inv', 1.0
    elif exact and y < 0.75:
        real = {tuple(sorted(f.items())) for f in finals}
        variants = ['swap_cond', 'assign_skip', 'seq_rev', 'stale_if', 'stale_rhs']
        rng.shuffle(variants)
        if 'if' in L.com_kinds(c) and rng.random() < 0.4:
            variants.remove('stale_if')
            variants.insert(0, 'stale_if')
        for variant in variants:
            vf = set()
            for st in pstates_run:
                try:
                    fin, _ = L.run(c, st, FUEL, mode, variant)
                except L.OutOfFuel:
                    vf = None
                    break
                vf.add(tuple(sorted(fin.items())))
            if vf and len(vf) <= 4 and not real <= vf and all(abs(v_) <= 99 for f in vf for _n, v_ in f):
                disj = [L.conj_list([('op', '==', ('v', n_), num(v_)) for n_, v_ in f]) for f in sorted(vf)]
                Q = disj[-1]
                for d_ in reversed(disj[:-1]):
                    Q = ('op', '|', d_, Q)
                tag = 'hostile:' + variant + ':exact'
                break
        y = 1.0 if Q is not None else rng.random() * 0.9
    if Q is not None:
        pass
    elif y < 0.5:
        good = [p for p in pool if all(holds(p, f) for f in finals)]
        if good:
            Q = L.conj_list(rng.sample(good, min(len(good), rng.choice([1, 1, 2]))))
    elif y < 0.9:
        variant = rng.choice(['swap_cond', 'assign_skip', 'seq_rev', 'stale_if', 'stale_rhs', 'any'])
        bad = [p for p in pool if not all(holds(p, f) for f in finals)]
        if variant != 'any':
            vfinals = []
            for st in pstates_run:
                try:
                    fin, _ = L.run(c, st, FUEL, mode, variant)
                except L.OutOfFuel:
                    continue
                vfinals.append(fin)
            bad2 = [p for p in bad if vfinals and all(holds(p, f) for f in vfinals)]
            if bad2:
                bad = bad2
                tag = 'hostile:' + variant
            else:
                tag = 'hostile:any'
        else:
            tag = 'hostile:any'
        if bad:
            Q = rng.choice(bad)
            if rng.random() < 0.3:
                good = [p for p in pool if all(holds(p, f) for f in finals)]
                if good:
                    Q = ('op', '&', rng.choice(good), Q) if rng.random() < 0.5 else ('op', '&', Q, rng.choice(good))
    tail = tail_loop_path(c2)
    if tag == 'good' and tail is not None and rng.random() < 0.6:
        # program ends in a loop: prefer a postcondition that I & ~b implies on the cube (Z3 decides for real later)
        w = L.sub_at(c2, tail)
        exitq = [p for p in pool if all(holds(p, f) for f in finals) and
                 all(holds(p, st) for st in states if holds(w[2], st) and not holds(w[1], st))]
        if exitq:
            Q = L.conj_list(rng.sample(exitq, min(len(exitq), rng.choice([1, 1, 2]))))
    if Q is None:
        Q = gen.cond(2, 1)
        tag = 'random'
    return P, c2, Q, tag


def num(k):
    return ('n', k) if k >= 0 else ('op', '-', ('n', -k))


def tail_loop_path(c, path=()):
    if c[0] == 'while':
        return path
    if c[0] == 'seq':
        return tail_loop_path(c[2], path + (2,))
    return None


# =========================================================================== HOL level (imp.py / hoare.json)
class Hol:
    """builders of the HOL terms imp.py works on (states nat => nat, variable i of `names` is s i)"""

    def __init__(self, names):
        from kernel.type import TFun, NatType
        from kernel.term import Var
        from imperative import imp
        self.names = list(names)
        self.T = TFun(NatType, NatType)
        self.s = Var('s', self.T)
        self.imp = imp

    def arith(self, e):
        from kernel.term import Nat
        from data import nat
        k = e[0]
        if k == 'v':
            return self.s(Nat(self.names.index(e[1])))
        if k == 'n':
            return Nat(e[1])
        if k == 'op' and len(e) == 4 and e[1] in ('+', '*', '-'):
            f = {'+': nat.plus, '*': nat.times, '-': nat.minus}[e[1]]
            return f(self.arith(e[2]), self.arith(e[3]))
        raise L.Unsupported('nat arith ' + repr(e[:2]))

    def cond(self, e):
        from kernel.term import Eq, Not, And, Or, Implies, true
        from data import nat
        from logic import logic
        k = e[0]
        if k == 'true':
            return true
        if k == 'ite':
            return logic.mk_if(self.cond(e[1]), self.cond(e[2]), self.cond(e[3]))
        op = e[1]
        if op == '~':
            return Not(self.cond(e[2]))
        if op in ('&', '|', '-->'):
            f = {'&': And, '|': Or, '-->': Implies}[op]
            return f(self.cond(e[2]), self.cond(e[3]))
        a, b = self.arith(e[2]), self.arith(e[3])
        if op == '==':
            return Eq(a, b)
        if op == '!=':
            return Not(Eq(a, b))
        if op == '<=':
            return nat.less_eq(a, b)
        if op == '<':
            return nat.less(a, b)
        raise L.Unsupported('nat cond ' + op)

    def lam(self, t):
        from kernel.term import Lambda
        return Lambda(self.s, t)

    def com(self, c):
        from kernel.term import Nat
        from kernel.type import NatType
        imp = self.imp
        k = c[0]
        if k == 'skip':
            return imp.Skip(self.T)
        if k == 'asg':
            return imp.Assign(NatType, NatType)(Nat(self.names.index(c[1])), self.lam(self.arith(c[2])))
        if k == 'seq':
            return imp.Seq(self.T)(self.com(c[1]), self.com(c[2]))
        if k == 'if':
            return imp.Cond(self.T)(self.lam(self.cond(c[1])), self.com(c[2]), self.com(c[3]))
        if k == 'while':
            return imp.While(self.T)(self.lam(self.cond(c[1])), self.lam(self.cond(c[2])), self.com(c[3]))
        raise L.Unsupported(k)

    def state(self, st, all_keys=False):
        from kernel.type import NatType
        from kernel.term import Nat
        from data.function import mk_const_fun, mk_fun_upd
        from data import nat
        t = mk_const_fun(NatType, nat.zero)
        for i, n in enumerate(self.names):
            if st[n] != 0 or all_keys:
                t = mk_fun_upd(t, Nat(i), Nat(st[n]))
        return t

    # -- self-check of the builders against my evaluator (a failure is a harness bug, not a finding)
    def selfcheck(self, e, is_cond, states):
        t = self.lam(self.cond(e) if is_cond else self.arith(e))
        sh = S.tm_shadow(t)
        assert sh[0] == 'abs'
        for st in states:
            fn = L.FnVal(lambda k, st=st: st[self.names[k]] if k < len(self.names) else 0)
            v1 = L.ev_hol(sh[3], {}, L.PY, (fn,))
            v2 = L.ev(e, st, L.PY, 'nat')
            if v1 != v2:
                raise RuntimeError('harness: HOL builder disagrees with evaluator on %s at %s' % (L.show(e), st))


def decode_state(sh, nkeys):
    """values at indices 0..nkeys-1 of a closed nat => nat state shadow (fun_upd chain over a lambda)"""
    f = L.ev_hol(sh, {}, L.PY)
    if not isinstance(f, L.FnVal):
        raise L.Unsupported('state is not a function')
    out = []
    for k in range(nkeys):
        v = f(k)
        if not isinstance(v, int) or isinstance(v, bool):
            raise L.Unsupported('state value')
        out.append(v)
    return out


def strip_sem(th):
    sh = S.tm_shadow(th.prop)
    h, args = S.strip_comb(sh)
    if h[0] != 'const' or h[1] != 'Sem' or len(args) != 3:
        return None
    return args


def evalsem_once(names, c, st, checked=True):
    """REAL imp.eval_Sem on (c, st) -> ('rejected', why) | ('ok', theorem args shadows, c shadow, st shadow)"""
    from kernel import theory
    H = Hol(names)
    c_hol, st_hol = H.com(c), H.state(st)
    Mon.calls['call:imp.eval_Sem'] += 1
    try:
        pt = H.imp.eval_Sem(c_hol, st_hol)
    except Exception as ex:
        return ('rejected', 'eval_Sem:' + type(ex).__name__)
    try:
        th = theory.check_proof(pt.export()) if checked else pt.th
    except Exception as ex:
        return ('rejected', 'kernel:' + type(ex).__name__)
    if len(th.hyps) != 0:
        return ('rejected', 'has-hypotheses')
    args = strip_sem(th)
    if args is None:
        return ('rejected', 'not-a-Sem-theorem')
    return ('ok', args, S.tm_shadow(c_hol), S.tm_shadow(st_hol), c_hol, st_hol)


def evalsem_wrong(names, c, st):
    """witness if the kernel-checked eval_Sem theorem's final state differs from the interpreter's"""
    try:
        fin, _ = L.run(c, st, 40, 'nat')
    except L.OutOfFuel:
        return None
    r = evalsem_once(names, c, st)
    if r[0] != 'ok':
        return None
    args = r[1]
    if args[0] != r[2] or args[1] != r[3]:
        return {'other_statement': True}
    try:
        got = decode_state(args[2], len(names) + 2)
    except L.Unsupported:
        return None
    want = [fin[n] for n in names] + [0, 0]
    if got != want:
        return {'got': got, 'want': want}
    return None


def hol_evalsem_case(ctx, names, c, st, replaying=False):
    try:
        fin, _ = L.run(c, st, 40, 'nat')
    except L.OutOfFuel:
        ctx.count('hol_evalsem_skipped_no_termination')
        return
    r = evalsem_once(names, c, st)
    if r[0] != 'ok':
        ctx.count('hol_evalsem_rejected')
        ctx.count('hol_evalsem_rejected:' + r[1])
        return
    args, c_sh, st_sh, c_hol, st_hol = r[1:]
    w = {'kind': 'hol-evalsem', 'names': list(names), 'com': c, 'state': st}
    if args[0] != c_sh or args[1] != st_sh:
        ctx.violation('eval-sem:theorem-about-another-program-or-state',
                      'eval_Sem(%s, %s) proved a Sem theorem whose program/initial state differ from the request' % (
                          L.show_com(c), st), w)
        return
    try:
        got = decode_state(args[2], len(names) + 2)
    except L.Unsupported as ex:
        ctx.count('hol_evalsem_final_state_not_decodable')
        return
    want = [fin[n] for n in names] + [0, 0]
    if got == want:
        ctx.count('hol_evalsem_agree')
        for k in L.com_kinds(c):
            ctx.count('hol_evalsem_agree_with:' + k)
    else:
        small, w2 = shrink(c, lambda cc: evalsem_wrong(names, cc, st), budget=25)
        ctx.violation('eval-sem:wrong-final-state:' + kinds_key(small),
                      'eval_Sem proves Sem (%s) %s s2 with s2 = %s on %s, the interpreter computes %s' % (
                          L.show_com(c), st, got, list(names) + ['_', '_'], want), dict(w, got=got, want=want, shrunk=small))
        return
    # the macro on goals: the right final state should be provable, a wrong one must not be
    from kernel import theory
    from kernel.proofterm import ProofTerm
    H = Hol(names)
    Sem = H.imp.Sem(H.T)
    wrong = dict(fin)
    v = ctx.rng.choice(list(names))
    wrong[v] = fin[v] + ctx.rng.choice([1, 2]) if ctx.rng.random() < 0.7 or fin[v] == 0 else fin[v] - 1
    for label, target in (('right', fin), ('wrong', wrong)):
        goal = Sem(c_hol, st_hol, S.to_repo_term(args[2]) if label == 'right' else H.state(target, all_keys=ctx.rng.random() < 0.5))
        Mon.calls['call:macro eval_Sem via check_proof'] += 1
        try:
            th = theory.check_proof(ProofTerm('eval_Sem', goal, []).export())
        except Exception as ex:
            ctx.count('hol_evalsem_macro_%s_goal_rejected' % label)
            continue
        if label == 'right':
            ctx.count('hol_evalsem_macro_right_goal_proved')
            continue
        a2 = strip_sem(th)
        if a2 is not None and len(th.hyps) == 0:
            try:
                got2 = decode_state(a2[2], len(names) + 2)
            except L.Unsupported:
                continue
            if got2 != want and a2[0] == c_sh and a2[1] == st_sh:
                ctx.violation('eval-sem:macro-proves-wrong-final-state',
                              'macro eval_Sem proved Sem (%s) %s %s but the interpreter computes %s' % (
                                  L.show_com(c), st, got2, want),
                              dict(w, kind='hol-evalsem-macro', target=wrong, got=got2, want=want))


def strip_implies_sh(sh):
    As = []
    while True:
        h, args = S.strip_comb(sh)
        if h[0] == 'const' and h[1] == 'implies' and len(args) == 2:
            As.append(args[0])
            sh = args[1]
        else:
            return As, sh


def hol_vcg_run(names, c, P, Q):
    """REAL imp.vcg_norm + kernel check -> ('rejected', why) | ('ok', [vc shadows], concl shadow, goal shadow)"""
    from kernel import theory
    H = Hol(names)
    goal = H.imp.Valid(H.T)(H.lam(H.cond(P)), H.com(c), H.lam(H.cond(Q)))
    Mon.calls['call:imp.vcg_norm'] += 1
    try:
        pt = H.imp.vcg_norm(H.T, goal)
    except Exception as ex:
        return ('rejected', 'vcg_norm:' + type(ex).__name__)
    try:
        th = theory.check_proof(pt.export())
    except Exception as ex:
        return ('rejected', 'kernel:' + type(ex).__name__)
    if len(th.hyps) != 0:
        return ('rejected', 'has-hypotheses')
    As, concl = strip_implies_sh(S.tm_shadow(th.prop))
    return ('ok', As, concl, S.tm_shadow(goal))


HOLZ3_CACHE = {}


def hol_judge(As):
    for i, a in enumerate(As):
        if a not in HOLZ3_CACHE:
            HOLZ3_CACHE[a] = L.hol_vc_valid(a)
        v, info = HOLZ3_CACHE[a]
        if v == 'invalid':
            return ('refuted', i, info)
        if v != 'valid':
            return ('unknown', info)
    return ('valid',)


def hol_unsound(names, c, P, Q):
    r = hol_vcg_run(names, c, P, Q)
    if r[0] != 'ok' or r[2] != r[3]:
        return None
    if hol_judge(r[1])[0] != 'valid':
        return None
    s0, fin, _ = violating_run(c, P, Q, names, 'nat')
    if s0 is None:
        return None
    return {'state': s0, 'final': fin}


def hol_vcg_case(ctx, names, c, P, Q, tag, replaying=False):
    r = hol_vcg_run(names, c, P, Q)
    if r[0] != 'ok':
        ctx.count('hol_vcg_rejected')
        ctx.count('hol_vcg_rejected:' + r[1])
        return
    ctx.count('hol_vcg_accepted')
    As, concl, goal_sh = r[1:]
    ctx.count('hol_vcg_vcs_generated', len(As))
    w = {'kind': 'hol-vcg', 'names': list(names), 'com': c, 'pre': P, 'post': Q, 'tag': tag}
    if concl != goal_sh:
        ctx.violation('hol-vcg:proves-another-triple', 'vcg_norm on Valid {%s} %s {%s} concludes %s' % (
            L.show(P), L.show_com(c), L.show(Q), S.tm_str(concl)), w)
        return
    verdict = hol_judge(As)
    if verdict[0] == 'unknown':
        ctx.count('hol_vcg_inconclusive_z3_unknown')
        ctx.count('hol_vcg_unknown:' + str(verdict[1])[:40])
        return
    if verdict[0] == 'refuted':
        ctx.count('hol_vcg_not_all_vcs_valid')
        if tag.startswith('hostile'):
            ctx.count('hol_vcg_hostile_specs_refuted')
        return
    ctx.count('hol_vcg_programs_all_vcs_valid')
    for k in L.com_kinds(c):
        ctx.count('hol_vcg_allvalid_with:' + k)
    s0, fin, nruns = violating_run(c, P, Q, names, 'nat')
    ctx.count('hol_vcg_runs_checked', nruns)
    if s0 is not None:
        small, w2 = shrink(c, lambda cc: hol_unsound(names, cc, P, Q), budget=20)
        ctx.violation('hol-vcg-unsound:' + kinds_key(small),
                      'vcg_norm proves VC1 --> .. --> Valid {%s} %s {%s}; all %d VCs %s are valid (Z3) but the run from %s ends in %s' % (
                          L.show(P), L.show_com(c), L.show(Q), len(As), [S.tm_str(a) for a in As], s0, fin),
                      dict(w, state=s0, final=fin, shrunk=small))


def nonlinear(e):
    if e[0] == 'op' and len(e) == 4 and e[1] == '*' and L.expr_vars(e[2]) and L.expr_vars(e[3]):
        return True
    return any(nonlinear(a) for a in e[1:] if isinstance(a, tuple))


def com_nonlinear(c):
    if c[0] == 'asg':
        return nonlinear(c[2])
    return any(com_nonlinear(x) if x[0] in ('skip', 'asg', 'seq', 'if', 'while') else nonlinear(x)
               for x in c[1:] if isinstance(x, tuple))


def hol_vcg_solve_case(ctx, names, c, P, Q, tag):
    """the user-facing path of imperative/parser.py: vcg_solve discharges the VCs with the repo's own z3 macro and
    yields  |- Valid P c Q  without hypotheses.  Such a theorem is refuted by one terminating run."""
    from kernel import theory
    if com_nonlinear(c) or nonlinear(P) or nonlinear(Q):
        ctx.count('hol_vcg_solve_skipped_nonlinear')      # the repo's z3 call has no resource limit
        return
    H = Hol(names)
    goal = H.imp.Valid(H.T)(H.lam(H.cond(P)), H.com(c), H.lam(H.cond(Q)))
    Mon.calls['call:imp.vcg_solve'] += 1
    try:
        th = theory.check_proof(H.imp.vcg_solve(goal).export())
    except Exception as ex:
        ctx.count('hol_vcg_solve_rejected')
        return
    if len(th.hyps) != 0 or S.tm_shadow(th.prop) != S.tm_shadow(goal):
        ctx.count('hol_vcg_solve_other_statement')
        return
    ctx.count('hol_vcg_solve_proved')
    s0, fin, nruns = violating_run(c, P, Q, names, 'nat')
    ctx.count('hol_vcg_solve_runs_checked', nruns)
    if s0 is not None:
        r = hol_vcg_run(names, c, P, Q)
        sub = 'unclassified'
        if r[0] == 'ok':
            v = hol_judge(r[1])
            sub = {'refuted': 'z3-macro-discharged-an-invalid-vc', 'valid': 'all-vcs-valid', 'unknown': 'unclassified'}[v[0]]
        ctx.violation('hol-vcg-solve:proved-triple-refuted-by-execution:' + sub,
                      'vcg_solve + check_proof give |- Valid {%s} %s {%s} but the run from %s ends in %s' % (
                          L.show(P), L.show_com(c), L.show(Q), s0, fin),
                      {'kind': 'hol-vcg-solve', 'names': list(names), 'com': c, 'pre': P, 'post': Q, 'tag': tag,
                       'state': s0, 'final': fin})


# =========================================================================== shard driver
def gen_py_program(rng):
    gen = L.Gen(rng, 'int')
    depth = rng.choice([1, 2, 2, 3, 3, 3, 4, 4])
    c = gen.com(depth)
    return gen, c


def gen_hol_program(rng, simple_tests, want_loop=False):
    gen = L.Gen(rng, 'nat')
    depth = rng.choice([1, 2, 2, 3, 3])
    if want_loop:
        c = gen.loop(rng.choice([2, 3]), simple_tests, [0])
        if rng.random() < 0.5:
            c = ('seq', gen.assign(1), c)
    else:
        c = gen.com(depth, simple_tests=simple_tests, loops_left=[1])
    return gen, c


def run_shard(ctx, spec):
    from logic import basic
    basic.load_theory('hoare')
    install_monitors()
    if 'replay' in spec:
        replay(ctx, spec['replay'])
        flush_calls(ctx)
        return
    rng = ctx.rng
    i = spec['i']

    if i == 0:
        for j, (names, c, P, Q) in enumerate(seed_cases()):
            rec = py_case(ctx, names, c, P, Q, 'seed')
            ctx.count('py_seed_cases')
            ctx.case(('py-seed', j), nontrivial=rec['status'] == 'ok',
                     sample={'pre': L.show(P), 'com': L.show_com(c), 'post': L.show(Q), 'tag': 'seed',
                             'vcs': rec.get('vc_strs'), 'verdict': str(rec.get('verdict', ''))[:80]} if j in (2, 6) else None)
        flush_calls(ctx)
    for j, (names, c, P, Q) in enumerate(const_flow_cases(rng, 12 if ctx.tier == 'quick' else 120)):
        rec = py_case(ctx, names, c, P, Q, 'const-flow')
        ctx.count('py_const_flow_cases')
        ctx.case(('py-const-flow', L.show_com(c), L.show(Q)), nontrivial=rec['status'] == 'ok')
    flush_calls(ctx)

    # ---- stand-alone conditions: real printer -> real parser
    for k in range(spec['conds']):
        gen = L.Gen(rng, 'int')
        e = gen.cond(rng.choice([1, 2, 2, 3]), rng.choice([0, 1, 1, 2]))
        if rng.random() < 0.15:
            e = rng.choice([('op', '&', e, gen.test()), ('op', '&', e, ('op', '~', gen.test())),
                            ('op', '-->', e, gen.cond(1, 1))])
        try:
            printed = str(L.to_repo_expr(e))
        except Exception:
            ctx.count('pp_print_rejected')
            continue
        r = check_print_parse(ctx, e, printed, 'condition')
        ctx.case(('cond', e), nontrivial=r is not None, sample={'cond': L.show(e), 'printed': printed} if k < 1 and i < 2 else None)

    # ---- python-level annotated programs
    for k in range(spec['py']):
        gen, c = gen_py_program(rng)
        sp = pick_spec(rng, gen, c, 'int')
        if sp is None:
            ctx.count('py_spec_no_terminating_run')
            ctx.case(('py-none', c), nontrivial=False)
            continue
        P, c2, Q, tag = sp
        ctx.count('py_spec:' + ':'.join(tag.split(':')[:2]))
        rec = py_case(ctx, gen.names, c2, P, Q, tag)
        ok = rec['status'] == 'ok'
        ctx.case(('py', c2, P, Q), nontrivial=ok,
                 sample={'pre': L.show(P), 'com': L.show_com(c2), 'post': L.show(Q), 'tag': tag,
                         'vcs': rec.get('vc_strs'), 'verdict': str(rec.get('verdict', ''))[:80]} if k < 1 and i < 3 else None)
        flush_calls(ctx)

    # ---- HOL level: eval_Sem
    for k in range(spec['hol']):
        # tests restricted to what its condition evaluator decides (equalities of variables / numerals)
        gen, c = gen_hol_program(rng, simple_tests=rng.random() < 0.85)
        H = Hol(gen.names)
        cube_states = list(L.cube(gen.names, NAT_LO, NAT_HI))
        try:
            selfcheck_program(H, c, rng.sample(cube_states, min(4, len(cube_states))))
        except L.Unsupported:
            ctx.count('hol_program_not_buildable')
            continue
        for st in rng.sample(cube_states, min(2, len(cube_states))):
            hol_evalsem_case(ctx, gen.names, c, st)
            ctx.case(('hol-eval', c, tuple(sorted(st.items()))), nontrivial=True)
        flush_calls(ctx)

    # ---- HOL level: vcg_norm / vcg_solve
    for k in range(spec['holvcg']):
        gen2, cc = gen_hol_program(rng, simple_tests=False, want_loop=rng.random() < 0.5)
        sp = pick_spec(rng, gen2, cc, 'nat')
        if sp is None:
            ctx.count('hol_spec_no_terminating_run')
            continue
        P, c2, Q, tag = sp
        H2 = Hol(gen2.names)
        st4 = rng.sample(list(L.cube(gen2.names, NAT_LO, NAT_HI)), 3)
        try:
            selfcheck_program(H2, c2, st4)
            H2.selfcheck(P, True, st4)
            H2.selfcheck(Q, True, st4)
        except L.Unsupported:
            ctx.count('hol_program_not_buildable')
            continue
        ctx.count('hol_spec:' + ':'.join(tag.split(':')[:2]))
        hol_vcg_case(ctx, gen2.names, c2, P, Q, tag)
        hol_vcg_solve_case(ctx, gen2.names, c2, P, Q, tag)
        ctx.case(('hol-vcg', c2, P, Q), nontrivial=True,
                 sample={'pre': L.show(P), 'com': L.show_com(c2), 'post': L.show(Q), 'tag': tag} if k < 1 and i < 2 else None)
        flush_calls(ctx)

    # ---- directed: implication / if-then-else as outermost connective of pre / invariant / post (last, so that the
    #      random stream of the families above is what it always was)
    for shape, names, c, P, Q in connective_spec_cases(rng, spec.get('connspec', 14)):
        rec = py_case(ctx, names, c, P, Q, 'connective-spec')
        ctx.count('py_connective_spec_cases')
        ctx.count('py_connective_spec:' + shape.split('/')[0])
        ctx.count('py_connective_spec_program:' + shape.split('/')[1])
        if rec['status'] == 'ok':
            ctx.count('py_connective_spec_vcs', len(rec['vcs']))
            ctx.count('py_connective_spec_vcs_with_implication_or_ite_hypothesis',
                      sum(1 for vc in rec['vcs'] if vc[0] == 'op' and len(vc) == 4 and vc[1] == '-->' and
                          outer_connective(vc[2]) in ('implication', 'if-then-else')))
            ctx.count('py_connective_spec_verdict:' + rec['verdict'][0])
        ctx.case(('py-connective-spec', c, P, Q), nontrivial=rec['status'] == 'ok')
    flush_calls(ctx)


# hand-written realistic cases (the programs of imperative/tests/com_test.py and imperative/examples/test.json, plus a
# loop whose test is a conjunction) - run first in shard 0
def seed_cases():
    v = lambda n: ('v', n)
    n = lambda k: ('n', k)
    op = lambda o, *a: ('op', o) + a
    return [
        (['a', 'b', 'm', 'n'], ('seq', ('asg', 'm', op('+', v('a'), v('b'))), ('asg', 'n', op('-', v('a'), v('b')))),
         op('<=', n(0), v('b')), op('&', op('<=', v('a'), v('m')), op('<=', v('n'), v('a')))),
        (['a'], ('while', op('<', n(0), v('a')), op('<=', n(0), v('a')), ('asg', 'a', op('-', v('a'), n(1)))),
         op('<=', n(0), v('a')), op('==', v('a'), n(0))),
        (['a', 'b', 'A', 'B'], ('while', op('!=', v('a'), v('A')), op('==', v('b'), op('*', v('a'), v('B'))),
                                ('seq', ('asg', 'b', op('+', v('b'), v('B'))), ('asg', 'a', op('+', v('a'), n(1))))),
         op('&', op('==', v('a'), n(0)), op('==', v('b'), n(0))), op('==', v('b'), op('*', v('A'), v('B')))),
        (['a'], ('if', op('!=', v('a'), n(0)), ('asg', 'a', n(0)), ('skip',)), ('true',), op('==', v('a'), n(0))),
        (['c', 'm', 'n'], ('if', op('<=', v('m'), v('n')), ('asg', 'c', v('n')), ('asg', 'c', v('m'))), ('true',),
         op('==', v('c'), ('fun', 'max', v('m'), v('n')))),
        (['a', 'c'], ('if', op('<=', n(0), v('a')), ('asg', 'c', v('a')), ('asg', 'c', op('-', v('a')))), ('true',),
         op('==', v('c'), ('fun', 'abs', v('a')))),
        # {0 <= a} while (a < 3 & b < 3) [0 <= a] {a := a + 1; b := b + 1} {3 <= a}   -- not a valid triple (a=0, b=5)
        (['a', 'b'], ('while', op('&', op('<', v('a'), n(3)), op('<', v('b'), n(3))), op('<=', n(0), v('a')),
                      ('seq', ('asg', 'a', op('+', v('a'), n(1))), ('asg', 'b', op('+', v('b'), n(1))))),
         op('<=', n(0), v('a')), op('<=', n(3), v('a'))),
    ]


def const_flow_cases(rng, count):
    """constants flow through assignments into arithmetic: x := a; y := x - b (b > a), y := x * k, ... and the
    postcondition uses the result as the LEFT operand of + / - (whatever the VC generator does with constants -
    folding, reordering - the condition it shows must read back as the condition it computed)"""
    v = lambda n: ('v', n)
    n = lambda k: ('n', k)
    op = lambda o, *a: ('op', o) + a
    out = []
    for _ in range(count):
        a, b, k = rng.randrange(0, 6), rng.randrange(1, 9), rng.randrange(2, 5)
        e1 = rng.choice([op('-', v('x'), n(b)), op('-', n(a), v('x')), op('*', v('x'), op('-', n(0), n(k))),
                         op('-', op('-', v('x'), n(b)), n(k)), op('+', op('-', v('x'), n(b)), v('x'))])
        body = ('seq', ('asg', 'x', n(a)), ('asg', 'y', e1))
        if rng.random() < 0.3:
            body = ('seq', body, ('asg', 'w', op(rng.choice(['+', '-']), v('y'), v('z'))))
        left = v('w') if body[2][1] == 'w' else v('y')
        lhs = rng.choice([op('+', left, v('z')), op('-', left, v('z')), op('+', op('+', left, v('z')), n(1)), op('-', left, op('-', v('z'), n(1)))])
        rel = rng.choice(['==', '<=', '<', '!='])
        Q = op(rel, lhs, rng.choice([n(rng.randrange(0, 15)), op('-', n(0), n(rng.randrange(1, 15)))]))
        P = rng.choice([('true',), op('==', v('z'), n(rng.randrange(0, 12))), op('<=', n(0), v('z'))])
        out.append((['w', 'x', 'y', 'z'], body, P, Q))
    return out


def connective_spec_cases(rng, count):
    """Directed family: specifications whose OUTERMOST connective is an implication or an if-then-else (the only VC
    hypotheses / conclusions that are not conjunctions `I & b`, `I & ~b`), as top-level precondition, loop invariant and
    postcondition, with the neighbouring shapes as controls (disjunction / conjunction / negation over an implication).
    Whatever way get_lines renders `hyp --> concl`, the rendered text must read back as the computed condition.
    Half of the cases aim the postcondition at the last consequent of the precondition (program does not touch it), so
    that a reading `p --> (q --> q)` of `(p --> q) --> q` makes every shown VC valid while a real run refutes the triple.
    yields (shape, names, c, P, Q)"""
    v = lambda n: ('v', n)
    n = lambda k: ('n', k)
    op = lambda o, *a: ('op', o) + a
    names = ['w', 'x', 'y']

    def atom():
        a = rng.choice(['x', 'y'])
        k = n(rng.randrange(0, 3))
        x = rng.random()
        if x < 0.2:
            return op(rng.choice(['==', '<=', '<', '!=']), v('x'), v('y'))
        if x < 0.6:
            return op(rng.choice(['==', '<=', '<', '!=']), v(a), k)
        return op(rng.choice(['<=', '<', '==']), k, v(a))

    def shaped(shape):
        """(condition, its last consequent)"""
        p, q, r, b = atom(), atom(), atom(), atom()
        if shape == 'imp':
            return op('-->', p, q), q
        if shape == 'imp-left-nested':
            return op('-->', op('-->', p, q), r), r
        if shape == 'imp-right-nested':
            return op('-->', p, op('-->', q, r)), r
        if shape == 'imp-of-disj':
            return op('-->', op('|', p, q), r), r
        if shape == 'ite':
            return ('ite', b, p, q), q
        if shape == 'ite-else-imp':
            return ('ite', b, p, op('-->', q, r)), r
        if shape == 'ite-else-ite':
            return ('ite', b, p, ('ite', q, r, p)), p
        if shape == 'imp-to-ite':
            return op('-->', p, ('ite', b, q, r)), r
        if shape == 'imp-from-ite':
            return op('-->', ('ite', b, p, q), r), r
        if shape == 'ctl-disj-over-imp':
            return op('|', op('-->', p, q), r), r
        if shape == 'ctl-conj-over-imp':
            return op('&', op('-->', p, q), r), r
        if shape == 'ctl-conj-over-ite':
            return op('&', ('ite', b, p, q), r), r
        if shape == 'ctl-neg-imp':
            return op('~', op('-->', p, q)), q
        raise ValueError(shape)

    shapes = ['imp', 'imp', 'imp-left-nested', 'imp-right-nested', 'imp-of-disj', 'ite', 'ite', 'ite-else-imp', 'ite-else-ite',
              'imp-to-ite', 'imp-from-ite', 'ctl-disj-over-imp', 'ctl-conj-over-imp', 'ctl-conj-over-ite', 'ctl-neg-imp']
    out = []
    for _ in range(count):
        shape = rng.choice(shapes)
        P, last = shaped(shape)
        e = rng.choice([v('x'), v('y'), op('+', v('x'), n(1)), op('-', v('y'), v('x')), n(0)])
        prog = rng.choice(['skip', 'asg', 'asg', 'seq', 'if', 'while', 'seq-while', 'while-seq'])
        I = shaped(rng.choice(shapes))[0] if rng.random() < 0.7 else P
        loop = ('while', op('<', n(0), v('w')), I, ('asg', 'w', op('-', v('w'), n(1))))
        if prog == 'skip':
            c = ('skip',)
        elif prog == 'asg':
            c = ('asg', 'w', e)
        elif prog == 'seq':
            c = ('seq', ('asg', 'w', e), ('asg', 'w', op('+', v('w'), n(1))))
        elif prog == 'if':
            c = ('if', atom(), ('asg', 'w', e), ('skip',))
        elif prog == 'while':
            c = loop
        elif prog == 'seq-while':
            c = ('seq', ('asg', 'w', e), loop)
        else:
            c = ('seq', loop, ('asg', 'w', e))
        x = rng.random()
        if x < 0.5:
            Q = last                                     # untouched by the program: wp(Q) = Q
        elif x < 0.65 and prog in ('asg', 'if'):
            Q = op('==', v('w'), e)
        elif x < 0.85:
            Q = shaped(rng.choice(shapes))[0]
        else:
            Q = atom()
        out.append((shape + '/' + prog, names, c, P, Q))
    return out


def selfcheck_program(H, c, states):
    k = c[0]
    if k == 'asg':
        H.selfcheck(c[2], False, states)
    elif k == 'seq':
        selfcheck_program(H, c[1], states), selfcheck_program(H, c[2], states)
    elif k == 'if':
        H.selfcheck(c[1], True, states)
        selfcheck_program(H, c[2], states), selfcheck_program(H, c[3], states)
    elif k == 'while':
        H.selfcheck(c[1], True, states), H.selfcheck(c[2], True, states)
        selfcheck_program(H, c[3], states)


# =========================================================================== replay
def replay(ctx, rec):
    w = rec['witness']
    kind = w['kind']
    t = L.tup
    if kind == 'pp' and 'case' not in w:
        e = t(w['expr'])
        printed = str(L.to_repo_expr(e))
        check_print_parse(ctx, e, printed, w.get('where', 'condition'))
        ctx.case('replay', sample={'printed': printed})
    elif kind in ('pp', 'py-sound', 'py-shown', 'convert-hol', 'vc-shown'):
        cw = w['case'] if kind == 'pp' else w
        r = py_case(ctx, cw['names'], t(cw['com']), t(cw['pre']), t(cw['post']), cw.get('tag', 'replay'), replaying=True)
        ctx.case('replay', sample={'status': r['status'], 'vcs': r.get('vc_strs')})
    elif kind in ('hol-evalsem', 'hol-evalsem-macro'):
        hol_evalsem_case(ctx, w['names'], t(w['com']), w['state'], replaying=True)
        ctx.case('replay')
    elif kind == 'hol-vcg':
        hol_vcg_case(ctx, w['names'], t(w['com']), t(w['pre']), t(w['post']), w.get('tag', 'replay'), replaying=True)
        ctx.case('replay')
    elif kind == 'hol-vcg-solve':
        hol_vcg_solve_case(ctx, w['names'], t(w['com']), t(w['pre']), t(w['post']), w.get('tag', 'replay'))
        ctx.case('replay')
    else:
        ctx.note('replay: unknown witness kind %r' % kind)


def coverage_extra(counters, tier):
    return {'trusted': 'Z3 unsat = VC valid (own encoding); everything else is evaluation',
            'py_yield_all_vcs_valid': '%d of %d accepted programs' % (counters.get('py_programs_all_vcs_valid', 0),
                                                                       counters.get('py_cases_accepted', 0)),
            'inconclusive': {k: v for k, v in counters.items() if 'inconclusive' in k or 'unknown' in k}}
