"""C03 - term equality is alpha-equivalence; substitution is capture-free.

Postconditions on the real Term/Type operations (==, hash, subst, subst_type(_inplace), subst_bound,
beta_conv, beta_norm, abstract_over/Lambda, incr_boundvars, Type.subst/match, term_ord.fast_compare)
judged by the shadow reference implementation (vf.shadow) and, for denotation, vf.holmodel.
History workload: object churn / id recycling between creation and comparison.
"""
import copy, gc, itertools
from vf import shadow as S, holmodel as H, gen as G

ID = 'C03'
LEVEL = 'exploration'
RULE = ('case = one operation of the real Term/Type API on generated well-typed terms over logic_base (nested binders, '
        'clashing names, shared sub-objects, loose-bound arguments, objects obtained by construction / Term(t) / copy / '
        'parse / substitution) compared with the shadow reference; plus equality queries after GC churn; distinct = hash '
        'of (operation, input shadows); non-trivial = input size >= 3 with a binder or an application')
ASSUMPTIONS = ['reference operations in vf/shadow.py (textbook de Bruijn) are the ground truth for syntax',
               'denotation checked in finite models with type-variable domains <= 2 (3 when small)',
               'id recycling is probabilistic: evidence counter churn_comparisons says how many were tried']
REQUIRED = {'quick': {'op:dest_abs': 3000, 'subst_with_type_instantiation': 1500, 'subobject_hash_checks': 5000, 'eq_checks': 5000, 'hash_checks': 2000, 'op:subst': 500, 'op:subst_type': 500, 'op:subst_bound': 500,
                      'op:beta_norm': 500, 'op:abstract_over': 500, 'op:incr_boundvars': 300, 'sem_checks': 300,
                      'churn_comparisons': 100000, 'order_triples': 1000, 'type_ops': 1000, 'shared_open_object_two_depths': 120, 'shared_object_abstracted_at_two_depths': 300},
            'thorough': {'op:dest_abs': 60000, 'subst_with_type_instantiation': 30000, 'subobject_hash_checks': 100000, 'eq_checks': 100000, 'hash_checks': 40000, 'op:subst': 10000, 'op:subst_type': 10000,
                         'op:subst_bound': 10000, 'op:beta_norm': 10000, 'op:abstract_over': 10000,
                         'op:incr_boundvars': 6000, 'sem_checks': 6000, 'churn_comparisons': 3000000,
                         'order_triples': 20000, 'type_ops': 20000, 'shared_open_object_two_depths': 3000, 'shared_object_abstracted_at_two_depths': 3000}}


def shards(tier, seed):
    n = 14 if tier == 'quick' else 48
    per = 260 if tier == 'quick' else 1800
    out = [{'kind': 'ops', 'i': i, 'rounds': per} for i in range(n)]
    out += [{'kind': 'churn', 'i': i, 'rounds': 6 if tier == 'quick' else 60} for i in range(2 if tier == 'quick' else 8)]
    return out


def mk_gen(rng, evaluable=True):
    return G.TermGen(rng, G.LOGIC_BASE_SIG, G.logic_pool(), p_svar=0.35, p_fresh=0.3, p_redex=0.25, type_clash=False)


def nontrivial(*shs):
    def has(s):
        return s[0] in ('comb', 'abs')
    return any(S.size(s) >= 3 and has(s) for s in shs)


def rename_bound(rng, s):
    k = s[0]
    if k == 'comb':
        return ('comb', rename_bound(rng, s[1]), rename_bound(rng, s[2]))
    if k == 'abs':
        return ('abs', rng.choice(['x', 'y', 'z', 'u', 'k']), s[2], rename_bound(rng, s[3]))
    return s


def mutate(rng, s):
    """a structurally different term (one leaf / annotation changed)"""
    k = s[0]
    if k == 'comb':
        if rng.random() < 0.5:
            return ('comb', mutate(rng, s[1]), s[2])
        return ('comb', s[1], mutate(rng, s[2]))
    if k == 'abs':
        if rng.random() < 0.3:
            T2 = S.fun(s[2], s[2]) if rng.random() < 0.5 else (('tv', 'zz') if s[2] != ('tv', 'zz') else S.BOOL)
            return ('abs', s[1], T2, s[3])
        return ('abs', s[1], s[2], mutate(rng, s[3]))
    if k == 'bound':
        return ('bound', s[1] + 1)
    r = rng.random()
    if r < 0.3:
        return ({'var': 'svar', 'svar': 'var', 'const': 'var'}[k], s[1], s[2])
    if r < 0.6:
        return (k, s[1] + "'", s[2])
    T = s[2]
    T2 = ('stv', T[1]) if T[0] == 'tv' else (('tv', T[1]) if T[0] == 'stv' else S.fun(T, T))
    return (k, s[1], T2)


def build(rng, s, route=None):
    """repo object for shadow s via a random route"""
    from kernel.term import Term
    route = route or rng.choice(['ctor', 'ctor', 'shared', 'Term', 'copy', 'subst0'])
    if route == 'shared':
        return S.to_repo_term(s, share={}), route
    t = S.to_repo_term(s)
    if route == 'Term':
        return Term(t), route
    if route == 'copy':
        return copy.copy(t), route
    if route == 'subst0':
        try:
            return t.subst(), route
        except Exception:
            return t, 'ctor'
    return t, route


def check_eq(ctx, t1, s1, t2, s2, how):
    want = S.aeq(s1, s2)
    for a, b, sa, sb in ((t1, t2, s1, s2), (t2, t1, s2, s1)):
        try:
            got = (a == b)
        except Exception as e:
            ctx.count('eq_raised:' + type(e).__name__)
            return
        ctx.count('eq_checks')
        if bool(got) != want:
            mech = 'eq:reports-equal-for-different-terms' if got else 'eq:reports-different-for-alpha-equal-terms'
            ctx.violation(mech + ':' + how, '%s == %s returned %s' % (S.tm_str(sa, True), S.tm_str(sb, True), got),
                          {'op': 'eq', 'a': S.jsonable(sa), 'b': S.jsonable(sb), 'how': how})
            return
    if want:
        try:
            h1, h2 = hash(t1), hash(t2)
        except Exception as e:
            ctx.count('hash_raised:' + type(e).__name__)
            return
        ctx.count('hash_checks')
        if h1 != h2:
            ctx.violation('hash:equal-terms-different-hash:' + how, 'hash differs for equal terms %s' % S.tm_str(s1, True),
                          {'op': 'hash', 'a': S.jsonable(s1), 'b': S.jsonable(s2), 'how': how})


def closed_typed(s):
    try:
        return S.typeof(s)
    except S.ShadowError:
        return None


def sem_equal(ctx, a, b, rng, what, wit):
    """both closed & well-typed: must denote the same value in every finite model / valuation tried"""
    Ta, Tb = closed_typed(a), closed_typed(b)
    if Ta is None or Ta != Tb:
        return
    eq = S.mk_comb(('const', 'equals', S.funs(Ta, Ta, S.BOOL)), a, b)
    st, w = H.refute([], eq, rng, max_size=2, space_cap=512, nsamples=64)
    if st == 'not_refuted':
        ctx.count('sem_checks')
    elif st == 'refuted':
        ctx.count('sem_checks')
        ctx.violation('denotation:' + what, '%s changes the denotation: %s vs %s in %s' % (what, S.tm_str(a), S.tm_str(b), w), wit)
    else:
        ctx.count('sem_' + st)


def compare_result(ctx, op, got_t, want_s, in_T, wit, rng, sem_pair=None):
    """got_t: repo result; want_s: reference shadow (or None when no syntactic reference)"""
    ctx.count('op:' + op)
    gs = S.tm_shadow(got_t)
    if want_s is not None and not S.aeq(gs, want_s):
        ctx.violation('%s:result-differs-from-reference' % op, '%s gave %s, reference %s' % (op, S.tm_str(gs, True), S.tm_str(want_s, True)), wit)
        return gs
    if in_T is not None:
        Tg = closed_typed(gs)
        if Tg is None or Tg != in_T:
            ctx.violation('%s:type-not-preserved' % op, '%s result %s has type %s, expected %s' % (
                op, S.tm_str(gs, True), S.ty_str(Tg) if Tg else 'ILL-TYPED', S.ty_str(in_T)), wit)
            return gs
    if sem_pair is not None:
        sem_equal(ctx, sem_pair[0], sem_pair[1], rng, op, wit)
    return gs


def one_round(ctx, rng):
    from kernel.term import Term, Inst, Lambda, TermException, Var, SVar
    from kernel.type import TyInst
    from kernel import term_ord
    g = mk_gen(rng)
    T = g.rand_type()
    s = g.gen(T, rng.choice([2, 3, 3, 4]))
    nt = nontrivial(s)
    t, route = build(rng, s)
    # ---- A. equality / hash
    for variant, sv in (('same', s), ('renamed', rename_bound(rng, s)), ('mutated', mutate(rng, s))):
        t2, r2 = build(rng, sv)
        check_eq(ctx, t, s, t2, sv, '%s/%s-vs-%s' % (variant, route, r2))
    ctx.case(('eq', S.alpha(s)), nontrivial=nt)
    # ---- A2. sub-objects of a term that was hashed as a whole (hashing caches a value in every node it walks:
    #      a node must get the hash it would get when hashed on its own), incl. right-nested conj / disj chains
    def sub_objects(x, acc, limit=10):
        if len(acc) >= limit:
            return
        if x.is_comb():
            for y in (x.arg, x.fun):
                if y.is_comb() or y.is_abs():
                    acc.append(y)
                sub_objects(y, acc, limit)
        elif x.is_abs():
            if x.body.is_comb() or x.body.is_abs():
                acc.append(x.body)
            sub_objects(x.body, acc, limit)
    members = [g.gen(S.BOOL, rng.choice([0, 1, 1, 2])) for _ in range(rng.choice([3, 3, 4, 5]))]
    opn = rng.choice(['conj', 'disj'])
    OP = ('const', opn, S.funs(S.BOOL, S.BOOL, S.BOOL))
    chain = members[-1]
    for m_ in reversed(members[:-1]):
        chain = S.mk_comb(OP, m_, chain)
    for whole_s, tag in ((chain, 'chain'), (s, 'term')):
        whole, r_w = build(rng, whole_s, rng.choice(['ctor', 'shared']))
        order = rng.choice(['parent-first', 'parts-first'])
        subs = []
        sub_objects(whole, subs)
        fresh = [(S.tm_shadow(x), None) for x in subs]
        fresh = [(sh_, S.to_repo_term(sh_)) for sh_, _ in fresh]
        try:
            if order == 'parts-first':
                for _, f_ in fresh:
                    hash(f_)
            hash(whole)
        except Exception as e:
            ctx.count('hash_raised:' + type(e).__name__)
            continue
        for x, (sh_, f_) in zip(subs, fresh):
            ctx.count('subobject_hash_checks')
            check_eq(ctx, x, sh_, f_, sh_, 'sub-object-of-hashed-%s/%s' % (tag, order))
    # ---- B1. subst_type
    tvs = [v for v in S.term_type_vars(s) if v[0] == 'stv']
    ti = {v[1]: g.rand_type() for v in tvs if rng.random() < 0.8}
    if rng.random() < 0.3:
        ti['unused'] = S.BOOL
    tyinst = TyInst()
    for k, v in ti.items():
        tyinst[k] = S.to_repo_type(v)
    wit = {'op': 'subst_type', 't': S.jsonable(s), 'tyinst': {k: S.jsonable(v) for k, v in ti.items()}, 'route': route}
    try:
        r = t.subst_type(tyinst)
        want = S.tm_ty_subst(s, ti)
        compare_result(ctx, 'subst_type', r, want, closed_typed(want), wit, rng)
    except Exception as e:
        ctx.count('op_raised:subst_type:' + type(e).__name__)
    # in-place variant on a fresh (possibly shared) object
    t_in, r_in = build(rng, s, rng.choice(['ctor', 'shared']))
    try:
        hash(t_in)
        t_in.subst_type_inplace(tyinst)
        want = S.tm_ty_subst(s, ti)
        wit2 = dict(wit, op='subst_type_inplace', route=r_in)
        gs = compare_result(ctx, 'subst_type_inplace', t_in, want, closed_typed(want), wit2, rng)
        fresh = S.to_repo_term(gs)
        check_eq(ctx, t_in, gs, fresh, gs, 'after-inplace/' + r_in)
    except Exception as e:
        ctx.count('op_raised:subst_type_inplace:' + type(e).__name__)
    # ---- B2. subst (closed values of the right type)
    ats = S.atoms(s)
    sv_inst, v_inst = {}, {}
    g2 = mk_gen(rng)
    g2.ctx = list(ats)
    for a in ats:
        if a[0] == 'svar' and rng.random() < 0.7:
            sv_inst[a[1]] = g2.gen(a[2], rng.choice([0, 1, 2]))
        elif a[0] == 'var' and rng.random() < 0.3:
            v_inst[a[1]] = g2.gen(a[2], rng.choice([0, 1, 2]))
    inst = Inst()
    for k, v in sv_inst.items():
        inst[k] = S.to_repo_term(v)
    for k, v in v_inst.items():
        inst.var_inst[k] = S.to_repo_term(v)
    if rng.random() < 0.2:
        inst.abs_name_inst['x'] = 'y'
    wit = {'op': 'subst', 't': S.jsonable(s), 'inst': {k: S.jsonable(v) for k, v in sv_inst.items()},
           'var_inst': {k: S.jsonable(v) for k, v in v_inst.items()}, 'route': route}
    try:
        r = t.subst(inst)
        want = S.tm_subst(s, sv_inst, v_inst)
        # denotation: (%x1..xn. t) v1..vn  ==  t[v/x]   (closed values, so beta-redex form is the semantic spec)
        lhs = s
        order = [a for a in ats if (a[0] == 'svar' and a[1] in sv_inst) or (a[0] == 'var' and a[1] in v_inst)]
        for a in reversed(order):
            lhs = ('abs', a[1], a[2], S.abstract(lhs, a))
        for a in order:
            lhs = ('comb', lhs, sv_inst[a[1]] if a[0] == 'svar' else v_inst[a[1]])
        compare_result(ctx, 'subst', r, want, T if closed_typed(s) else None, wit, rng,
                       sem_pair=(lhs, S.tm_shadow(r)) if order else None)
    except TermException:
        ctx.count('op_rejected:subst')
    except Exception as e:
        ctx.count('op_raised:subst:' + type(e).__name__)
    ctx.case(('subst', S.alpha(s), repr(sorted(sv_inst.items()))), nontrivial=nt)
    # ---- B2b. subst that has to instantiate TYPE variables: the schematic type variable occurs in the types of
    #      schematic term variables (possibly only there), some of which are instantiated at a concrete type and
    #      some not - the remaining ones must come out at the instantiated type as well
    a_ = ('stv', rng.choice(['a', 'b']))
    T0 = g.rand_type()
    B_ = S.BOOL
    Pv, Qv = ('svar', 'P', S.fun(a_, B_)), ('svar', 'Q', S.fun(a_, B_))
    xv, yv, fv = ('svar', 'x', a_), ('svar', 'y', a_), ('svar', 'f', S.fun(a_, a_))
    forms = [('comb', Pv, xv), ('comb', Pv, ('comb', fv, xv)),
             S.mk_comb(('const', 'conj', S.funs(B_, B_, B_)), ('comb', Pv, xv), ('comb', Qv, yv)),
             S.mk_comb(('const', 'implies', S.funs(B_, B_, B_)), ('comb', Pv, xv), ('comb', Pv, ('comb', fv, yv))),
             S.mk_comb(('const', 'conj', S.funs(B_, B_, B_)), ('comb', Pv, xv), S.mk_comb(('const', 'equals', S.funs(a_, a_, B_)), xv, yv)),
             ('comb', ('var', 'R', S.fun(a_, B_)), xv)]
    s2 = rng.choice(forms)
    theta = {a_[1]: T0}
    cands = [v for v in S.atoms(s2) if v[0] == 'svar']
    chosen = [v for v in cands if rng.random() < 0.5] or [rng.choice(cands)]
    sv2 = {v[1]: g2.gen(S.ty_subst(v[2], theta), rng.choice([0, 1])) for v in chosen}
    inst2 = Inst()
    for k_, v_ in sv2.items():
        inst2[k_] = S.to_repo_term(v_)
    wit2b = {'op': 'subst', 't': S.jsonable(s2), 'inst': {k_: S.jsonable(v_) for k_, v_ in sv2.items()}, 'var_inst': {}, 'route': 'ctor',
             'note': 'type instantiation %s := %s follows from the instances only' % (a_[1], S.ty_str(T0) if hasattr(S, 'ty_str') else T0)}
    try:
        t2b = S.to_repo_term(s2)
        r2 = t2b.subst(inst2)
        want2 = S.tm_subst(S.tm_ty_subst(s2, theta), sv2, {})
        ctx.count('subst_with_type_instantiation')
        compare_result(ctx, 'subst', r2, want2, closed_typed(want2), wit2b, rng)
    except TermException:
        ctx.count('op_rejected:subst')
    except Exception as e:
        ctx.count('op_raised:subst:' + type(e).__name__)
    # ---- B2c. dest_abs: opening an abstraction with the recorded name, with a name chosen by the caller, and with
    #      a name that already occurs free in the body - the variable handed back must not occur in the body, and
    #      abstracting it again must give back the abstraction
    A0 = g.rand_type()
    body0 = g.gen(T, rng.choice([1, 2, 3]), (A0,))
    free0 = [a for a in S.atoms(body0) if a[0] == 'var']
    rec_name = rng.choice([a[1] for a in free0] + ['x', 'y']) if rng.random() < 0.5 else rng.choice(['x', 'y', 'u'])
    lam0 = ('abs', rec_name, A0, body0)
    for ask in (None, rng.choice([a[1] for a in free0]) if free0 and rng.random() < 0.7 else rng.choice(['w', 'x', 'v'])):
        try:
            lt = S.to_repo_term(lam0)
            v_, b_ = lt.dest_abs() if ask is None else lt.dest_abs(ask)
            vs, bs = S.tm_shadow(v_), S.tm_shadow(b_)
        except Exception as e:
            ctx.count('op_raised:dest_abs:' + type(e).__name__)
            continue
        ctx.count('op:dest_abs')
        witd = {'op': 'dest_abs', 'abs': S.jsonable(lam0), 'asked_name': ask}
        if vs[0] != 'var' or vs[2] != A0:
            ctx.violation('dest_abs:returned-variable-has-another-type', 'dest_abs(%r) of %s returned %s' % (ask, S.tm_str(lam0, True), S.tm_str(vs, True)), witd)
        elif any(a[0] == 'var' and a[1] == vs[1] for a in free0):
            ctx.violation('dest_abs:returned-variable-occurs-free-in-the-body',
                          'dest_abs(%r) of %s returned the variable %s, which is free in the body: opening captures it' % (
                              ask, S.tm_str(lam0, True), vs[1]), witd)
        elif not S.aeq(('abs', 'z', A0, S.abstract(bs, vs)), lam0):
            ctx.violation('dest_abs:reabstracting-the-opened-body-gives-another-term',
                          'dest_abs(%r) of %s returned (%s, %s)' % (ask, S.tm_str(lam0, True), S.tm_str(vs), S.tm_str(bs)), witd)
    # ---- B3. subst_bound / beta_conv with possibly open argument, under a closing prefix
    A = g.rand_type()
    depth_prefix = rng.choice([0, 0, 1, 2])
    prefix = tuple(g.rand_type() for _ in range(depth_prefix))
    body = g.gen(T, rng.choice([1, 2, 3]), (A,) + prefix)
    arg = g.gen(A, rng.choice([0, 1, 2]), prefix)
    lam = ('abs', 'x', A, body)
    share = {} if rng.random() < 0.5 else None
    lam_t, arg_t = S.to_repo_term(lam, share), S.to_repo_term(arg, share)
    wit = {'op': 'subst_bound', 'abs': S.jsonable(lam), 'arg': S.jsonable(arg), 'shared': share is not None}
    try:
        r = lam_t.subst_bound(arg_t)
        want = S.inst_bound(body, arg)

        def close(x):
            for Tp in prefix:
                x = ('abs', 'c', Tp, x)
            return x
        gs = S.tm_shadow(r)
        compare_result(ctx, 'subst_bound', r, want, None, wit, rng,
                       sem_pair=(close(('comb', lam, arg)), close(gs)))
        r2 = S.to_repo_term(('comb', lam, arg), share).beta_conv()
        compare_result(ctx, 'beta_conv', r2, want, None, dict(wit, op='beta_conv'), rng)
    except Exception as e:
        ctx.count('op_raised:subst_bound:' + type(e).__name__)
    ctx.case(('subst_bound', S.alpha(lam), S.alpha(arg)), nontrivial=nontrivial(lam, arg))
    # ---- B3b. ONE open sub-object placed at two different binder depths (exercises the (object, depth) memo key)
    try:
        from kernel.term import Abs as RAbs, Comb as RComb
        A2 = g.rand_type()
        open_s = g.gen(S.BOOL, rng.choice([1, 2]), (A,))          # refers to Bound 0 :: A
        if S.occurs_bound(open_s, 0) and open_s[0] in ('comb', 'abs'):
            open_t = S.to_repo_term(open_s, {})
            conn = ('const', rng.choice(['conj', 'disj', 'implies']), S.funs(S.BOOL, S.BOOL, S.BOOL))
            allc = ('const', 'all', S.fun(S.fun(A, S.BOOL), S.BOOL))
            # body = conn open (all (%y::A. open))   - inside the inner binder Bound 0 is y, outside it is x
            inner_s = ('comb', allc, ('abs', 'y', A, open_s))
            order = rng.random() < 0.5
            body_s = S.mk_comb(conn, open_s, inner_s) if order else S.mk_comb(conn, inner_s, open_s)
            inner_t = RComb(S.to_repo_term(allc), RAbs('y', S.to_repo_type(A), open_t))
            body_t = S.to_repo_term(conn)(open_t, inner_t) if order else S.to_repo_term(conn)(inner_t, open_t)
            lam2_s = ('abs', 'x', A, body_s)
            lam2_t = RAbs('x', S.to_repo_type(A), body_t)
            arg2 = g.gen(A, rng.choice([0, 1]))
            r = lam2_t.subst_bound(S.to_repo_term(arg2))
            compare_result(ctx, 'subst_bound', r, S.inst_bound(body_s, arg2), S.BOOL if closed_typed(arg2) else None,
                           {'op': 'subst_bound', 'abs': S.jsonable(lam2_s), 'arg': S.jsonable(arg2), 'shared': 'open-object-at-two-depths',
                            'order': order}, rng)
            ctx.count('shared_open_object_two_depths')
            r3 = RComb(lam2_t, S.to_repo_term(arg2)).beta_norm()
            compare_result(ctx, 'beta_norm', r3, S.beta_norm(('comb', lam2_s, arg2)), None,
                           {'op': 'beta_norm-shared', 'abs': S.jsonable(lam2_s), 'arg': S.jsonable(arg2)}, rng)
    except S.ShadowError:
        pass
    except Exception as e:
        ctx.count('op_raised:subst_bound_shared:' + type(e).__name__)
    # ---- B4. beta_norm (redex-rich term)
    gb = mk_gen(rng)
    gb.p_redex = 0.5
    sb = gb.gen(gb.rand_type(), rng.choice([2, 3, 4]))
    tb, rb = build(rng, sb, rng.choice(['ctor', 'shared']))
    wit = {'op': 'beta_norm', 't': S.jsonable(sb), 'route': rb}
    try:
        r = tb.beta_norm()
        want = S.beta_norm(sb)
        compare_result(ctx, 'beta_norm', r, want, closed_typed(sb), wit, rng, sem_pair=(sb, S.tm_shadow(r)))
    except S.ShadowError:
        ctx.count('ref_fuel')
    except Exception as e:
        ctx.count('op_raised:beta_norm:' + type(e).__name__)
    ctx.case(('beta_norm', S.alpha(sb)), nontrivial=nontrivial(sb))
    # ---- B5. abstract_over / Lambda
    if ats:
        v = rng.choice(ats)
        vt = S.to_repo_term(v)
        wit = {'op': 'abstract_over', 't': S.jsonable(s), 'v': S.jsonable(v), 'route': route}
        try:
            r = t.abstract_over(vt)
            want = S.abstract(s, v)
            compare_result(ctx, 'abstract_over', r, want, None, wit, rng)
            r2 = Lambda(vt, t)
            want2 = ('abs', v[1], v[2], want)
            # (Lambda v t) v == t
            compare_result(ctx, 'Lambda', r2, want2, S.fun(v[2], T) if closed_typed(s) else None, dict(wit, op='Lambda'), rng,
                           sem_pair=(('comb', S.tm_shadow(r2), v), s))
        except TermException:
            ctx.count('op_rejected:abstract_over')
        except Exception as e:
            ctx.count('op_raised:abstract_over:' + type(e).__name__)
    # ---- B5b. the abstracted variable inside ONE object that occurs at two binder depths
    try:
        from kernel.term import Abs as RAbs, Comb as RComb
        vT = g.rand_type()
        v = ('var', 'vshared', vT)
        g3 = mk_gen(rng)
        g3.ctx = [v]
        g3.p_fresh = 0.05
        sub_s = g3.gen(S.BOOL, rng.choice([1, 2]))
        if v in S.atoms(sub_s) and sub_s[0] == 'comb':
            sub_t = S.to_repo_term(sub_s, {})
            A3 = g.rand_type()
            conn = ('const', rng.choice(['conj', 'disj', 'implies']), S.funs(S.BOOL, S.BOOL, S.BOOL))
            allc = ('const', 'all', S.fun(S.fun(A3, S.BOOL), S.BOOL))
            inner_s = ('comb', allc, ('abs', 'y', A3, sub_s))
            order = rng.random() < 0.5
            whole_s = S.mk_comb(conn, sub_s, inner_s) if order else S.mk_comb(conn, inner_s, sub_s)
            inner_t = RComb(S.to_repo_term(allc), RAbs('y', S.to_repo_type(A3), sub_t))
            whole_t = S.to_repo_term(conn)(sub_t, inner_t) if order else S.to_repo_term(conn)(inner_t, sub_t)
            vt = S.to_repo_term(v)
            r = whole_t.abstract_over(vt)
            compare_result(ctx, 'abstract_over', r, S.abstract(whole_s, v), None,
                           {'op': 'abstract_over-shared', 't': S.jsonable(whole_s), 'v': S.jsonable(v), 'order': order}, rng)
            r2 = Lambda(vt, whole_t)
            compare_result(ctx, 'Lambda', r2, ('abs', v[1], v[2], S.abstract(whole_s, v)), S.fun(vT, S.BOOL) if closed_typed(whole_s) else None,
                           {'op': 'Lambda-shared', 't': S.jsonable(whole_s), 'v': S.jsonable(v)}, rng)
            ctx.count('shared_object_abstracted_at_two_depths')
    except S.ShadowError:
        pass
    except Exception as e:
        ctx.count('op_raised:abstract_over_shared:' + type(e).__name__)
    # ---- B6. incr_boundvars on an open term
    so = g.gen(T, 2, (A, A))
    inc = rng.choice([1, 2, 3])
    try:
        r = S.to_repo_term(so, {} if rng.random() < 0.5 else None).incr_boundvars(inc)
        compare_result(ctx, 'incr_boundvars', r, S.shift(so, inc), None, {'op': 'incr_boundvars', 't': S.jsonable(so), 'inc': inc}, rng)
    except Exception as e:
        ctx.count('op_raised:incr_boundvars:' + type(e).__name__)
    # ---- C. types
    Ts = [g.rand_type() for _ in range(3)]
    Ts.append(S.fun(Ts[0], Ts[1]))
    for Ta, Tb in itertools.product(Ts, repeat=2):
        ra, rb_ = S.to_repo_type(Ta), S.to_repo_type(Tb)
        ctx.count('type_ops')
        if (ra == rb_) != (Ta == Tb):
            ctx.violation('type-eq:wrong', 'Type == wrong on %s vs %s' % (S.ty_str(Ta), S.ty_str(Tb)), {'op': 'type_eq', 'a': S.jsonable(Ta), 'b': S.jsonable(Tb)})
        if Ta == Tb and hash(ra) != hash(rb_):
            ctx.violation('type-hash:differs', 'hash differs on equal types %s' % S.ty_str(Ta), {'op': 'type_hash', 'a': S.jsonable(Ta)})
        c1, c2 = term_ord.fast_compare_typ(ra, rb_), term_ord.fast_compare_typ(rb_, ra)
        if (c1 == 0) != (Ta == Tb) or (c1 > 0) != (c2 < 0) or (c1 < 0) != (c2 > 0):
            ctx.violation('type-order:not-compatible', 'fast_compare_typ inconsistent on %s, %s' % (S.ty_str(Ta), S.ty_str(Tb)), {'op': 'type_ord', 'a': S.jsonable(Ta), 'b': S.jsonable(Tb)})
    pat = rng.choice(Ts)
    ti2 = {v[1]: g.rand_type() for v in S.type_vars(pat) if v[0] == 'stv'}
    tgt = S.ty_subst(pat, ti2)
    tyi = TyInst()
    for k, v in ti2.items():
        tyi[k] = S.to_repo_type(v)
    if S.ty_shadow(S.to_repo_type(pat).subst(tyi)) != tgt:
        ctx.violation('type-subst:wrong', 'Type.subst wrong on %s' % S.ty_str(pat), {'op': 'type_subst', 'a': S.jsonable(pat)})
    try:
        m = S.to_repo_type(pat).match(S.to_repo_type(tgt))
        back = S.ty_shadow(S.to_repo_type(pat).subst(m))
        if back != tgt:
            ctx.violation('type-match:instance-differs', 'match result does not instantiate %s to %s' % (S.ty_str(pat), S.ty_str(tgt)), {'op': 'type_match', 'a': S.jsonable(pat), 'b': S.jsonable(tgt)})
    except Exception as e:
        ctx.violation('type-match:fails-on-instance', 'match of %s against its instance %s raised %s' % (S.ty_str(pat), S.ty_str(tgt), type(e).__name__), {'op': 'type_match', 'a': S.jsonable(pat), 'b': S.jsonable(tgt)})
    other = rng.choice(Ts)
    try:
        m = S.to_repo_type(pat).match(S.to_repo_type(other))
        if S.ty_shadow(S.to_repo_type(pat).subst(m)) != other:
            ctx.violation('type-match:instance-differs', 'match of %s against %s succeeded with a wrong instantiation' % (S.ty_str(pat), S.ty_str(other)), {'op': 'type_match', 'a': S.jsonable(pat), 'b': S.jsonable(other)})
    except Exception:
        pass
    # ---- D. term order laws on a small family
    fam = [s, rename_bound(rng, s), mutate(rng, s), mutate(rng, s), sb]
    objs = [S.to_repo_term(x) for x in fam]
    for i, j, k in itertools.product(range(len(fam)), repeat=3):
        if rng.random() < 0.3:
            ctx.count('order_triples')
            try:
                cij, cji = term_ord.fast_compare(objs[i], objs[j]), term_ord.fast_compare(objs[j], objs[i])
                cjk, cik = term_ord.fast_compare(objs[j], objs[k]), term_ord.fast_compare(objs[i], objs[k])
            except Exception as e:
                ctx.count('order_raised:' + type(e).__name__)
                continue
            bad = None
            if (cij == 0) != S.aeq(fam[i], fam[j]):
                bad = 'zero-iff-equal'
            elif (cij > 0) != (cji < 0) or (cij < 0) != (cji > 0):
                bad = 'antisymmetry'
            elif cij <= 0 and cjk <= 0 and cik > 0:
                bad = 'transitivity'
            if bad:
                ctx.violation('term-order:' + bad, 'fast_compare violates %s on %s / %s / %s' % (
                    bad, S.tm_str(fam[i], True), S.tm_str(fam[j], True), S.tm_str(fam[k], True)),
                    {'op': 'order', 'terms': [S.jsonable(fam[x]) for x in (i, j, k)]})


def churn(ctx, rng):
    """W-HIST: wrappers created from temporaries, then mass allocation and comparison."""
    from kernel.term import Term, Var, Comb, Const
    from kernel.type import TVar
    g = mk_gen(rng)
    keep = []
    for _ in range(150):
        s = g.gen(g.rand_type(), rng.choice([1, 2, 3]))
        r = rng.random()
        if r < 0.5:
            w = Term(S.to_repo_term(s))           # source object dies right here
        elif r < 0.8:
            w = copy.copy(S.to_repo_term(s))
        else:
            w = S.to_repo_term(s).subst()
        keep.append((w, s))
    gc.collect()
    Tz = TVar('churn')
    sz = ('var', 'fresh_churn', ('tv', 'churn'))
    n = 0
    for round_ in range(40):
        fresh = [Var('fresh_churn', Tz) for _ in range(120)]
        for f in fresh:
            for w, s in keep:
                n += 1
                try:
                    if w == f or f == w:
                        ctx.violation('eq:stale-identity-token', 'a fresh variable compared equal to the unrelated older term %s' % S.tm_str(s, True),
                                      {'op': 'churn', 'old': S.jsonable(s), 'fresh': S.jsonable(sz)})
                        ctx.count('churn_comparisons', n)
                        return
                except Exception as e:
                    ctx.count('eq_raised:' + type(e).__name__)
        del fresh
    ctx.count('churn_comparisons', n)
    ctx.case(('churn', ctx.spec.get('i'), rng.random()), nontrivial=True)


def run_shard(ctx, spec):
    from logic import basic
    basic.load_theory('logic_base')
    if 'replay' in spec:
        return replay(ctx, spec['replay']['witness'])
    if spec['kind'] == 'ops':
        for _ in range(spec['rounds']):
            one_round(ctx, ctx.rng)
    else:
        for _ in range(spec['rounds']):
            churn(ctx, ctx.rng)


def replay(ctx, w):
    """re-execute the recorded operation and report what it does now"""
    from kernel.type import TyInst
    from kernel.term import Inst
    op = w.get('op')
    J = S.from_json
    ctx.case('replay', sample=w)
    rng = ctx.rng
    if op in ('eq', 'hash'):
        a, b = J(w['a']), J(w['b'])
        check_eq(ctx, S.to_repo_term(a), a, S.to_repo_term(b), b, 'replay')
    elif op in ('subst_type', 'subst_type_inplace'):
        s = J(w['t'])
        ti = {k: J(v) for k, v in w['tyinst'].items()}
        tyinst = TyInst()
        for k, v in ti.items():
            tyinst[k] = S.to_repo_type(v)
        t = S.to_repo_term(s, {} if w.get('route') == 'shared' else None)
        if op == 'subst_type':
            r = t.subst_type(tyinst)
        else:
            hash(t)
            t.subst_type_inplace(tyinst)
            r = t
        want = S.tm_ty_subst(s, ti)
        compare_result(ctx, op, r, want, closed_typed(want), w, rng)
    elif op == 'subst_bound' or op == 'beta_conv':
        lam, arg = J(w['abs']), J(w['arg'])
        share = {} if w.get('shared') else None
        r = S.to_repo_term(lam, share).subst_bound(S.to_repo_term(arg, share))
        compare_result(ctx, 'subst_bound', r, S.inst_bound(lam[3], arg), None, w, rng)
    elif op == 'beta_norm':
        s = J(w['t'])
        r = S.to_repo_term(s, {} if w.get('route') == 'shared' else None).beta_norm()
        compare_result(ctx, 'beta_norm', r, S.beta_norm(s), closed_typed(s), w, rng, sem_pair=(s, S.tm_shadow(r)))
    elif op == 'churn':
        for _ in range(20):
            churn(ctx, rng)
    else:
        ctx.note('replay of op %s: re-run the shard with the same seed' % op)
