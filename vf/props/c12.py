"""C12 - loading a theory depends only on the library files, not on process history.

Technique: scripted HISTORIES executed in fresh child interpreters (vf/oracle_c12_child.py) against the real
loader (logic.basic.load_theory / load_theory_cache / load_metadata, kernel.theory.fresh_theory and the modules
that load theories while being imported); every observed load ends in a canonical dump of theory.thy.data
(types, constants, theorem statements serialised through vf.shadow, attributes, overloads).

Oracles
  O1 differential : dump / outcome of load L after history H  ==  dump / outcome of a fresh process doing only L
  O2 expectation  : names of theorems / constants / types / overloads and attributes computed from the JSON files
                    alone (plain json, transitive imports + own items before the limit)
  O3 error cases  : missing limit, wrong-kind limit, limit of an imported theory, unknown theory, import cycles,
                    corrupt files must raise on every attempt; a failed load must not leave a partial current theory
  O4 re-read      : after a file is rewritten (content + mtime) the next load equals a fresh process on the new files
Synthetic libraries (cycles, edits, corrupt files, a user directory) live in temporary trees that logic.basic.dirname
is pointed at; nothing under the repo is written.
"""
import os, sys, json, subprocess, tempfile, shutil, re, itertools, threading
from concurrent.futures import ThreadPoolExecutor
from vf import core

ID = 'C12'
LEVEL = 'exploration'
RULE = ('case = one (history prefix, observed load) pair: a scripted history of <= 4 steps over {load(T[,limit]) of '
        'other theories, import of a module that loads theories while importing, failing load (missing / wrong-kind / '
        'foreign limit, unknown theory), load interrupted at the N-th item (exception injected at server.items.parse_item), '
        'load inside theory.fresh_theory(), load_metadata() again, looking at theorems, mtime poke / rewrite / delete / '
        'corruption of a file of a temporary library} executed in a FRESH python process, followed by load_theory(T, limit) '
        'whose canonical dump is compared with a fresh process doing only that load and with the expectation computed from '
        'the JSON files; distinct = hash of (library variant, steps, observed load); non-trivial = history has >= 1 step '
        'before the observed load')
ASSUMPTIONS = ['a load whose file content changed but whose mtime is bit-identical is not required to be re-read',
               'theorem names generated for definitions of overloaded constants are matched by suffix (type prefix not recomputed)',
               'the interruption of a load is injected by replacing the module attribute server.items.parse_item with a wrapper '
               'that raises KeyboardInterrupt / MemoryError at the N-th call (deterministic stand-in for Ctrl-C / resource errors)',
               'children run with cwd = repo, PYTHONPATH = repo:harness, a PYTHONHASHSEED drawn per child']
REQUIRED = {'quick': {'children_run': 40, 'children_completed': 40, 'compared_with_fresh': 30, 'expectation_checks': 40,
                      'error_cases_checked': 10, 'file_change_cases': 6, 'cycle_cases': 4, 'interrupt_fired': 3,
                      'compared_real_class': 4, 'import_steps_ok': 4},
            'thorough': {'children_run': 400, 'children_completed': 400, 'compared_with_fresh': 1000, 'expectation_checks': 1000,
                         'error_cases_checked': 150, 'file_change_cases': 40, 'cycle_cases': 4, 'interrupt_fired': 40,
                         'compared_real_class': 300, 'import_steps_ok': 100, 'final_targets': 43}}
SHARD_TIMEOUT = {'quick': 900, 'thorough': 7200}

CHILD_TIMEOUT = {'quick': 420, 'thorough': 900}
HEAVY_IMPORTS = ['data.real', 'data.integer', 'prover.omega', 'prover.simplex', 'prover.proofrec', 'integral.inequality']
LIGHT_IMPORTS = ['imperative.imp', 'data.expr', 'data.proplogic', 'prover.auto.auto']
CLASS_PRIORITY = ['interrupted-load', 'corrupt-file', 'file-write', 'file-delete', 'mtime-poke', 'metadata-reload',
                  'failing-load', 'import', 'load-in-fresh-theory-context', 'load-other-user', 'load', 'use-of-theorems']


# ====================================================================== independent reading of the library (plain json)
class Lib:
    """files: {theory name: text}.  Only json.loads - no repo code."""

    def __init__(self, texts):
        self.texts = dict(texts)
        self.data = {}
        self.bad = set()
        for n, t in self.texts.items():
            try:
                d = json.loads(t)
                assert isinstance(d['imports'], list) and isinstance(d['content'], list) and 'description' in d
                for it in d['content']:
                    assert it['ty'] in ('thm', 'thm.ax', 'def', 'def.ax', 'def.ind', 'def.pred', 'type.ax', 'type.ind', 'header')
                self.data[n] = d
            except Exception:
                self.bad.add(n)

    @staticmethod
    def from_dir(d):
        texts = {}
        for f in sorted(os.listdir(d)):
            if f.endswith('.json'):
                with open(os.path.join(d, f), encoding='utf-8') as fh:
                    texts[f[:-5]] = fh.read()
        return Lib(texts)

    def has_cycle(self):
        state = {}

        def dfs(n):
            if state.get(n) == 1:
                return True
            if state.get(n) == 2 or n not in self.data:
                return False
            state[n] = 1
            for m in self.data[n]['imports']:
                if dfs(m):
                    return True
            state[n] = 2
            return False
        return any(dfs(n) for n in sorted(self.data))

    def closure(self, name):
        """imports of `name`, dependencies first; None when something is missing / cyclic / unreadable"""
        order, onpath = [], set()

        def dfs(n):
            if n in order:
                return True
            if n in onpath or n not in self.data:
                return False
            onpath.add(n)
            for m in self.data[n]['imports']:
                if not dfs(m):
                    return False
            onpath.discard(n)
            order.append(n)
            return True
        if name not in self.data or not dfs(name):
            return None
        return order[:-1]

    def loadable(self):
        """the loader reads the metadata of EVERY file first: one unreadable file or one cycle anywhere fails all loads"""
        return not self.bad and not self.has_cycle()

    def own_items(self, name, limit):
        own = self.data[name]['content']
        if limit is None:
            return own
        if limit == 'start':
            return []
        for i, it in enumerate(own):
            if it['ty'] == limit[0] and it.get('name') == limit[1]:
                return own[:i]
        return None

    def expect(self, name, limit):
        """None = the load must raise; else the expected name-level content"""
        if not self.loadable():
            return None
        clo = self.closure(name)
        if clo is None:
            return None
        own = self.own_items(name, limit)
        if own is None:
            return None
        items = []
        for t in clo:
            items.extend(self.data[t]['content'])
        items.extend(own)
        return build_exp(items)

    def n_items_closure(self, name):
        clo = self.closure(name) or []
        return sum(len(self.data[t]['content']) for t in clo) + len(self.data[name]['content'])


def build_exp(items):
    E = {'thms': set(), 'pats': [], 'consts': {'equals', 'implies', 'all'}, 'types': {'bool': 0, 'fun': 2},
         'overload': set(), 'attrs': {}}

    def gen(n, suffix, attrs):
        if n in E['overload']:
            E['pats'].append('_' + n + suffix)
        else:
            E['thms'].add(n + suffix)
            if attrs:
                E['attrs'][n + suffix] = E['attrs'].get(n + suffix, []) + list(attrs)
    for it in items:
        ty = it['ty']
        if ty == 'header':
            continue
        n = it['name']
        if ty in ('thm', 'thm.ax'):
            E['thms'].add(n)
            if it.get('attributes'):
                E['attrs'][n] = E['attrs'].get(n, []) + list(it['attributes'])
        elif ty == 'def.ax':
            E['consts'].add(n)
            if it.get('overloaded'):
                E['overload'].add(n)
        elif ty == 'def':
            E['consts'].add(n)
            gen(n, '_def', it.get('attributes', []))
        elif ty == 'def.ind':
            E['consts'].add(n)
            for i in range(len(it['rules'])):
                gen(n, '_def_%d' % (i + 1), ['hint_rewrite'])
        elif ty == 'def.pred':
            E['consts'].add(n)
            for r in it['rules']:
                E['thms'].add(r['name'])
                E['attrs'][r['name']] = E['attrs'].get(r['name'], []) + ['hint_backward']
            gen(n, '_cases', [])
        elif ty == 'type.ax':
            E['types'][n] = len(it['args'])
        elif ty == 'type.ind':
            E['types'][n] = len(it['args'])
            cs = it['constrs']
            for c in cs:
                E['consts'].add(c['name'])
            for c1, c2 in itertools.combinations(cs, 2):
                E['thms'].add('%s_%s_%s_neq' % (n, c1['name'], c2['name']))
            for c in cs:
                if c['args']:
                    E['thms'].add('%s_%s_inject' % (n, c['name']))
            E['thms'].add(n + '_induct')
            E['attrs'][n + '_induct'] = E['attrs'].get(n + '_induct', []) + ['var_induct']
    return E


def check_expect(dump, E):
    """-> list of (kind, detail) disagreements between a dump and the JSON expectation"""
    out = []
    got = set(dump['thms'])
    miss = sorted(E['thms'] - got)
    if miss:
        out.append(('theorems-missing', miss[:8]))
    rest = got - E['thms']
    for suf in sorted(set(E['pats'])):
        k = E['pats'].count(suf)
        m = sorted(x for x in rest if x.endswith(suf) and len(x) > len(suf))
        if len(m) < k:
            out.append(('theorems-missing', ['*' + suf]))
        rest -= set(m[:max(k, len(m))])
    if rest:
        out.append(('theorems-from-outside-imports-or-at-after-limit', sorted(rest)[:8]))
    gc = set(dump['consts'])
    if gc != E['consts']:
        out.append(('constants-differ', {'missing': sorted(E['consts'] - gc)[:8], 'extra': sorted(gc - E['consts'])[:8]}))
    if dump['types'] != E['types']:
        out.append(('types-differ', {'got': {k: v for k, v in dump['types'].items() if E['types'].get(k) != v},
                                     'want': {k: v for k, v in E['types'].items() if dump['types'].get(k) != v}}))
    if set(dump['overload']) != E['overload']:
        out.append(('overloads-differ', sorted(set(dump['overload']) ^ E['overload'])[:8]))
    bad = [n for n in sorted(E['thms']) if dump['attrs'].get(n, []) != E['attrs'].get(n, []) and n in got]
    if bad:
        out.append(('attributes-differ', [(n, dump['attrs'].get(n, []), E['attrs'].get(n, [])) for n in bad[:5]]))
    if dump.get('other_keys'):
        out.append(('unexpected-theory-data-kinds', dump['other_keys']))
    return out


def diff_dumps(a, b):
    """kinds of difference between two dumps (a = after history, b = fresh)"""
    kinds, detail = [], {}
    ta, tb = a['thms'], b['thms']
    m = sorted(set(tb) - set(ta))
    x = sorted(set(ta) - set(tb))
    s = sorted(n for n in ta if n in tb and ta[n] != tb[n])
    if m:
        kinds.append('theorems-missing')
        detail['missing'] = m[:8]
        detail['n_missing'] = len(m)
    if x:
        kinds.append('theorems-extra')
        detail['extra'] = x[:8]
        detail['n_extra'] = len(x)
    if s:
        kinds.append('statements-differ')
        detail['statements'] = s[:8]
    if a['consts'] != b['consts']:
        kinds.append('constants-differ')
        detail['consts'] = sorted(n for n in set(a['consts']) | set(b['consts']) if a['consts'].get(n) != b['consts'].get(n))[:8]
    if a['types'] != b['types']:
        kinds.append('types-differ')
    if a['attrs'] != b['attrs']:
        kinds.append('attributes-differ')
        detail['attrs'] = sorted(n for n in set(a['attrs']) | set(b['attrs']) if a['attrs'].get(n) != b['attrs'].get(n))[:8]
    if a['overload'] != b['overload']:
        kinds.append('overloads-differ')
    if a['other_keys'] != b['other_keys']:
        kinds.append('data-kinds-differ')
    for key, kind in (('api_thms', 'theorem-handed-out-by-get_theorem-differs'), ('api_consts', 'signature-handed-out-by-get_term_sig-differs')):
        xa, xb = a.get(key) or {}, b.get(key) or {}
        dn = sorted(n for n in xa if n in xb and xa[n] != xb[n])
        # only where the tables themselves agree: otherwise the difference is already reported above
        dn = [n for n in dn if (ta.get(n) == tb.get(n) if key == 'api_thms' else a['consts'].get(n) == b['consts'].get(n))]
        if dn:
            kinds.append(kind)
            detail[key] = dn[:8]
    return kinds, detail


def exc_label(rec):
    e, msg = rec.get('exc') or 'no-exception', rec.get('msg') or ''
    for pat, lab in ((r'already exists', 'already-exists'), (r'Cycle in imports', 'cycle-in-imports'),
                     (r'limit .* not found', 'limit-not-found'), (r"^'master'$", 'master'),
                     (r'recursion', 'recursion'), (r'vf: injected', 'injected')):
        if re.search(pat, msg):
            return '%s-%s' % (e, lab)
    return e


# ====================================================================== trees and children
def repo_lib_dir():
    return os.path.join(core.REPO, 'library')


_repo_texts = {}


def repo_text(name):
    if name not in _repo_texts:
        with open(os.path.join(repo_lib_dir(), name + '.json'), encoding='utf-8') as f:
            _repo_texts[name] = f.read()
    return _repo_texts[name]


def build_tree(ts):
    """ts: {'mode': 'syn', 'link': [names], 'files': {name: text}, 'users': {u: {name: text}}}
          | {'mode': 'copy'}  (full copy of the real library; pokes allowed)"""
    root = tempfile.mkdtemp(prefix='vf_c12_')
    os.mkdir(os.path.join(root, 'logic'))
    os.mkdir(os.path.join(root, 'library'))
    if ts['mode'] == 'copy':
        for f in os.listdir(repo_lib_dir()):
            if f.endswith('.json'):
                shutil.copy2(os.path.join(repo_lib_dir(), f), os.path.join(root, 'library', f))
        return root
    for n in ts.get('link', []):
        os.symlink(os.path.join(repo_lib_dir(), n + '.json'), os.path.join(root, 'library', n + '.json'))
    for n, t in ts.get('files', {}).items():
        with open(os.path.join(root, 'library', n + '.json'), 'w', encoding='utf-8') as f:
            f.write(t)
    for u, fs in ts.get('users', {}).items():
        os.makedirs(os.path.join(root, 'users', u))
        for n in ts.get('link', []):
            os.symlink(os.path.join(repo_lib_dir(), n + '.json'), os.path.join(root, 'users', u, n + '.json'))
        for n, t in fs.items():
            with open(os.path.join(root, 'users', u, n + '.json'), 'w', encoding='utf-8') as f:
                f.write(t)
    return root


def tree_state(ts, steps, upto):
    """simulate the file operations of steps[:upto] -> {'master': {name: text}, user: {...}} (plain texts)"""
    if ts is None or ts['mode'] == 'copy':
        return None
    st = {'master': {n: repo_text(n) for n in ts.get('link', [])}}
    st['master'].update(ts.get('files', {}))
    for u, fs in ts.get('users', {}).items():
        st[u] = {n: repo_text(n) for n in ts.get('link', [])}
        st[u].update(fs)
    for s in steps[:upto]:
        if s['op'] in ('write', 'delete'):
            parts = s['path'].split('/')
            user = 'master' if parts[0] == 'library' else parts[1]
            name = parts[-1][:-5]
            if s['op'] == 'write':
                st.setdefault(user, {})[name] = s['text']
            else:
                st.get(user, {}).pop(name, None)
    return st


_count_lock = threading.Lock()
_child_stats = {'run': 0, 'completed': 0, 'timeout': 0, 'crash': 0}


def run_child(steps, root, hashseed, timeout):
    fd, out = tempfile.mkstemp(prefix='vf_c12_out_', suffix='.json')
    os.close(fd)
    os.remove(out)
    spec = {'out': out, 'steps': steps, 'tree': root, 'dirname': os.path.join(root, 'logic') if root else None}
    env = dict(os.environ)
    env['PYTHONPATH'] = os.pathsep.join([core.REPO, core.VF_HOME])
    env['PYTHONDONTWRITEBYTECODE'] = '1'
    env['PYTHONHASHSEED'] = str(hashseed)
    env['VF_REPO'] = core.REPO
    env['VF_HOME'] = core.VF_HOME
    res = None
    import time
    t0 = time.time()
    try:
        p = subprocess.run([core.PY, '-c', 'from vf.oracle_c12_child import main; main()'],
                           input=json.dumps(spec).encode(), cwd=core.REPO, env=env, timeout=timeout,
                           stdout=subprocess.DEVNULL, stderr=subprocess.PIPE)
        if os.path.exists(out):
            with open(out) as f:
                res = json.load(f)
        else:
            res = {'completed': False, 'crash': 'no result file, rc=%s, stderr: %s' % (
                p.returncode, p.stderr.decode('utf-8', 'replace')[-600:])}
    except subprocess.TimeoutExpired:
        res = {'completed': False, 'timeout': True}
    finally:
        if os.path.exists(out):
            os.remove(out)
    if os.environ.get('VF_C12_TRACE'):
        with _count_lock, open(os.environ['VF_C12_TRACE'], 'a') as f:
            f.write('%6.1fs pid-shard=%d %s\n' % (time.time() - t0, os.getpid(), ' ; '.join(fmt_step(x) for x in steps)))
    with _count_lock:
        _child_stats['run'] += 1
        if res.get('completed'):
            _child_stats['completed'] += 1
        elif res.get('timeout'):
            _child_stats['timeout'] += 1
        else:
            _child_stats['crash'] += 1
    return res


def child_steps(steps):
    """strip parent-only annotations"""
    keep = ('op', 'name', 'limit', 'username', 'ctx', 'dump', 'interrupt', 'state_check', 'module', 'n', 'path', 'text', 'delta')
    return [{k: v for k, v in s.items() if k in keep} for s in steps]


def base_load(st):
    """the fresh-process counterpart of an observed load: same theory, limit, user; nothing else"""
    b = {'op': 'load', 'name': st['name'], 'limit': st.get('limit'), 'dump': True}
    if st.get('username'):
        b['username'] = st['username']
    return b


def load_key(st):
    l = st.get('limit')
    return (st['name'], tuple(l) if isinstance(l, list) else l, st.get('username') or 'master')


# ====================================================================== step constructors / classes
def S_load(name, limit=None, cmp=False, **kw):
    s = {'op': 'load', 'name': name, 'limit': list(limit) if isinstance(limit, tuple) else limit, 'dump': cmp, 'cmp': cmp}
    s.update(kw)
    return s


def S_fail(name, limit, kind, **kw):
    return S_load(name, limit, cmp=False, expect='raise:' + kind, state_check=True, **kw)


def S_write(name, text, delta=10, user=None, corrupt=False):
    path = ('library/%s.json' % name) if user is None else ('users/%s/%s.json' % (user, name))
    return {'op': 'write', 'path': path, 'text': text, 'delta': delta, 'corrupt': corrupt}


def step_class(s):
    op = s['op']
    if op == 'load':
        if s.get('interrupt'):
            return 'interrupted-load'
        if s.get('expect'):
            return 'failing-load'
        if s.get('ctx') == 'fresh_theory':
            return 'load-in-fresh-theory-context'
        if s.get('username'):
            return 'load-other-user'
        return 'load'
    return {'import': 'import', 'metadata': 'metadata-reload', 'use': 'use-of-theorems',
            'write': 'corrupt-file' if s.get('corrupt') else 'file-write', 'utime': 'mtime-poke',
            'delete': 'file-delete', 'reclimit': 'recursion-limit'}[op]


def known_stale_cause(sc, i):
    """Random histories: does one of the two RECORDED root causes (cache entries validated by the mtime of their own
    file only; import lists read once) explain a difference observed at step i ?  Decided from the history alone:
    (K2) a file in the import closure of the observed theory had its import list changed by a write after the first
    load of the process; (K1) a theory in that closure was loaded before a file it imports was rewritten.
    -> mechanism key of the recorded finding, or None (the difference then keeps its generic key and is a violation)."""
    tree = sc.get('tree')
    if not tree or tree.get('mode') != 'syn':
        return None
    try:
        imports = {n: list(json.loads(t).get('imports', [])) for n, t in tree['files'].items()}
    except Exception:
        return None
    initial = {n: list(v) for n, v in imports.items()}

    def closure(name, imps):
        seen, todo = set(), [name]
        while todo:
            x = todo.pop()
            if x in seen:
                continue
            seen.add(x)
            todo.extend(imps.get(x, []))
        return seen
    loaded_any = False
    cached, changed_imports, stale_dependents = set(), set(), set()
    for st in sc['steps'][:i]:
        if st['op'] == 'metadata':
            # an explicit refresh re-reads every import list and empties the cache: the recorded root causes cannot
            # explain anything that was cached or changed before it
            loaded_any = True
            cached, changed_imports, stale_dependents = set(), set(), set()
        elif st['op'] == 'load':
            loaded_any = True
            cached |= closure(st['name'], imports)
        elif st['op'] in ('write', 'delete'):
            n = os.path.basename(st.get('path', ''))
            n = n[:-5] if n.endswith('.json') else n
            new = imports.get(n, [])
            if st['op'] == 'write':
                try:
                    new = list(json.loads(st['text']).get('imports', []))
                except Exception:
                    pass
            if loaded_any and n in imports and new != imports[n]:
                changed_imports.add(n)
            for y in cached:
                if y != n and n in closure(y, imports):
                    stale_dependents.add(y)
            imports[n] = new
    x = sc['steps'][i]['name']
    cl = closure(x, imports) | closure(x, initial)
    if changed_imports & cl:
        return 'changed-file-not-reread:import-list-of-changed-file-stale'
    if stale_dependents & cl:
        return 'changed-file-not-reread:dependent-keeps-items-parsed-against-old-import'
    return None


def history_class(steps):
    cl = {step_class(s) for s in steps}
    for c in CLASS_PRIORITY:
        if c in cl:
            return c
    return 'empty-history'


# ====================================================================== running and judging one scenario
def run_scenario(sc, tier, baseline_cache=None, own_bases=True):
    """sc: {'label', 'tree': treespec|None, 'steps': [...], 'hashseed': n}
    -> {'sc', 'hist': child result, 'bases': {step index: child step record | None}}
    The fresh-process counterpart of an observed load runs on the tree as the history left it, so only loads after
    the last file operation are compared (a copy of the real library is only ever poked, never rewritten)."""
    root = None
    timeout = CHILD_TIMEOUT[tier]
    try:
        tree = sc.get('tree')
        if tree is not None:
            root = build_tree(tree)
        steps = sc['steps']
        last_file_op = max([i for i, s in enumerate(steps) if s['op'] in ('write', 'utime', 'delete')] or [-1])
        if tree is not None and tree['mode'] == 'copy' and not sc.get('copy_writes'):
            assert all(s['op'] != 'write' and s['op'] != 'delete' for s in steps)
            last_file_op = -1
        hist = run_child(child_steps(steps), root, sc['hashseed'], timeout)
        bases = {}
        for i, s in enumerate(steps):
            if not (s['op'] == 'load' and s.get('cmp') and i > last_file_op):
                continue
            key = load_key(s)
            if baseline_cache is not None and key in baseline_cache:
                bases[i] = baseline_cache[key]
                continue
            if not own_bases:
                bases[i] = None
                continue
            b = run_child([base_load(s)], root, sc['hashseed'] + 7919, timeout)
            bases[i] = b['steps'][0] if b.get('completed') and b.get('steps') else None
        return {'sc': sc, 'hist': hist, 'bases': bases}
    finally:
        if root is not None:
            shutil.rmtree(root, ignore_errors=True)


def compare(hrec, brec):
    """-> None (agree) | (mech base, qualifier, detail)"""
    ho, bo = hrec.get('outcome'), brec.get('outcome')
    if ho == 'ok' and bo == 'ok':
        if hrec['dump']['digest'] == brec['dump']['digest']:
            return None
        kinds, detail = diff_dumps(hrec['dump'], brec['dump'])
        if not kinds:
            return None
        return ('dump-differs-by-history', None, {'kinds': kinds, 'detail': detail})
    if ho == 'ok' and bo == 'raised':
        return ('fresh-process-load-fails-but-succeeds-after-history', exc_label(brec),
                {'fresh': [brec.get('exc'), brec.get('msg')], 'after_history_theorems': len(hrec['dump']['thms'])})
    if ho == 'raised' and bo == 'ok':
        return ('load-fails-after-history-but-succeeds-in-fresh-process', exc_label(hrec),
                {'after_history': [hrec.get('exc'), hrec.get('msg')], 'fresh_theorems': len(brec['dump']['thms'])})
    return None


class Judge:
    def __init__(self, ctx, tier):
        self.ctx, self.tier = ctx, tier
        self.real_lib = None
        self.shrinks_left = 0 if tier == 'quick' else 3     # witnesses are minimised in the thorough tier only
        self.baseline_cache = {}
        self.all_exp_cache = {}

    def lib_for(self, sc, upto, user='master'):
        if sc.get('tree') is None or sc['tree']['mode'] == 'copy':
            if self.real_lib is None:
                self.real_lib = Lib.from_dir(repo_lib_dir())
            return self.real_lib if user == 'master' else None
        st = tree_state(sc['tree'], sc['steps'], upto)
        return Lib(st[user]) if user in st else None

    def witness(self, sc, i, extra=None):
        w = {'label': sc['label'], 'tree': sc.get('tree'), 'steps': sc['steps'], 'observed_step': i,
             'hashseed': sc['hashseed'], 'fresh_counterpart': base_load(sc['steps'][i]) if sc['steps'][i]['op'] == 'load' else None}
        if extra:
            w['observed'] = extra
        return w

    def is_real_class(self, name):
        lib = self.lib_for({'tree': None}, 0)
        clo = lib.closure(name) if name in lib.data else None
        return clo is not None and ('real' in clo or name == 'real')

    def exp_check(self, sc, i, rec, who):
        """O2 on a successful dumped load"""
        ctx = self.ctx
        s = sc['steps'][i]
        if sc.get('copy_writes'):
            return      # a rewritten copy of the real library: judged by the differential only
        lib = self.lib_for(sc, i, s.get('username') or 'master')
        if lib is None or rec.get('outcome') != 'ok' or 'dump' not in rec:
            return
        lim = s.get('limit')
        E = lib.expect(s['name'], tuple(lim) if isinstance(lim, list) else lim)
        ctx.count('expectation_checks')
        if E is None:
            return   # the must-raise verdict is given where the step is marked expect / by the differential
        for kind, detail in check_expect(rec['dump'], E):
            ctx.violation('expectation:%s' % kind,
                          'load_theory(%r, limit=%r) %s: state disagrees with the JSON files: %s %s' % (
                              s['name'], lim, who, kind, json.dumps(detail)[:300]),
                          self.witness(sc, i, {'who': who, 'kind': kind, 'detail': detail}))

    def partial_check(self, sc, i, rec):
        """O3b: a failed load must not leave a partial theory as the current theory"""
        ctx = self.ctx
        if 'after_dump' not in rec:
            ctx.count('failed_load_left_current_theory_unchanged')
            return
        lib = self.lib_for(sc, i, sc['steps'][i].get('username') or 'master')
        if lib is None or not lib.loadable():
            ctx.count('failed_load_state_not_judged')
            return
        d = rec['after_dump']
        if d.get('none'):
            return
        for n in sorted(lib.data):
            for lim in (None, 'start'):
                E = lib.expect(n, lim)
                if E is not None and not check_expect(d, E):
                    ctx.count('failed_load_left_a_complete_theory')
                    return
        s = sc['steps'][i]
        ctx.violation('partial-theory-left-current-after-failed-load',
                      'after load_theory(%r, limit=%r) raised %s the current theory.thy (%d theorems) is neither the '
                      'theory before the call nor the complete content of any library theory' % (
                          s['name'], s.get('limit'), rec.get('exc'), len(d['thms'])),
                      self.witness(sc, i))

    def judge(self, r, allow_shrink=True):
        ctx = self.ctx
        sc, hist, bases = r['sc'], r['hist'], r['bases']
        steps = sc['steps']
        if not hist.get('completed'):
            ctx.count('child_timeout' if hist.get('timeout') else 'child_crash')
            if hist.get('crash'):
                ctx.note('child crash in %s: %s' % (sc['label'], hist['crash'][-400:]))
            return []
        found = []
        recs = hist['steps']
        for i, (s, rec) in enumerate(zip(steps, recs)):
            cls = step_class(s)
            ctx.count('steps_' + cls)
            if s['op'] == 'import':
                ctx.count('import_steps_ok' if rec.get('outcome') == 'ok' else 'import_steps_raised')
                if rec.get('outcome') != 'ok':
                    ctx.note('import %s raised %s %s' % (s['module'], rec.get('exc'), (rec.get('msg') or '')[:120]))
            if s['op'] != 'load':
                continue
            if s.get('interrupt'):
                ctx.count('interrupt_fired' if rec.get('fired') else 'interrupt_not_reached')
                if rec.get('fired') and rec.get('outcome') == 'ok':
                    ctx.count('interrupt_swallowed_by_loader')
            if s.get('expect'):
                ctx.count('error_cases_checked')
                kind = s['expect'].split(':', 1)[1]
                if kind.startswith('cycle'):
                    ctx.count('cycle_cases')
                if rec.get('outcome') == 'ok':
                    mech = 'error-case-returned-instead-of-raising:' + kind
                    ctx.violation(mech, 'load_theory(%r, limit=%r%s) returned normally although %s (history: %s)' % (
                        s['name'], s.get('limit'), ', username=%r' % s['username'] if s.get('username') else '', kind,
                        ' ; '.join(fmt_step(x) for x in steps[:i])), self.witness(sc, i))
                    found.append(mech)
                else:
                    ctx.count('error_cases_raised')
            if rec.get('outcome') == 'raised' and s.get('state_check'):
                tainted = any((steps[j].get('interrupt') and recs[j].get('fired')) or steps[j]['op'] in ('write', 'delete') for j in range(i))
                if tainted and not s.get('interrupt'):
                    ctx.count('failed_load_state_not_judged')     # effects of an earlier interrupted load / file rewrite are judged on their own
                else:
                    self.partial_check(sc, i, rec)
            c = None
            if i in bases and bases[i] is not None:
                c = compare(rec, bases[i])
            if rec.get('outcome') == 'ok' and 'dump' in rec and c is None:
                # O2 on the state after the history (when it differs from the fresh process the differential reports it)
                self.exp_check(sc, i, rec, 'after history')
            if i in bases:
                b = bases[i]
                if b is None:
                    ctx.count('baseline_unavailable')
                    continue
                nontrivial = i > 0
                ctx.case((sc['label'], json.dumps(child_steps(steps[:i + 1]), sort_keys=True)), nontrivial=nontrivial,
                         sample={'label': sc['label'], 'history': [fmt_step(x) for x in steps[:i]], 'observed': fmt_step(s),
                                 'after_history': summarize(rec), 'fresh': summarize(b)} if ctx.evaluations < 3 else None)
                ctx.count('compared_with_fresh')
                if s.get('filechange') or any(x['op'] in ('write', 'utime', 'delete') for x in steps[:i]):
                    ctx.count('file_change_cases')
                if sc.get('tree') is None or sc['tree']['mode'] == 'copy':
                    ctx.count('compared_real_class' if self.is_real_class(s['name']) else 'compared_small_class')
                if b.get('outcome') == 'ok':
                    self.exp_check(sc, i, b, 'in a fresh process')
                else:
                    lib = self.lib_for(sc, i, s.get('username') or 'master')
                    lim = s.get('limit')
                    if c is not None:
                        pass      # fresh fails, history succeeds: reported below by the differential
                    elif lib is not None and lib.expect(s['name'], tuple(lim) if isinstance(lim, list) else lim) is not None:
                        mech = 'valid-theory-load-raises-in-fresh-process:' + exc_label(b)
                        ctx.violation(mech, 'a fresh process doing only load_theory(%r, limit=%r%s) raises %s: %s although the '
                                      'files are readable, acyclic and contain the limit' % (
                                          s['name'], lim, ', username=%r' % s['username'] if s.get('username') else '',
                                          b.get('exc'), (b.get('msg') or '')[:120]),
                                      self.witness(sc, i))
                        found.append(mech)
                    else:
                        ctx.count('fresh_raises_as_expected')
                if c is None:
                    ctx.count('agree_with_fresh' if rec.get('outcome') == 'ok' else 'both_raise')
                    continue
                base, qual, detail = c
                use = sc
                if allow_shrink and not s.get('mech') and self.shrinks_left > 0 and i > 0:
                    self.shrinks_left -= 1
                    use, i2 = self.shrink(sc, i, base)
                    if use is not sc:
                        ctx.count('histories_shrunk')
                        i = i2
                        s = use['steps'][i]
                if s.get('mech'):
                    mech = s['mech']
                elif base == 'dump-differs-by-history' or base.startswith('load-fails-after-history'):
                    mech = known_stale_cause(use, i)
                    if mech is None:
                        mech = base + ':after-' + history_class(use['steps'][:i])
                    else:
                        ctx.count('random_history_difference_explained_by_recorded_root_cause')
                else:
                    mech = base + ':' + qual      # qualifier = what the fresh process raised
                ctx.violation(mech, '%s: load_theory(%r, limit=%r%s) after history [%s] vs. fresh process: %s' % (
                    base, s['name'], s.get('limit'), ', username=%r' % s['username'] if s.get('username') else '',
                    ' ; '.join(fmt_step(x) for x in use['steps'][:i]), json.dumps(detail)[:400]),
                    self.witness(use, i, detail))
                found.append(mech)
        return found

    def shrink(self, sc, i, base):
        """greedy one-pass removal of history steps (file operations and the observed load are kept)"""
        steps = [dict(x, cmp=False, dump=False) if x['op'] == 'load' else x for x in sc['steps'][:i]] + [sc['steps'][i]]
        j = 0
        while j < len(steps) - 1:
            if steps[j]['op'] in ('write', 'utime', 'delete'):
                j += 1
                continue
            cand = steps[:j] + steps[j + 1:]
            sc2 = dict(sc, steps=cand)
            r = run_scenario(sc2, self.tier, None)
            k = len(cand) - 1
            ok = False
            if r['hist'].get('completed') and r['bases'].get(k) is not None:
                c = compare(r['hist']['steps'][k], r['bases'][k])
                ok = c is not None and c[0] == base
            if ok:
                steps = cand
            else:
                j += 1
        if len(steps) < i + 1:
            return dict(sc, steps=steps, label=sc['label'] + '-shrunk'), len(steps) - 1
        return sc, i


def fmt_step(s):
    op = s['op']
    if op == 'load':
        t = 'load(%s' % s['name']
        if s.get('limit') is not None:
            t += ', limit=%s' % (s['limit'],)
        if s.get('username'):
            t += ', user=%s' % s['username']
        t += ')'
        if s.get('interrupt'):
            t += ' interrupted at item #%d by %s' % (s['interrupt']['at'], s['interrupt']['exc'])
        if s.get('ctx'):
            t += ' inside fresh_theory()'
        if s.get('expect'):
            t += ' [must raise: %s]' % s['expect'].split(':', 1)[1]
        return t
    if op == 'import':
        return 'import ' + s['module']
    if op == 'write':
        return '%s %s (mtime %+g)' % ('corrupt' if s.get('corrupt') else 'rewrite', s['path'], s.get('delta', 10))
    if op in ('utime', 'delete'):
        return '%s %s' % (op, s['path'])
    return op


def summarize(rec):
    if rec is None:
        return None
    if rec.get('outcome') == 'ok' and 'dump' in rec:
        d = rec['dump']
        return {'outcome': 'ok', 'digest': d['digest'], 'theorems': len(d['thms']), 'constants': len(d['consts']),
                'types': len(d['types'])}
    return {'outcome': rec.get('outcome'), 'exc': rec.get('exc'), 'msg': (rec.get('msg') or '')[:100]}


# ====================================================================== synthetic libraries
def T(imports, content):
    return json.dumps({'name': 'vf', 'imports': imports, 'description': 'vf synthetic', 'content': content})


def ax(name, prop, vars=None, attrs=None):
    d = {'ty': 'thm.ax', 'name': name, 'vars': vars or {}, 'prop': prop}
    if attrs:
        d['attributes'] = attrs
    return d


def cst(name, ty):
    return {'ty': 'def.ax', 'name': name, 'type': ty}


T1_V0 = T(['logic_base'], [cst('f', 'bool => bool'), ax('f_ax', 'f true'), ax('f_mid', 'true', attrs=['hint_rewrite']),
                           ax('f_last', 'f true --> f true')])
T1_V1 = T(['logic_base'], [cst('f', 'bool => bool => bool'), ax('f_ax', 'f true true'), ax('f_new', 'f false true --> f true true'),
                           ax('f_mid', 'true'), ax('f_last', 'true')])
T1_V2 = T(['logic_base'], [cst('f', 'bool => bool'), ax('f_ax', 'f true'), ax('f_mid', 'true', attrs=['hint_rewrite']),
                           ax('f_last', 'f true --> f true'), ax('f_added', 'f false --> f false')])
T2_V0 = T(['t1'], [ax('g_ax', 'f x = f x', {'x': 'bool'}), ax('h_ax', 'true')])
T3_V0 = T(['logic_base'], [cst('e', 'bool'), ax('e_ax', 'e --> e')])
T2_V1 = T(['t3'], [ax('g_ax', 'e --> e'), ax('h_ax', 'true'), ax('k_ax', 'e = e')])
T4_V0 = T(['t1'], [ax('n_ax', 'f = f')])
T5_V0 = T(['t2'], [ax('top_ax', 'true')])
GOOD = T(['logic_base'], [ax('good_ax', 'true')])
BASE_FILES = {'t1': T1_V0, 't2': T2_V0, 't3': T3_V0, 't5': T5_V0}
CORRUPT_JSON = '{"name": "vf", "imports": ["logic_base"], "description": "", "content": [ {"ty": "thm.ax", '
CORRUPT_ITEM = json.dumps({'name': 'vf', 'imports': ['logic_base'], 'description': '', 'content': [
    cst('f', 'bool => bool'), ax('f_ax', 'f true'), {'ty': 'vf.unknown', 'name': 'zzz'}, ax('f_last', 'f true --> f true')]})
CORRUPT_FIELD = json.dumps({'name': 'vf', 'imports': ['logic_base'], 'description': '', 'content': [
    cst('f', 'bool => bool'), ax('f_ax', 'f true'), {'ty': 'thm.ax', 'prop': 'true', 'vars': {}}, ax('f_last', 'f true --> f true')]})


def syn_tree(files=None, users=None):
    return {'mode': 'syn', 'link': ['logic_base'], 'files': dict(files if files is not None else BASE_FILES), 'users': users or {}}


def scen_cycles():
    A = T(['b'], [ax('a_ax', 'true')])
    B = T(['a'], [ax('b_ax', 'true')])
    A3 = T(['b'], [ax('a_ax', 'true')])
    B3 = T(['c'], [ax('b_ax', 'true')])
    C3 = T(['a'], [ax('c_ax', 'true')])
    D3 = T(['a'], [ax('d_ax', 'true')])
    SELF = T(['s'], [ax('s_ax', 'true')])
    A_OK = T(['logic_base'], [ax('a_ax', 'true')])
    out = []
    out.append({'label': 'cycle-2', 'tree': syn_tree({'a': A, 'b': B, 'good': GOOD}), 'steps': [
        S_fail('a', None, 'cycle-2'), S_fail('a', None, 'cycle-2-second-attempt'), S_fail('b', None, 'cycle-2-other-member'),
        S_load('good', cmp=True, mech='cycle:error-reported-once-then-unrelated-loads-succeed')]})
    out.append({'label': 'cycle-3', 'tree': syn_tree({'a': A3, 'b': B3, 'c': C3, 'd': D3, 'good': GOOD}), 'steps': [
        S_fail('d', None, 'cycle-3-below-target'), S_fail('d', None, 'cycle-3-below-target-second-attempt'),
        S_fail('c', None, 'cycle-3'), S_fail('c', ('thm.ax', 'c_ax'), 'cycle-3-with-limit')]})
    out.append({'label': 'cycle-self', 'tree': syn_tree({'s': SELF, 'good': GOOD}), 'steps': [
        S_fail('s', None, 'cycle-self'), S_fail('s', 'start', 'cycle-self-second-attempt')]})
    out.append({'label': 'cycle-user-dir', 'tree': syn_tree({'good': GOOD}, users={'u1': {'a': A, 'b': B, 'good': GOOD}}), 'steps': [
        S_load('good'), S_fail('a', None, 'cycle-2-in-user-directory', username='u1'),
        S_fail('b', None, 'cycle-2-in-user-directory-second-attempt', username='u1')]})
    out.append({'label': 'cycle-by-edit', 'tree': syn_tree({'a': A_OK, 'b': B, 'good': GOOD}), 'steps': [
        S_load('b'), S_write('a', A), S_fail('a', None, 'cycle-introduced-by-file-change'),
        S_fail('b', None, 'cycle-introduced-by-file-change')]})
    return out


def scen_files():
    out = []
    fc = dict(filechange=True)
    out.append({'label': 'reread-own-newer', 'tree': syn_tree(), 'steps': [
        S_load('t1'), S_write('t1', T1_V1, 10), S_load('t1', cmp=True, mech='changed-file-not-reread:own-file', **fc)]})
    out.append({'label': 'reread-own-older', 'tree': syn_tree(), 'steps': [
        S_load('t1'), S_write('t1', T1_V1, -3600), S_load('t1', cmp=True, mech='changed-file-not-reread:own-file-with-older-mtime', **fc)]})
    out.append({'label': 'reread-own-limit', 'tree': syn_tree(), 'steps': [
        S_load('t1', ('thm.ax', 'f_mid')), S_write('t1', T1_V1, 0.5),
        S_load('t1', ('thm.ax', 'f_mid'), cmp=True, mech='changed-file-not-reread:own-file', **fc)]})
    out.append({'label': 'poke-only', 'tree': syn_tree(), 'steps': [
        S_load('t2'), {'op': 'utime', 'path': 'library/t1.json', 'delta': 25}, {'op': 'utime', 'path': 'library/t2.json', 'delta': -25},
        S_load('t2', cmp=True, mech='dump-differs-after-mtime-poke', **fc)]})
    out.append({'label': 'import-gains-theorem', 'tree': syn_tree(), 'steps': [
        S_load('t2'), S_write('t1', T1_V2), S_load('t2', cmp=True, mech='changed-file-not-reread:import-of-target', **fc)]})
    out.append({'label': 'import-changes-signature', 'tree': syn_tree(), 'steps': [
        S_load('t2'), S_write('t1', T1_V1),
        S_load('t2', cmp=True, mech='changed-file-not-reread:dependent-keeps-items-parsed-against-old-import', **fc)]})
    out.append({'label': 'import-of-import-changes-signature', 'tree': syn_tree(), 'steps': [
        S_load('t5'), S_write('t1', T1_V1),
        S_load('t5', cmp=True, mech='changed-file-not-reread:dependent-keeps-items-parsed-against-old-import', **fc)]})
    # after an explicit refresh of the metadata nothing parsed before may be served (the refresh empties the cache)
    out.append({'label': 'import-changes-signature-then-refresh', 'tree': syn_tree(), 'steps': [
        S_load('t2'), S_write('t1', T1_V1), {'op': 'metadata'},
        S_load('t2', cmp=True, mech='stale-content-served-after-metadata-refresh', **fc)]})
    out.append({'label': 'import-of-import-changes-signature-then-refresh', 'tree': syn_tree(), 'steps': [
        S_load('t5'), S_write('t1', T1_V1), {'op': 'metadata'},
        S_load('t5', cmp=True, mech='stale-content-served-after-metadata-refresh', **fc)]})
    out.append({'label': 'import-list-changes-then-refresh', 'tree': syn_tree(), 'steps': [
        S_load('t2'), S_write('t2', T2_V1), {'op': 'metadata'},
        S_load('t2', cmp=True, mech='stale-content-served-after-metadata-refresh', **fc)]})
    out.append({'label': 'import-list-changes', 'tree': syn_tree(), 'steps': [
        S_load('t2'), S_write('t2', T2_V1), S_load('t2', cmp=True, mech='changed-file-not-reread:import-list-of-changed-file-stale', **fc)]})
    out.append({'label': 'file-added', 'tree': syn_tree(), 'steps': [
        S_load('t1'), S_write('t4', T4_V0), S_load('t4', cmp=True, mech='file-added-after-first-load-not-seen', **fc)]})
    out.append({'label': 'import-deleted', 'tree': syn_tree(), 'steps': [
        S_load('t2'), {'op': 'delete', 'path': 'library/t1.json'},
        S_load('t2', cmp=True, mech='deleted-import-still-served-from-cache', **fc)]})
    out.append({'label': 'rewrite-then-restore', 'tree': syn_tree(), 'steps': [
        S_load('t2'), S_write('t1', T1_V1), S_load('t1'), S_write('t1', T1_V0, 20),
        S_load('t2', cmp=True, mech='changed-file-not-reread:dependent-keeps-items-parsed-against-old-import', **fc)]})
    return out


def scen_faults():
    out = []
    out.append({'label': 'interrupt-import-then-dependent', 'tree': syn_tree(), 'steps': [
        S_load('t1', interrupt={'at': 72, 'exc': 'KeyboardInterrupt'}, state_check=True), S_load('t2', cmp=True)]})
    out.append({'label': 'interrupt-target-then-same', 'tree': syn_tree(), 'steps': [
        S_load('logic_base'), S_load('t2', interrupt={'at': 3, 'exc': 'MemoryError'}, state_check=True), S_load('t1', cmp=True),
        S_load('t2', cmp=True)]})
    out.append({'label': 'interrupt-own-items', 'tree': syn_tree(), 'steps': [
        S_load('t1'), S_load('t2', interrupt={'at': 2, 'exc': 'KeyboardInterrupt'}, state_check=True), S_load('t2', cmp=True),
        S_load('t5', cmp=True)]})
    for lab, txt in (('corrupt-json', CORRUPT_JSON), ('corrupt-item-kind', CORRUPT_ITEM), ('corrupt-item-field', CORRUPT_FIELD)):
        out.append({'label': lab, 'tree': syn_tree(), 'steps': [
            S_load('t2'), S_write('t1', txt, corrupt=True), S_fail('t1', None, lab),
            S_fail('t1', None, 'corrupt-file-after-first-failed-attempt'),
            S_fail('t2', None, 'corrupt-file-after-first-failed-attempt'), S_write('t1', T1_V0, 30),
            S_load('t1', cmp=True, filechange=True), S_load('t2', cmp=True, filechange=True)]})
    out.append({'label': 'failing-loads-state', 'tree': syn_tree(), 'steps': [
        S_load('t3'), S_fail('t2', ('thm.ax', 'vf_no_such'), 'missing-limit'), S_fail('t2', ('thm', 'h_ax'), 'limit-of-wrong-kind'),
        S_fail('t2', ('thm.ax', 'f_ax'), 'limit-names-item-of-import'), S_fail('vf_no_such_theory', None, 'unknown-theory'),
        S_load('t2', ('thm.ax', 'h_ax'), cmp=True), S_load('t3', cmp=True)]})
    U = {'u1': dict(BASE_FILES)}
    out.append({'label': 'user-after-master', 'tree': syn_tree(users=U), 'steps': [
        S_load('t2'), S_load('t2', cmp=True, username='u1', mech='username:fresh-process-load-raises-KeyError-master-but-succeeds-after-history')]})
    out.append({'label': 'user-retry', 'tree': syn_tree(users=U), 'steps': [
        S_load('t1', username='u1'), S_load('t2', cmp=True, username='u1', mech='username:fresh-process-load-raises-KeyError-master-but-succeeds-after-history')]})
    out.append({'label': 'nested-context', 'tree': syn_tree(), 'steps': [
        S_load('t3'), S_load('t2', cmp=True, ctx='fresh_theory'), S_load('t1', ('thm.ax', 'f_last'), cmp=True),
        S_load('t5', 'start', cmp=True)]})
    return out


def rand_syn_scenario(rng, k):
    """random history over the synthetic library; only the loads after the last file operation are compared"""
    variants = {'t1': [T1_V0, T1_V1, T1_V2], 't2': [T2_V0, T2_V1], 't3': [T3_V0], 't5': [T5_V0]}
    limits = {'t1': [('thm.ax', 'f_mid'), ('thm.ax', 'f_last'), ('def.ax', 'f'), 'start'],
              't2': [('thm.ax', 'h_ax'), 'start'], 't3': [('thm.ax', 'e_ax')], 't5': ['start'], 'logic_base': ['start']}
    names = ['t1', 't2', 't3', 't5', 'logic_base']
    steps = []
    n = rng.randint(2, 4)
    corrupt_pending = None
    for j in range(n):
        r = rng.random()
        if r < 0.30:
            nm = rng.choice(names)
            lim = rng.choice(limits[nm]) if rng.random() < 0.35 else None
            steps.append(S_load(nm, lim, ctx='fresh_theory' if rng.random() < 0.15 else None))
        elif r < 0.50:
            nm = rng.choice(['t1', 't2'])
            steps.append(S_write(nm, rng.choice(variants[nm]), rng.choice([10, -10, 0.25, 3600])))
        elif r < 0.58:
            steps.append({'op': 'utime', 'path': 'library/%s.json' % rng.choice(['t1', 't2', 't3', 't5']), 'delta': rng.choice([5, -5])})
        elif r < 0.74:
            nm = rng.choice(['t1', 't2', 't5'])
            steps.append(S_load(nm, interrupt={'at': rng.randint(1, 76), 'exc': rng.choice(['KeyboardInterrupt', 'MemoryError'])},
                                state_check=True))
        elif r < 0.84:
            kind, nm, lim = rng.choice([('missing-limit', 't2', ('thm.ax', 'vf_no_such')), ('limit-of-wrong-kind', 't1', ('thm', 'f_ax')),
                                        ('unknown-theory', 'vf_no_such_theory', None), ('limit-names-item-of-import', 't5', ('thm.ax', 'h_ax'))])
            steps.append(S_fail(nm, lim, kind))
        elif r < 0.92:
            steps.append({'op': 'metadata'})
        else:
            steps.append({'op': 'use', 'n': 20})
    # failing-load expectations only hold while the file state makes them failing: t2 v1 still has h_ax; t1 variants all have f_ax as thm.ax
    nm = rng.choice(['t1', 't2', 't5', 't5', 't2'])
    lim = rng.choice(limits[nm]) if rng.random() < 0.3 else None
    steps.append(S_load(nm, lim, cmp=True, filechange=any(s['op'] in ('write', 'utime') for s in steps)))
    return {'label': 'syn-random-%d' % k, 'tree': syn_tree(), 'steps': steps}


# ====================================================================== histories over the real library
def pick_limit(rng, lib, name, prefer_clash=False):
    items = [it for it in lib.data[name]['content'] if 'name' in it]
    if not items:
        return 'start'
    if prefer_clash:
        seen, clash = {}, []
        for it in items:
            if it['ty'] != 'header' and it['name'] in seen and seen[it['name']] != it['ty']:
                clash.append(it)
            seen.setdefault(it['name'], it['ty'])
        if clash:
            it = rng.choice(clash)
            return (it['ty'], it['name'])
    it = rng.choice(items)
    # the limit is the FIRST item with that (ty, name)
    return (it['ty'], it['name'])


def failing_load(rng, lib, name):
    kind = rng.choice(['missing-limit', 'limit-of-wrong-kind', 'limit-names-item-of-import', 'unknown-theory'])
    own = [(it['ty'], it['name']) for it in lib.data[name]['content'] if 'name' in it]
    if kind == 'limit-of-wrong-kind' and own:
        ty, nm = rng.choice(own)
        for ty2 in ('thm', 'def', 'thm.ax', 'def.ax'):
            if (ty2, nm) not in own:
                return S_fail(name, (ty2, nm), kind)
    if kind == 'limit-names-item-of-import':
        clo = lib.closure(name) or []
        cand = [(it['ty'], it['name']) for t in clo for it in lib.data[t]['content'] if 'name' in it]
        cand = [c for c in cand if c not in own]
        if cand:
            return S_fail(name, rng.choice(cand), kind)
    if kind == 'unknown-theory':
        return S_fail('vf_no_such_theory', None, kind)
    return S_fail(name, ('thm', 'vf_no_such_item'), 'missing-limit')


def gen_history(rng, lib, pairs, pool, opener, heavy_ok, copy_mode, maxlen=4):
    """pairs: observed (theory, limit) candidates; pool: theories usable for unobserved loads"""
    steps = []
    n = rng.randint(1, maxlen)
    # interrupted loads only in histories that open with one (or in a third of the unscripted ones), so that the other
    # histories stay attributable to imports / loads / failing loads alone
    allow_interrupt = (opener == 'interrupt') or (not opener and rng.random() < 0.35)

    def obs():
        nm, lim = rng.choice(pairs)
        return S_load(nm, lim, cmp=True, ctx='fresh_theory' if rng.random() < 0.12 else None)
    for j in range(n):
        kind = opener if j == 0 and opener else rng.choice(
            ['obs', 'obs', 'load', 'load', 'import', 'fail', 'interrupt' if allow_interrupt else 'load', 'metadata', 'use',
             'poke', 'fresh'])
        if kind == 'obs':
            steps.append(obs())
        elif kind == 'load':
            nm = rng.choice(pool)
            steps.append(S_load(nm, pick_limit(rng, lib, nm) if rng.random() < 0.3 else None))
        elif kind == 'fresh':
            nm = rng.choice(pool)
            steps.append(S_load(nm, None, ctx='fresh_theory'))
        elif kind.startswith('import'):
            if ':' in kind:
                mod = kind.split(':', 1)[1]
            else:
                mod = rng.choice(HEAVY_IMPORTS + LIGHT_IMPORTS if heavy_ok else LIGHT_IMPORTS)
            steps.append({'op': 'import', 'module': mod})
        elif kind == 'fail':
            steps.append(failing_load(rng, lib, rng.choice(pairs)[0]))
        elif kind == 'interrupt':
            nm = rng.choice(pairs)[0] if rng.random() < 0.6 else rng.choice(pool)
            tot = lib.n_items_closure(nm)
            steps.append(S_load(nm, None, interrupt={'at': rng.randint(1, max(1, tot)), 'exc': rng.choice(['KeyboardInterrupt', 'MemoryError'])},
                                state_check=True))
        elif kind == 'metadata':
            steps.append({'op': 'metadata'})
        elif kind == 'use':
            steps.append({'op': 'use', 'n': 40})
        elif kind == 'poke':
            if copy_mode:
                nm = rng.choice(pairs)[0]
                clo = (lib.closure(nm) or []) + [nm]
                steps.append({'op': 'utime', 'path': 'library/%s.json' % rng.choice(clo), 'delta': rng.choice([7, -7, 0.125])})
            else:
                steps.append(obs())
    last = obs()
    last['ctx'] = last['ctx'] if rng.random() < 0.5 else None
    steps.append(last)
    return steps


def lib_classes(lib):
    small, real = [], []
    for n in sorted(lib.data):
        clo = lib.closure(n)
        if clo is None:
            continue
        (real if ('real' in clo or n == 'real') else small).append(n)
    return small, real


def shards(tier, seed):
    lib = Lib.from_dir(repo_lib_dir())
    small, real = lib_classes(lib)
    import random
    rng = random.Random(core.h64(('C12-shards', tier, seed)))
    if tier == 'quick':
        sm = small[:]
        rng.shuffle(sm)
        rl = [n for n in real if n not in ('card', 'floor')]
        rng.shuffle(rl)
        out = [{'kind': 'syn', 'which': 'cycles', 'par': 3}, {'kind': 'syn', 'which': 'files', 'par': 3},
               {'kind': 'syn', 'which': 'faults', 'part': 0, 'par': 3}, {'kind': 'syn', 'which': 'faults', 'part': 1, 'par': 3},
               {'kind': 'syn', 'which': 'random', 'n': 6, 'par': 3}, {'kind': 'syn', 'which': 'copywrites', 'par': 3}]
        openers_small = [['interrupt', 'load'], ['fail', 'import:imperative.imp'], ['metadata', 'fresh'],
                         ['interrupt', 'import:data.proplogic'], ['load', 'use'], ['import:prover.auto.auto', 'fail']]
        for i in range(5):
            t1, t2 = sm[(2 * i) % len(sm)], sm[(2 * i + 1) % len(sm)]
            out.append({'kind': 'hist', 'cls': 'small', 'pairs': [[t1, None], [t2, 'random' if i % 2 else 'start'], [t1, 'clash']],
                        'n_hist': 2, 'openers': openers_small[i], 'heavy': False, 'copy': i == 2, 'par': 2})
        # theories that import 'real' (a cold load costs the whole interval_arith chain): one observed pair per shard
        real_specs = [([['card', None]], ['import:data.real', 'load']),
                      ([['floor', ['thm', 'floor']]], ['import:data.integer', 'fail']),   # limit whose name also names an earlier def
                      ([[rl[0], None]], ['import:prover.omega', 'interrupt']),
                      ([[rl[1], 'random']], ['import:prover.simplex', 'load']),
                      ([[rl[2], 'random']], ['import:prover.proofrec', 'fresh']),
                      ([['real', 'clash']], ['import:integral.inequality', 'fail'])]
        for prs, ops in real_specs:
            out.append({'kind': 'hist', 'cls': 'real', 'pairs': prs, 'n_hist': 2, 'openers': ops, 'heavy': False, 'copy': False,
                        'par': 3, 'maxlen': 3})
        return out
    out = [{'kind': 'syn', 'which': 'cycles', 'par': 1}, {'kind': 'syn', 'which': 'files', 'par': 1},
           {'kind': 'syn', 'which': 'faults', 'part': 0, 'par': 1}, {'kind': 'syn', 'which': 'faults', 'part': 1, 'par': 1},
           {'kind': 'syn', 'which': 'copywrites', 'par': 3}]
    out += [{'kind': 'syn', 'which': 'random', 'n': 40, 'par': 1, 'i': i} for i in range(8)]
    names = small + real
    for i, n in enumerate(names):
        cls = 'small' if n in small else 'real'
        other = rng.choice(small if cls == 'small' else real)
        out.append({'kind': 'hist', 'cls': cls, 'targets': [n, other], 'primary': n, 'n_hist': 16 if cls == 'small' else 11,
                    'openers': [], 'heavy': True, 'copy': i % 4 == 0, 'par': 1, 'n_limits': 2, 'clash': True, 'i': i})
    return out


def run_hist_shard(ctx, spec, tier):
    rng = ctx.rng
    lib = Lib.from_dir(repo_lib_dir())
    small, real = lib_classes(lib)
    J = Judge(ctx, tier)
    pairs = []
    if spec.get('pairs'):
        for tname, lim in spec['pairs']:
            if lim == 'random':
                lim = pick_limit(rng, lib, tname)
            elif lim == 'clash':
                lim = pick_limit(rng, lib, tname, prefer_clash=True)
            elif isinstance(lim, list):
                lim = tuple(lim)
            pairs.append((tname, lim))
        spec = dict(spec, targets=[p[0] for p in pairs])
    else:
        for k, tname in enumerate(spec['targets']):
            if k == 0:
                pairs.append((tname, None))
                pairs.append((tname, 'start'))
            for q in range(spec.get('n_limits', 1) if k == 0 else 1):
                pairs.append((tname, pick_limit(rng, lib, tname, prefer_clash=spec.get('clash', False) and q == 0)))
    pairs = list(dict.fromkeys(pairs))
    ctx.count('final_targets', 1 if spec.get('primary') else 0)
    pool = small if spec['cls'] == 'small' else small + real
    tree = {'mode': 'copy'} if spec.get('copy') else None
    scs = []
    ops = list(spec.get('openers') or [])
    for h in range(spec['n_hist']):
        opener = ops[h] if h < len(ops) else None
        heavy_ok = spec['heavy'] and (spec['cls'] == 'real' or rng.random() < 0.25)
        steps = gen_history(rng, lib, pairs, pool, opener, heavy_ok, tree is not None, spec.get('maxlen', 4))
        scs.append({'label': 'hist-%s-%s-%d' % (spec['cls'], spec['targets'][0], h), 'tree': tree, 'steps': steps,
                    'hashseed': rng.randrange(1, 1 << 30)})
    # fresh-process counterparts (real library) and histories are independent children: one pool
    need = {}
    for sc in scs:
        for s in sc['steps']:
            if s['op'] == 'load' and s.get('cmp'):
                need.setdefault(load_key(s), s)

    def base_job(item):
        key, s = item
        hs = core.h64(('C12-base', ctx.seed, repr(key))) % (1 << 30) + 1
        b = run_child([base_load(s)], None, hs, CHILD_TIMEOUT[tier])
        return key, (b['steps'][0] if b.get('completed') and b.get('steps') else None)
    with ThreadPoolExecutor(max_workers=spec.get('par', 1)) as ex:
        fb = [ex.submit(base_job, it) for it in sorted(need.items(), key=lambda kv: repr(kv[0]))]
        fh = [ex.submit(run_scenario, sc, tier, None, False) for sc in scs]
        for f in fb:
            key, rec = f.result()
            if rec is not None:
                J.baseline_cache[key] = rec
        results = [f.result() for f in fh]
    for r in results:
        for i in list(r['bases']):
            r['bases'][i] = J.baseline_cache.get(load_key(r['sc']['steps'][i]))
    for r in results:
        J.judge(r)
    finish(ctx)


def scen_copy_writes():
    """a copy of the REAL library in which a theory file is rewritten between two loads of it: the theories whose
    loading imports a support module (real, set, ...) go through their own branch of the loader"""
    out = []
    for tname in ('real', 'set', 'nat'):
        try:
            d = json.loads(repo_text(tname))
        except Exception:
            continue
        d2 = dict(d, content=list(d['content']) + [{'ty': 'thm.ax', 'name': 'vf_added_axiom', 'vars': {}, 'prop': 'true --> true'}])
        out.append({'label': 'copy-rewrite-own-' + tname, 'tree': {'mode': 'copy'}, 'copy_writes': True, 'steps': [
            S_load(tname), {'op': 'write', 'path': 'library/%s.json' % tname, 'text': json.dumps(d2), 'delta': 100, 'corrupt': False},
            S_load(tname, cmp=True, mech='changed-file-not-reread:own-file:real-library-theory', filechange=True)]})
    return out


def run_syn_shard(ctx, spec, tier):
    rng = ctx.rng
    which = spec['which']
    if which == 'cycles':
        scs = scen_cycles()
    elif which == 'files':
        scs = scen_files()
    elif which == 'copywrites':
        scs = scen_copy_writes()
    elif which == 'faults':
        scs = scen_faults()
        scs = [sc for sc in scs if (sc['label'].startswith('corrupt') or sc['label'].startswith('user')) == bool(spec.get('part'))]
    else:
        scs = [rand_syn_scenario(rng, k) for k in range(spec['n'])]
    for sc in scs:
        sc['hashseed'] = rng.randrange(1, 1 << 30)
    J = Judge(ctx, tier)
    with ThreadPoolExecutor(max_workers=spec.get('par', 1)) as ex:
        results = list(ex.map(lambda sc: run_scenario(sc, tier, None), scs))
    for r in results:
        J.judge(r)
    finish(ctx)


def finish(ctx):
    ctx.count('children_run', _child_stats['run'])
    ctx.count('children_completed', _child_stats['completed'])
    ctx.count('children_timeout', _child_stats['timeout'])
    ctx.count('children_crashed', _child_stats['crash'])


def run_shard(ctx, spec):
    tier = ctx.tier if ctx.tier in CHILD_TIMEOUT else 'quick'
    if 'replay' in spec:
        w = spec['replay']['witness']
        sc = {'label': w['label'], 'tree': w.get('tree'), 'steps': w['steps'], 'hashseed': w.get('hashseed', 1)}
        for s in sc['steps']:
            if isinstance(s.get('limit'), list):
                s['limit'] = list(s['limit'])
        J = Judge(ctx, tier)
        J.shrinks_left = 0
        r = run_scenario(sc, tier, None)
        J.judge(r, allow_shrink=False)
        ctx.case('replay', sample={'history': [fmt_step(x) for x in sc['steps']]})
        finish(ctx)
        return
    if spec['kind'] == 'hist':
        run_hist_shard(ctx, spec, tier)
    else:
        run_syn_shard(ctx, spec, tier)


def coverage_extra(counters, tier):
    return {'exhaustive': False,
            'children': {k: counters.get(k, 0) for k in ('children_run', 'children_completed', 'children_timeout', 'children_crashed')},
            'step_classes_seen': sorted(k[6:] for k in counters if k.startswith('steps_'))}
