"""C07 - printing then parsing a type, term, sequent, instantiation or proof step is the identity.

Postcondition on the real printer (print_term / print_type / print_thm / export_proof_item) under every
printer setting: the text is parsed back by the real parser in a context declaring exactly the free
variables and compared with the original on shadows (alpha-equality with types).  History independence:
text with the process-wide AST memo warm == text with the memo swapped for an empty table.
"""
import itertools
from vf import shadow as S, gen as G, arith as A

ID = 'C07'
LEVEL = 'exploration'
RULE = ('case = one well-typed term (or type / sequent / proof item) generated over the signature of theory `real` '
        '(logic, nat/int/real arithmetic with overloaded constants only at declared instances, sets, lists, functions; every '
        'operator in argument positions of every other, binders, numerals, literals, if, function update, comprehension, bound '
        'names clashing with free names), or one statement of the library; printed under unicode x line_length {None,20,80} x '
        'highlight and re-parsed; distinct = hash of the term shadow; non-trivial = size >= 4 with an operator or binder')
ASSUMPTIONS = ['free variable names are CNAMEs that are neither keywords nor constant names and have one type per name; '
               'schematic variables are declared in the context',
               'multi-line output is re-joined with single spaces as parser.parse_term(list) does; highlighted output is '
               'flattened by concatenating the text fields']
REQUIRED = {'quick': {'roundtrips_ok': 20000, 'types_roundtrips': 1500, 'thm_roundtrips': 800, 'item_roundtrips': 600,
                      'memo_differentials': 2500, 'library_statements': 400, 'history_reprints': 1500},
            'thorough': {'roundtrips_ok': 400000, 'types_roundtrips': 30000, 'thm_roundtrips': 15000, 'item_roundtrips': 12000,
                         'memo_differentials': 50000, 'library_statements': 3000, 'history_reprints': 30000}}
SHARD_TIMEOUT = {'quick': 1200, 'thorough': 7200}

B, NAT, INT, REAL = S.BOOL, S.NAT, S.INT, S.REAL
a_, b_ = ('tv', 'a'), ('tv', 'b')


def setT(x):
    return ('tc', 'set', (x,))


def listT(x):
    return ('tc', 'list', (x,))


NUMS = [NAT, INT, REAL]
WANT = ['equals', 'implies', 'all', 'exists', 'exists1', 'conj', 'disj', 'neg', 'true', 'false', 'IF', 'Some', 'The', 'plus',
        'minus', 'uminus', 'times', 'real_divide', 'nat_divide', 'nat_modulus', 'power', 'less', 'less_eq', 'greater',
        'greater_eq', 'zero', 'one', 'of_nat', 'of_int', 'append', 'cons', 'nil', 'member', 'subset', 'inter', 'union',
        'empty_set', 'univ', 'insert', 'collect', 'Union', 'Inter', 'comp_fun', 'fun_upd', 'Suc', 'abs', 'max', 'min', 'image',
        'card', 'length', 'rev', 'id_fun', 'diff', 'finite', 'sqrt', 'Let', 'xor']
OVERLOAD = {
    'zero': [{'a': T} for T in NUMS], 'one': [{'a': T} for T in NUMS],
    'plus': [{'a': T} for T in NUMS], 'minus': [{'a': T} for T in NUMS], 'times': [{'a': T} for T in NUMS],
    'less': [{'a': T} for T in NUMS], 'less_eq': [{'a': T} for T in NUMS],
    'greater': [{'a': T} for T in NUMS], 'greater_eq': [{'a': T} for T in NUMS],
    'uminus': [{'a': INT}, {'a': REAL}], 'abs': [{'a': INT}, {'a': REAL}],
    'max': [{'a': T} for T in NUMS], 'min': [{'a': T} for T in NUMS],
    'power': [{'a': NAT, 'b': NAT}, {'a': INT, 'b': NAT}, {'a': REAL, 'b': NAT}],
    'of_nat': [{'a': INT}, {'a': REAL}],
}
NAMES = ('x', 'y', 'z', 'a', 'b', 'f', 'g', 'm', 'n', 'p', 'q', 's', 'u', 'A', 'C', 'P', 'Q', 'xs')


def shards(tier, seed):
    n = 13 if tier == 'quick' else 48
    out = [{'kind': 'gen', 'i': i, 'count': 420 if tier == 'quick' else 2400} for i in range(n)]
    out += [{'kind': 'lib', 'i': i, 'parts': 3 if tier == 'quick' else 16, 'frac': 0.07 if tier == 'quick' else 1.0}
            for i in range(3 if tier == 'quick' else 16)]
    return out


def type_pool():
    return [(6, B), (6, NAT), (3, INT), (4, REAL), (3, a_), (1, b_), (2, setT(NAT)), (2, setT(a_)), (1, setT(REAL)),
            (2, listT(NAT)), (1, listT(a_)), (2, S.fun(NAT, NAT)), (1, S.fun(a_, b_)), (1.5, S.fun(a_, B)), (1, S.fun(NAT, B)),
            (1, S.fun(REAL, REAL)), (0.5, S.funs(NAT, NAT, NAT)), (0.5, setT(setT(NAT))), (0.4, S.fun(a_, a_)),
            (0.3, ('stv', 'a'))]


def build_sig():
    from kernel import theory
    sig = []
    ts = theory.thy.get_data('term_sig')
    for n in WANT:
        if n in ts:
            sig.append((n, G.decl(S.ty_shadow(ts[n]))))
    return sig


class Gen07(G.TermGen):
    """adds numerals >= 2 and keeps one type per variable name"""

    def gen(self, T, depth, bd=()):
        if T in NUMS and self.rng.random() < 0.12:
            return ('comb', ('const', 'of_nat', S.fun(NAT, T)), A.binary_sh(self.rng.choice([2, 3, 5, 10, 12, 255])))
        return super().gen(T, depth, bd)


def term_ok(s):
    """prechecks: closed, well-typed, variable names map to one type, no constant named like a variable"""
    try:
        S.typeof(s)
    except S.ShadowError:
        return False
    seen = {}
    for a in S.atoms(s):
        key = (a[0], a[1])
        if key in seen and seen[key] != a[2]:
            return False
        seen[key] = a[2]
    return True


def flatten(res, highlight, line_length):
    def flat_line(l):
        if highlight:
            return ''.join(p['text'] for p in l)
        return l
    if line_length:
        return ' '.join(flat_line(l) for l in res)
    return flat_line(res)


SETTINGS = [(u, ll, hl) for u in (False, True) for ll in (None, 20, 80) for hl in (False, True)]


def set_ctx(s_list):
    from logic import context
    from kernel import theory
    vars_, svars = {}, {}
    for s in s_list:
        for a in S.atoms(s):
            (vars_ if a[0] == 'var' else svars)[a[1]] = S.to_repo_type(a[2])
    context.set_context(None, vars=vars_, svars=svars)


def heads(s):
    h, args = S.strip_comb(s)
    if h[0] == 'const':
        return h[1]
    return h[0]


def minimal_failing(s, fails):
    """smallest closed sub-term for which `fails` still holds"""
    best = s
    changed = True
    while changed:
        changed = False
        subs = []
        k = best[0]
        if k == 'comb':
            subs = [best[1], best[2]]
        elif k == 'abs':
            v = ('var', 'w_', best[2])
            subs = [S.inst_bound(best[3], v)]
        for sub in subs:
            if S.size(sub) >= 2 and term_ok(sub) and fails(sub):
                best = sub
                changed = True
                break
    return best


OPS_UNARY = ('neg', 'uminus', 'Union', 'Inter')
OPS_BINARY = ('equals', 'implies', 'conj', 'disj', 'plus', 'minus', 'power', 'times', 'real_divide', 'nat_divide', 'nat_modulus',
              'less_eq', 'less', 'greater_eq', 'greater', 'append', 'cons', 'member', 'subset', 'inter', 'union', 'comp_fun')
BINDERS = ('all', 'exists', 'exists1', 'The', 'Some')


def category(s):
    """syntactic class of a sub-term as the printer sees it (for mechanism keys only)"""
    h, args = S.strip_comb(s)
    if s[0] == 'abs':
        return 'lambda'
    if not args:
        return 'atom'
    if h[0] == 'const':
        n = h[1]
        if n in OPS_UNARY and len(args) == 1:
            return n
        if n in OPS_BINARY and len(args) == 2:
            if n == 'equals' and h[2][2][0] == S.BOOL:
                return 'iff'
            return n
        if n in BINDERS and len(args) == 1 and args[0][0] == 'abs':
            return 'binder'
        if n == 'IF' and len(args) == 3:
            return 'if'
        if n == 'of_nat' and len(args) == 1 and A.binary(args[0]) is not None:
            return 'numeral' if A.binary(args[0]) >= 2 else 'of_nat-0-or-1'
        if n == 'real_divide':
            return 'real_divide'
        if n in ('cons', 'insert', 'collect', 'fun_upd'):
            return n
    return 'app'


def erase(s):
    k = s[0]
    if k in ('var', 'svar', 'const'):
        return (k, s[1])
    if k == 'comb':
        return ('comb', erase(s[1]), erase(s[2]))
    if k == 'abs':
        return ('abs', erase(s[3]))
    return s


RELATIONS = ('equals', 'member', 'subset', 'less_eq', 'less', 'greater_eq', 'greater')
PRIO65 = ('plus', 'minus', 'append', 'cons', 'union')
PRIO70 = ('times', 'real_divide', 'nat_divide', 'nat_modulus', 'inter')


def classify(s, s2=None, problem=None, info=None):
    """mechanism key of a minimal failing term s (all proper sub-terms round-trip); s2 = what it parsed back to.
    Coarse root-cause classes first (each is one disagreement between the printer's operator table /
    bracket rules and the grammar), the fine structural key otherwise."""
    h, args = S.strip_comb(s)
    root = category(s)
    kidcats = [category(x) for x in args] if s[0] == 'comb' else [category(s[3])]
    same_shape = s2 is not None and erase(s) == erase(s2)
    if h[0] == 'const' and h[1] in BINDERS and len(args) >= 2 and args[-1][0] == 'abs':
        return 'binder-constant-applied-to-more-than-one-argument-printed-as-binder'
    if same_shape or (problem == 'reparse-fails' and info == 'TypeInferenceException' and not _shape_suspect(root, kidcats)):
        return 'types:' + annotation_diagnosis(s)
    if root in RELATIONS and any(k in RELATIONS for k in kidcats):
        return 'precedence:nested-relations-share-priority-50-in-printer-but-not-in-grammar'
    if root in RELATIONS and 'neg' in kidcats:
        return 'precedence:negation-priority-95-in-printer-40-in-grammar'
    if root in PRIO65 and any(k in PRIO65 and k != root for k in kidcats):
        return 'precedence:operators-share-priority-65-in-printer-but-not-in-grammar'
    if root in PRIO70 and any(k in PRIO70 and k != root for k in kidcats):
        return 'precedence:operators-share-priority-70-in-printer-but-not-in-grammar'
    if root in OPS_UNARY and any(k in OPS_UNARY and k != root for k in kidcats):
        return 'precedence:nested-unary-operators'
    if h[0] == 'const' and h[1] in BINDERS and len(args) >= 2:
        return 'binder-constant-applied-to-more-than-one-argument-printed-as-binder'
    if root == 'app':
        root = 'app:' + ('const' if h[0] == 'const' else h[0])
    return 'shape:%s(%s)' % (root, ','.join(kidcats))


def annotation_diagnosis(s):
    """which node did the printer's own annotation pass choose?  (classification only)"""
    try:
        import copy
        from syntax import infertype, operator
        t = copy.copy(S.to_repo_term(s))
        infertype.infer_printed_type(t)
        flagged = []

        def walk(x, is_head):
            if x.is_const() and hasattr(x, 'print_type'):
                flagged.append('operator' if (is_head and (operator.get_info_for_fun(x) is not None or
                                                           operator.get_binder_info_for_fun(x) is not None)) else 'other')
            if x.is_abs() and hasattr(x, 'print_type'):
                flagged.append('other')
            if x.is_comb():
                h = x.head
                if h.is_const() and hasattr(h, 'print_type') and operator.get_binder_info_for_fun(h) is not None \
                        and x.args and x.args[-1].is_abs():
                    vt = x.args[-1].var_T
                    if vt.is_fun() or (vt.is_tconst() and len(vt.args) > 0):
                        # the binder constant was chosen although its own bound variable has a compound type that
                        # could carry the annotation (the recorded finding is about terms with no such candidate)
                        flagged.append('binder-over-compound')
                walk(h, True)
                for a in x.args:
                    walk(a, False)
            elif x.is_abs():
                walk(x.body, False)
        walk(t, False)

        def has_compound_binder(x):
            if x.is_abs():
                vt = x.var_T
                return vt.is_fun() or (vt.is_tconst() and len(vt.args) > 0) or has_compound_binder(x.body)
            if x.is_comb():
                return has_compound_binder(x.fun) or has_compound_binder(x.arg)
            return False
        if 'binder-over-compound' in flagged:
            return 'annotation-missing-although-the-bound-variable-of-compound-type-could-carry-it'
        if 'operator' in flagged:
            return 'annotation-chosen-on-operator-or-binder-constant-is-not-rendered'
        return 'underdetermined-other'
    except Exception:
        return 'underdetermined-other'


def _shape_suspect(root, kidcats):
    fam = lambda x: x in RELATIONS or x in PRIO65 or x in PRIO70 or x in OPS_UNARY
    return fam(root) and any(fam(k) and (k != root or k in RELATIONS) for k in kidcats)


def roundtrip_term(ctx, s, settings_list, judge=True):
    """-> list of (setting, problem) ; problem in {None, 'print-raises', 'reparse-fails', 'reparse-differs'}"""
    from syntax import printer, parser
    from syntax.settings import global_setting
    t = S.to_repo_term(s)
    set_ctx([s])
    out = []
    for (u, ll, hl) in settings_list:
        try:
            with global_setting(unicode=u, line_length=ll, highlight=hl):
                res = printer.print_term(t)
            text = flatten(res, hl, ll)
        except Exception as e:
            out.append(((u, ll, hl), 'print-raises', type(e).__name__, None))
            continue
        try:
            import io, contextlib
            with contextlib.redirect_stdout(io.StringIO()):
                t2 = parser.parse_term(text)
            s2 = S.tm_shadow(t2)
        except Exception as e:
            out.append(((u, ll, hl), 'reparse-fails', type(e).__name__, text))
            continue
        if S.aeq(s, s2):
            out.append(((u, ll, hl), None, None, text))
        else:
            out.append(((u, ll, hl), 'reparse-differs', S.tm_str(s2, True), text))
    return out


def judge_term(ctx, s, origin):
    res = roundtrip_term(ctx, s, SETTINGS)
    bad = [r for r in res if r[1] is not None]
    ctx.count('roundtrips_ok', len(res) - len(bad))
    if not bad:
        return True
    setting, problem, info, text = bad[0]

    def fails(sub):
        rr = roundtrip_term(ctx, sub, [setting])
        return rr[0][1] is not None
    m = minimal_failing(s, fails) if origin != 'replay' else s
    rr = roundtrip_term(ctx, m, [setting])[0]
    s2 = None
    if rr[1] == 'reparse-differs':
        try:
            import io, contextlib
            from syntax import parser
            set_ctx([m])
            with contextlib.redirect_stdout(io.StringIO()):
                s2 = S.tm_shadow(parser.parse_term(rr[3]))
        except Exception:
            s2 = None
    mech = classify(m, s2, rr[1], rr[2])
    if origin.startswith('library:'):
        mech = 'library-statement:' + mech
    ctx.violation(mech, '%s [%s] under unicode=%s line_length=%s highlight=%s printed as %r -> %s' % (
        S.tm_str(m, True), origin, setting[0], setting[1], setting[2], rr[3], rr[1] + (': ' + str(rr[2]) if rr[2] else '')),
        {'kind': 'term', 'term': S.jsonable(m), 'setting': list(setting), 'problem': problem, 'from': S.jsonable(s) if S.size(s) < 60 else None})
    return False


def text_reads_back(text, s):
    """does this text parse (in the context declaring the free variables of s) to a term equal to s ?"""
    from syntax import parser
    import io, contextlib
    set_ctx([s])
    try:
        with contextlib.redirect_stdout(io.StringIO()):
            s2 = S.tm_shadow(parser.parse_term(text))
    except Exception:
        return False
    return S.aeq(s, s2)


def memo_differential(ctx, s):
    """text with the AST memo as found == text with an empty memo"""
    from syntax import printer, pprint
    from syntax.settings import global_setting
    t = S.to_repo_term(s)
    for u in (False, True):
        try:
            with global_setting(unicode=u, line_length=None, highlight=False):
                warm = printer.print_term(t)
                saved = pprint.term_ast
                pprint.term_ast = dict()
                try:
                    cold = printer.print_term(S.to_repo_term(s))
                finally:
                    pprint.term_ast = saved
        except Exception:
            ctx.count('memo_print_raised')
            continue
        ctx.count('memo_differentials')
        if warm != cold:
            # the property is about the RESULT of print-then-parse: a memo entry left by an alpha-equivalent term may
            # legitimately spell a bound variable differently; what it may not do is change what the text reads back as
            if text_reads_back(warm, s):
                ctx.count('memo_text_differs_but_reads_back_equal')
                continue
            ctx.violation('history:memoised-text-does-not-read-back', 'term %s prints as %r with the memo (which does not parse '
                          'back to the term) and as %r without' % (S.tm_str(s, True), warm, cold),
                          {'kind': 'memo', 'term': S.jsonable(s), 'unicode': u})


def gen_types(ctx, rng, g):
    from syntax import printer, parser
    from syntax.settings import global_setting
    for _ in range(4):
        T = g.rand_type()
        for k in range(rng.choice([0, 1, 2])):
            T = rng.choice([S.fun(T, g.rand_type()), S.fun(g.rand_type(), T), setT(T), listT(T)])
        for u in (False, True):
            try:
                with global_setting(unicode=u):
                    text = printer.print_type(S.to_repo_type(T))
                T2 = S.ty_shadow(parser.parse_type(text))
            except Exception as e:
                ctx.violation('type:print-or-parse-raises', 'type %s: %s' % (S.ty_str(T), type(e).__name__), {'kind': 'type', 'type': S.jsonable(T)})
                continue
            ctx.count('types_roundtrips')
            if T2 != T:
                ctx.violation('type:reparse-differs', 'type %s printed as %r parses to %s' % (S.ty_str(T), text, S.ty_str(T2)),
                              {'kind': 'type', 'type': S.jsonable(T), 'unicode': u})


def gen_thm_and_items(ctx, rng, g):
    """sequents and exported proof items"""
    from syntax import printer, parser
    from syntax.settings import global_setting
    from kernel.thm import Thm
    from kernel.proof import ProofItem
    from kernel.term import Inst
    from kernel.type import TyInst
    import io, contextlib
    props = [g.gen(B, rng.choice([1, 2, 3])) for _ in range(rng.choice([1, 2, 3]))]
    if not all(term_ok(p) for p in props) or not term_ok(('comb', ('comb', ('const', 'conj', S.funs(B, B, B)), props[0]), props[-1])):
        return
    names = {}
    for p in props:
        for a in S.atoms(p):
            if names.setdefault((a[0], a[1]), a[2]) != a[2]:
                return
    for p in props:
        if any(r[1] is not None for r in roundtrip_term(ctx, p, [(False, None, False), (True, None, False)])):
            ctx.count('sequent_component_fails_alone')
            judge_term(ctx, p, 'generated')
            return
    th = Thm(S.to_repo_term(props[-1]), *[S.to_repo_term(p) for p in props[:-1]])
    set_ctx(props)
    # W-HIST: what was printed before must not matter - component, composite (sequent / argument list), component again
    for u in (False, True):
        for hl in (True, False):
            try:
                with global_setting(unicode=u, highlight=hl, line_length=None):
                    comps = [S.to_repo_term(p) for p in props]
                    before = [flatten(printer.print_term(c), hl, None) for c in comps]
                    flatten(printer.print_thm(th), hl, None)
                    it_ = ProofItem(0, 'assume', args=comps[0], th=th)
                    printer.export_proof_item(it_)
                    if len(comps) >= 2:
                        printer.print_str_args('vf', tuple(comps), None)
                    after = [flatten(printer.print_term(c), hl, None) for c in comps]
                with global_setting(unicode=u, highlight=False, line_length=None):
                    plain = [printer.print_term(c) for c in comps]
            except Exception as e:
                ctx.count('history_print_raised:' + type(e).__name__)
                continue
            ctx.count('history_reprints', len(comps))
            for k_, (b0, a0, p0) in enumerate(zip(before, after, plain)):
                if not (b0 == a0 == p0):
                    same = all(text_reads_back(x, props[k_]) for x in (b0, a0, p0))
                    set_ctx(props)
                    if same:
                        ctx.count('history_text_differs_but_reads_back_equal')
                        continue
                    ctx.violation('history:text-of-a-term-depends-on-what-was-printed-before', 'term %s prints as %r, then after printing a sequent / argument list containing it as %r (plain text %r)' % (
                        S.tm_str(props[k_]), b0, a0, p0), {'kind': 'thm', 'props': [S.jsonable(p) for p in props], 'unicode': u, 'highlight': hl})
                    break
    for u in (False, True):
        try:
            with global_setting(unicode=u, highlight=False):
                text = printer.print_thm(th)
            with contextlib.redirect_stdout(io.StringIO()):
                th2 = parser.parse_thm(text)
            hy2, pr2 = S.thm_shadow(th2)
        except Exception as e:
            ctx.violation('thm:print-or-parse-raises', 'sequent %s: %s' % ([S.tm_str(p) for p in props], type(e).__name__),
                          {'kind': 'thm', 'props': [S.jsonable(p) for p in props], 'unicode': u})
            continue
        ctx.count('thm_roundtrips')
        hy1 = S.thm_shadow(th)[0]
        if not (S.aeq(pr2, props[-1]) and [S.alpha(h) for h in hy2] == [S.alpha(h) for h in hy1]):
            ctx.violation('thm:reparse-differs', 'sequent printed as %r parses differently' % text,
                          {'kind': 'thm', 'props': [S.jsonable(p) for p in props], 'unicode': u})
    # proof items
    rule = rng.choice(['assume', 'implies_intr', 'forall_elim', 'substitution', 'subst_type', 'theorem', 'reflexive', 'sorry',
                       'forall_intr', 'beta_conv'])
    args = None
    if rule in ('assume', 'implies_intr', 'forall_elim', 'reflexive', 'beta_conv'):
        args = S.to_repo_term(props[0])
    elif rule == 'forall_intr':
        ats = [a for a in S.atoms(props[0]) if a[0] == 'var']
        if not ats:
            return
        args = S.to_repo_term(ats[0])
    elif rule == 'substitution':
        args = Inst()
        for a in S.atoms(props[-1]):
            if a[0] == 'svar':
                v = g.gen(a[2], 1)
                if not term_ok(v):
                    return
                for x in S.atoms(v):
                    if names.setdefault((x[0], x[1]), x[2]) != x[2]:
                        return
                if any(r[1] is not None for r in roundtrip_term(ctx, v, [(False, None, False), (True, None, False)])):
                    return
                args[a[1]] = S.to_repo_term(v)
        if not args:
            return
        set_ctx(props + [S.tm_shadow(v) for v in args.values()])
    elif rule == 'subst_type':
        args = TyInst()
        args['a'] = S.to_repo_type(g.rand_type())
    elif rule == 'theorem':
        args = 'conjI'
    item = ProofItem(rng.choice([0, 3, (1, 2)]), rule, args=args, prevs=[0] if rule in ('implies_intr', 'forall_elim', 'substitution', 'subst_type', 'forall_intr') else [],
                     th=th if rule != 'theorem' else None)
    for u in (False, True):
        try:
            with global_setting(unicode=u, highlight=False):
                data = printer.export_proof_item(item)[0]
            with contextlib.redirect_stdout(io.StringIO()):
                item2 = parser.parse_proof_rule(data)
        except Exception as e:
            ctx.violation('item:export-or-parse-raises:' + rule, 'proof item %s: %s %s' % (rule, type(e).__name__, e),
                          {'kind': 'item', 'rule': rule, 'props': [S.jsonable(p) for p in props]})
            continue
        ctx.count('item_roundtrips')
        ok = item2.id.id == item.id.id and item2.rule == item.rule and [p.id for p in item2.prevs] == [p.id for p in item.prevs]
        if ok and item.th is not None:
            h1, p1 = S.thm_shadow(item.th)
            h2, p2 = S.thm_shadow(item2.th)
            ok = S.aeq(p1, p2) and [S.alpha(h) for h in h1] == [S.alpha(h) for h in h2]
        if ok:
            if rule in ('assume', 'implies_intr', 'forall_elim', 'reflexive', 'beta_conv', 'forall_intr'):
                ok = S.aeq(S.tm_shadow(item.args), S.tm_shadow(item2.args))
            elif rule == 'substitution':
                ok = set(item.args.keys()) == set(item2.args.keys()) and all(
                    S.aeq(S.tm_shadow(item.args[k]), S.tm_shadow(item2.args[k])) for k in item.args)
            elif rule == 'subst_type':
                ok = {k: S.ty_shadow(v) for k, v in item.args.items()} == {k: S.ty_shadow(v) for k, v in item2.args.items()}
            elif rule == 'theorem':
                ok = item2.args == item.args
        if not ok:
            ctx.violation('item:reparse-differs:' + rule, 'exported proof item %r parses to a different item %s' % (data, item2),
                          {'kind': 'item', 'rule': rule, 'props': [S.jsonable(p) for p in props], 'unicode': u})


def binder_chain(rng):
    """2-4 nested binders of mixed kinds whose body mentions several of the bound variables and free variables;
    names are drawn from a tiny pool so that free/bound/variant names collide"""
    T = rng.choice([NAT, a_, REAL])
    depth = rng.choice([2, 2, 3, 4])
    names = rng.choice([['x', 'x1', 'y'], ['n', 'n1', 'n2'], ['a', 'b', 'a1']])
    k = rng.choice([2, 3])
    Rv = ('var', rng.choice(['R', 'P', 'Q']), S.funs(*([T] * k + [B])))
    frees = [('var', nm, T) for nm in names[:2]]
    args = []
    for _ in range(k):
        if rng.random() < 0.7:
            args.append(('bound', rng.randrange(depth)))
        else:
            args.append(rng.choice(frees))
    body = S.mk_comb(Rv, *args)
    for lvl in range(depth):
        kind = rng.choice(['all', 'exists', 'exists1', 'collect', 'lambda', 'all', 'exists'])
        nm = rng.choice(names)
        if kind in ('all', 'exists', 'exists1'):
            body = ('comb', ('const', kind, S.fun(S.fun(T, B), B)), ('abs', nm, T, body))
        elif kind == 'collect':
            st = ('comb', ('const', 'collect', S.fun(S.fun(T, B), setT(T))), ('abs', nm, T, body))
            # keep the result boolean: membership of a variable in the comprehension
            elem = ('bound', rng.randrange(depth - lvl - 1)) if lvl < depth - 1 and rng.random() < 0.5 else rng.choice(frees)
            body = S.mk_comb(('const', 'member', S.funs(T, setT(T), B)), elem, st)
        else:
            f = ('abs', nm, T, body)
            elem = ('bound', rng.randrange(depth - lvl - 1)) if lvl < depth - 1 and rng.random() < 0.5 else rng.choice(frees)
            pv = ('var', 'H', S.funs(S.fun(T, B), T, B))
            body = S.mk_comb(pv, f, elem)
    return body


def clashify(rng, s):
    """rename bound variables (an alpha-equivalent term) so that they clash with free variables, with enclosing
    binders and with the variant names (x1) the printer would invent"""
    free = [a[1] for a in S.atoms(s)]
    pool = list(dict.fromkeys(free)) or ['x']
    base = rng.choice(pool)

    def walk(t):
        k = t[0]
        if k == 'comb':
            return ('comb', walk(t[1]), walk(t[2]))
        if k == 'abs':
            r = rng.random()
            nm = t[1]
            if r < 0.55:
                nm = base
            elif r < 0.7:
                nm = base + '1'
            elif r < 0.8:
                nm = rng.choice(pool)
            return ('abs', nm, t[2], walk(t[3]))
        return t
    return walk(s)


def setup():
    import warnings
    warnings.simplefilter('ignore')
    from logic import basic
    basic.load_theory('real')
    from vf import core
    core.freeze()


def two_faced_equals(rng, g):
    """`equals` is two operators: = (priority 50) at other types and <--> (priority 25) at bool.  Terms that contain
    both, in either order, under &, |, --> and on either side of another equivalence"""
    T1 = rng.choice([NAT, NAT, REAL, a_])
    eq = lambda T, a, b: S.mk_comb(('const', 'equals', S.funs(T, T, B)), a, b)
    bin_ = lambda op, a, b: S.mk_comb(('const', op, S.funs(B, B, B)), a, b)
    num_eq = eq(T1, g.gen(T1, rng.choice([0, 1])), g.gen(T1, rng.choice([0, 1])))
    iff = eq(B, g.gen(B, rng.choice([0, 0, 1])), g.gen(B, rng.choice([0, 0, 1])))
    first, second = (num_eq, iff) if rng.random() < 0.6 else (iff, num_eq)
    op = rng.choice(['conj', 'disj', 'implies', 'iff', 'iff'])
    t = eq(B, first, second) if op == 'iff' else bin_(op, first, second)
    if rng.random() < 0.3:
        t = bin_(rng.choice(['conj', 'disj']), g.gen(B, 0), t)
    if rng.random() < 0.2:
        t = ('comb', ('const', 'neg', S.fun(B, B)), t)
    return t


def unpinned_binder_terms(rng):
    """quantifiers / lambdas over a bound variable of COMPOUND type that nothing in the body pins down (s Sub s,
    f x = f x, s Un s = s): the printer has to annotate the bound variable itself"""
    ta, tb = ('tv', 'a'), ('tv', 'b')
    T = rng.choice([setT(ta), setT(NAT), S.fun(ta, tb), S.fun(ta, ta), listT(ta), S.fun(NAT, ta)])
    b0, b1 = ('bound', 0), ('bound', 1)
    Q = lambda q, nm, TT, body: ('comb', ('const', q, S.fun(S.fun(TT, B), B)), ('abs', nm, TT, body))
    eq = lambda TT, x, y: S.mk_comb(('const', 'equals', S.funs(TT, TT, B)), x, y)
    forms = [Q(rng.choice(['all', 'exists']), 's', T, eq(T, b0, b0))]
    if T[1] == 'set':
        E = T[2][0]
        sub = lambda x, y: S.mk_comb(('const', 'subset', S.funs(T, T, B)), x, y)
        un = lambda x, y: S.mk_comb(('const', 'union', S.funs(T, T, T)), x, y)
        forms += [Q('all', 's', T, sub(b0, b0)), Q('all', 'A', T, Q('all', 'B', T, S.mk_comb(('const', 'implies', S.funs(B, B, B)), sub(b1, b0), eq(T, un(b1, b0), b0)))),
                  Q('all', 's', T, eq(T, un(b0, b0), b0))]
    if T[1] == 'fun':
        D, R = T[2]
        forms += [Q('exists', 'f', T, Q('all', 'x', D, eq(R, ('comb', b1, b0), ('comb', b1, b0)))),
                  ('abs', 'f', T, ('abs', 'x', D, ('comb', b1, b0)))]
    return rng.choice(forms)


def run_gen(ctx, spec):
    rng = ctx.rng
    sig = build_sig()
    ctx.count('signature_constants', len(sig))
    for k in range(spec['count']):
        g = Gen07(rng, sig, type_pool(), names=NAMES, p_svar=0.12, p_fresh=0.35, p_redex=0.08, overload=OVERLOAD,
                  weights={'const': 8, 'atom': 3, 'app': 1, 'abs': 2})
        g.clash_bias = 0.45
        T = g.rand_type() if rng.random() < 0.5 else B
        r_ = rng.random()
        if r_ < 0.15:
            s = binder_chain(rng)
            ctx.count('binder_chains')
        elif r_ < 0.22:
            s = two_faced_equals(rng, g)
            ctx.count('two_faced_equals_terms')
        else:
            s = g.gen(T, rng.choice([1, 2, 2, 3, 3, 4]))
        if not term_ok(s):
            ctx.count('gen_discarded')
            continue
        if rng.random() < 0.35:
            s = clashify(rng, s)          # alpha-equivalent renaming of binders towards free / enclosing names
            ctx.count('name_clash_variants')
        nt = S.size(s) >= 4 and s[0] in ('comb', 'abs')
        if k % 6 == 0:
            # a family that has ONE mechanism key of its own (its members round-trip on the unchanged tree)
            u = unpinned_binder_terms(rng)
            if term_ok(u):
                ctx.count('unpinned_binder_terms')
                bad = [r for r in roundtrip_term(ctx, u, [(False, None, False), (True, None, False)]) if r[1] is not None]
                if bad:
                    ctx.violation('directed:binder-over-a-bound-variable-of-compound-type-that-the-body-does-not-pin',
                                  '%s under unicode=%s printed as %r -> %s' % (S.tm_str(u, True), bad[0][0][0], bad[0][3], bad[0][1]),
                                  {'kind': 'term', 'term': S.jsonable(u), 'setting': list(bad[0][0]), 'problem': bad[0][1]})
        judge_term(ctx, s, 'generated')
        if k % 3 == 0:
            memo_differential(ctx, s)
        ctx.case(S.alpha(s), nontrivial=nt, sample=S.tm_str(s) if k < 2 and spec['i'] == 0 else None)
        if k % 4 == 0:
            gen_types(ctx, rng, g)
        if k % 2 == 0:
            gen_thm_and_items(ctx, rng, g)


def run_lib(ctx, spec):
    """every statement of a slice of the library (they came from text, so they must survive)"""
    import os, json
    from logic import basic, context
    from kernel import theory
    from server import items as items_mod
    from vf import core
    rng = ctx.rng
    names = sorted(f[:-5] for f in os.listdir(os.path.join(core.REPO, 'library')) if f.endswith('.json') and f != 'hoare_test_output.json')
    mine = [n for k, n in enumerate(names) if k % spec['parts'] == spec['i']]
    import io, contextlib
    for name in mine:
        try:
            basic.load_theory(name)
        except Exception as e:
            ctx.count('lib_theory_load_failed')
            continue
        for tname, th in list(theory.thy.get_data('theorems').items()):
            if rng.random() > spec['frac']:
                continue
            try:
                hy, pr = S.thm_shadow(th)
            except Exception:
                continue
            if hy or not term_ok(pr):
                ctx.count('lib_skipped')
                continue
            ctx.count('library_statements')
            res = roundtrip_term(ctx, pr, [(False, None, False), (True, None, False), (True, 30, False), (False, 80, True)])
            bad = [r for r in res if r[1] is not None]
            ctx.count('roundtrips_ok', len(res) - len(bad))
            if bad:
                judge_term(ctx, pr, 'library:%s.%s' % (name, tname))
            ctx.case(('lib', name, tname), nontrivial=True)


def run_shard(ctx, spec):
    setup()
    if 'replay' in spec:
        w = spec['replay']['witness']
        if w.get('kind') == 'term':
            s = S.from_json(w['term'])
            judge_term(ctx, s, 'replay')
            ctx.case('replay', sample=S.tm_str(s, True))
        elif w.get('kind') == 'memo':
            memo_differential(ctx, S.from_json(w['term']))
            ctx.case('replay')
        else:
            ctx.note('replay for kind %s: re-run the shard with the same seed' % w.get('kind'))
            ctx.case('replay')
        return
    if spec['kind'] == 'gen':
        run_gen(ctx, spec)
    else:
        run_lib(ctx, spec)
