"""C19 - every step of the symbolic integration calculator preserves the value of the expression.

Monitor boundary: eval(e, ctx) of every integral.rules.Rule subclass (wrapped from here through
Rule.__subclasses__(), recursively, so nested calls made by OnLocation / OnSubterm / FullSimplify /
Equation ... are seen too): input expression (snapshot taken BEFORE the call - IntegrationByParts mutates
its argument), the context's conditions / definitions / substitutions, output expression.

Oracle: vf.oracle_c19_numeric - an mpmath evaluator of shadows of integral.expr trees (quad, limit, nsum,
diff) at 30 digits with a 60-digit cross-check, at random parameter values that satisfy the context's
conditions.  Antiderivatives are compared through their derivatives.  Equations are compared through their
residual.  Additional direct checks: poly.normalize idempotent + value preserving, rules.deriv vs mpmath.diff,
interval bounds enclose sampled values, parse_expr(str(e)) == e.

Workloads: (R) every recorded step of integral/examples/*.json re-executed read-only, (G) generated
integrands with generated rule parameters, (A) auxiliary direct checks, (I) every identity of the book files that
carries side conditions, applied by every rule that can apply it in contexts establishing all / each proper subset /
the negation of exactly one of its conditions (parameter values drawn from the context, not from the identity).
"""
import os, io, json, contextlib, traceback
from fractions import Fraction
from vf import oracle_c19_numeric as O
from vf.core import h64

ID = 'C19'
LEVEL = 'exploration'
RULE = ('case = one top-level rule application rule.eval(e, ctx): (R) a recorded step of integral/examples/*.json '
        're-executed on the recorded previous expression with the file context, (G) a generated integrand '
        '(polynomial, rational, trigonometric, exp/log, symbolic power, nested, improper) with generated rule '
        'parameters, (A) one direct normalize / deriv / bounds / print-parse check; distinct = hash of (rule '
        'class, parameters, input shadow, conditions); non-trivial = the rule did not raise and its output '
        'differs structurally from its input')
ASSUMPTIONS = ['real-valued semantics: a parameter draw at which the input expression has no real value is redrawn; '
               'odd roots of negatives, acot of negatives, 0^0 are treated as convention dependent (never decided)',
               'a case is decided only when the 30- and 60-digit evaluations agree (1e-8 relative); held: difference <= '
               '10 x error estimate; violated: difference > 1e4 x error estimate and > 1e-7 relative at two admissible '
               'parameter draws (expressions without parameters: the two precisions play the role of the two draws)',
               'a draw at which the OUTPUT has no real value (log / even root of a negative number, division by exact zero) lies '
               'outside the domain where both sides are real: such a call is counted inconclusive (output-outside-real-domain), '
               'never held and never violated (principal-value conventions are not second-guessed)',
               'limits: geometric sampling at doubled precision, accepted on direct convergence or on three agreeing Aitken '
               'extrapolants; infinite sums: mpmath.nsum cross-checked against partial sums; LIM t->oo INT x:[a,t] f is evaluated '
               'as the improper integral; everything else is counted inconclusive, never held',
               'expressions without integrals / limits / sums / derivatives are compared at >= 5 draws (identities valid on a part '
               'of the domain only), the others at >= 2',
               'blame: when a top-level call is violated its nested non-identity calls are judged on demand and the innermost '
               'violated call gives the mechanism key',
               'variables named n, m, k, summation indices and arguments of factorial / binom are drawn as integers',
               'user defined functions are unfolded from the FuncDefs visible in the context; lemmas used by '
               'ApplyEquation / ApplyInductHyp are premises: a draw at which the lemma is not numerically valid cannot convict',
               'the context passed to a rule is not mutated by the rule (conditions are read when the call returns)']
REQUIRED = {'quick': {'recorded_steps_executed': 1100, 'api_redo_steps': 150, 'api_go_back_discards_a_substitution': 20, 'top_calls_judged': 1500, 'top_held': 1100, 'inner_calls_judged': 500,
                      'gen_cases': 300, 'judged:Substitution': 100, 'judged:IntegrationByParts': 40, 'judged:FullSimplify': 400,
                      'judged:Equation': 150, 'judged:SplitRegion': 25, 'judged:ExpandPolynomial': 25, 'judged:Linearity': 25,
                      'judged:SubstitutionInverse': 25, 'judged:ApplyIdentity': 100, 'judged:DefiniteIntegralIdentity': 100,
                      'aux_normalize_checked': 100, 'aux_deriv_checked': 100, 'aux_bounds_checked': 80,
                      'aux_bounds_samples': 10000, 'aux_printparse_checked': 500, 'oracle_calibration_ok': 1,
                      'idcond_cases': 250, 'idcond_multi_condition_identities': 15, 'idcond_rewritten:all': 50,
                      'idcond_context:subset': 80, 'idcond_context:negated': 60, 'judged:SimplifyIdentity': 20},
            'thorough': {'recorded_steps_executed': 1100, 'api_redo_steps': 1500, 'api_go_back_discards_a_substitution': 200, 'top_calls_judged': 5000, 'top_held': 3500, 'inner_calls_judged': 2000,
                         'gen_cases': 15000, 'judged:Substitution': 500, 'judged:IntegrationByParts': 200,
                         'judged:FullSimplify': 1500, 'judged:Equation': 300, 'judged:SplitRegion': 100,
                         'judged:ExpandPolynomial': 100, 'judged:Linearity': 100, 'judged:SubstitutionInverse': 100,
                         'judged:ApplyIdentity': 200, 'judged:DefiniteIntegralIdentity': 200,
                         'aux_normalize_checked': 1000, 'aux_deriv_checked': 1000, 'aux_bounds_checked': 800,
                         'aux_bounds_samples': 100000, 'aux_printparse_checked': 5000, 'oracle_calibration_ok': 1,
                         'idcond_cases': 250, 'idcond_multi_condition_identities': 15, 'idcond_rewritten:all': 50,
                         'idcond_context:subset': 80, 'idcond_context:negated': 60, 'judged:SimplifyIdentity': 20}}
SHARD_TIMEOUT = {'quick': 300, 'thorough': 3600}

BOOKS = ['base', 'tongji', 'UCDavis', 'MIT', 'interesting']
WRAPPERS = ('OnLocation', 'OnSubterm')
MUTATORS = ('IntegrationByParts',)      # rules known to modify their argument in place


def quiet():
    return contextlib.redirect_stdout(io.StringIO())


# =========================================================================================== monitor
class Frame:
    __slots__ = ('cls', 'rule', 'e', 'e_sh', 'o_sh', 'out_str', 'ctx', 'depth', 'child_viol', 'children', 'driver',
                 'verdict', 'jctx', 'tsub')


class Monitor:
    """wrappers on Rule.eval of every subclass; judges calls when they return."""

    def __init__(self, vctx, budget=600000, inner_cap=6, max_draws=4, judge_inner=True, per_eval=None):
        self.v = vctx
        self.per_eval = per_eval or budget // 5
        self.draw_base = vctx.rng.getrandbits(62)     # parameter draws: seeded per (driver chain, variables, conditions)
        self.stack = []
        self.seen = set()
        self.budget = budget
        self.inner_cap = inner_cap
        self.max_draws = max_draws
        self.judge_inner = judge_inner
        self.driver = None           # replay descriptor of the current top-level call
        self.inner_judged = 0
        self.classes = []
        self.enabled = True
        self.last = None             # verdict of the last top-level call
        self.defs_cache = {}
        self.judged_per_class = {}
        self.inner_class_quota = 25
        # API histories: the substitutions in force according to the steps that are still part of the calculation
        # (computed by the harness); when set, calls are judged against these, not against the context the
        # implementation assembled for the call
        self.true_substs = None

    # ---- installation
    def install(self):
        from integral import rules

        def all_sub(c):
            out = []
            for s in c.__subclasses__():
                out.append(s)
                out.extend(all_sub(s))
            return out
        subs = list(dict.fromkeys(all_sub(rules.Rule)))
        for cls in subs:
            self.classes.append(cls.__name__)
            self.v.count('class_exists:' + cls.__name__)
            if 'eval' in cls.__dict__ and not getattr(cls.__dict__['eval'], '_vf_wrapped', False):
                setattr(cls, 'eval', self.wrap(cls, cls.__dict__['eval']))
        self.v.count('rule_classes_wrapped', len(subs))

    def wrap(self, cls, orig):
        mon = self
        name = cls.__name__

        def eval(self_, e, ctx):
            if not mon.enabled:
                return orig(self_, e, ctx)
            fr = mon.enter(name, self_, e, ctx)
            try:
                out = orig(self_, e, ctx)
            except BaseException as ex:
                mon.exit_raise(fr, ex)
                raise
            mon.exit(fr, out)
            return out
        eval._vf_wrapped = True
        eval._vf_orig = orig
        return eval

    # ---- events
    def enter(self, name, rule, e, ctx):
        fr = Frame()
        fr.cls, fr.rule, fr.ctx, fr.e = name, rule, ctx, e
        fr.depth = len(self.stack)
        fr.child_viol = False
        fr.children = []
        fr.driver = self.driver
        fr.tsub = self.true_substs
        fr.verdict = None
        fr.e_sh = fr.o_sh = fr.out_str = fr.jctx = None
        if fr.depth == 0 or name in MUTATORS:
            # snapshot BEFORE the call (IntegrationByParts normalises e.body in place); other inner calls are
            # snapshotted when they return, and only if they return a different object
            try:
                fr.e_sh = O.to_shadow(e)
            except Exception:
                fr.e_sh = None
        if fr.depth == 0:
            self.inner_judged = 0
        self.stack.append(fr)
        self.v.count('calls:' + name)
        if fr.depth == 0:
            self.v.count('top_calls')
        return fr

    def exit_raise(self, fr, ex):
        self.stack.pop()
        self.v.count('raised:' + fr.cls)
        if fr.depth == 0:
            self.v.count('top_raised')
            self.last = {'verdict': 'raised', 'exc': type(ex).__name__ + ': ' + str(ex)[:120]}

    def exit(self, fr, out):
        self.stack.pop()
        parent = self.stack[-1] if self.stack else None
        top = fr.depth == 0
        if out is fr.e and fr.e_sh is None:
            self.v.count('identity:' + fr.cls)
            return
        try:
            if fr.e_sh is None:
                fr.e_sh = O.to_shadow(fr.e)
            fr.o_sh = O.to_shadow(out)
        except Exception:
            self.v.count('not_shadowable:' + fr.cls)
            if top:
                self.last = {'verdict': 'inconclusive', 'reason': 'not shadowable'}
            return
        fr.e = None
        if fr.o_sh == fr.e_sh:
            self.v.count('identity:' + fr.cls)
            if top:
                self.last = {'verdict': 'identity', 'out_sh': fr.o_sh}
            return
        self.v.count('changed:' + fr.cls)
        try:
            fr.out_str = str(out)
        except Exception:
            fr.out_str = O.show(fr.o_sh)
        if parent is not None:
            parent.children.append(fr)
        if fr.child_viol:
            self.v.count('downstream_of_inner_violation:' + fr.cls)
            fr.verdict = {'verdict': 'downstream'}
            if parent is not None:
                parent.child_viol = True
        elif top:
            fr.verdict = self.judge_call(fr, True)
            if fr.verdict['verdict'] == 'violated':
                culprit = self.find_culprit(fr)
                self.report(culprit if culprit is not None else fr, top=fr)
                if culprit is not None:
                    self.v.count('top_violation_blamed_on_inner:' + culprit.cls)
        elif self.judge_inner and fr.cls not in WRAPPERS and self.inner_judged < self.inner_cap and (
                self.judged_per_class.get(fr.cls, 0) < self.inner_class_quota or self.v.rng.random() < 0.1):
            # sampled judging of inner calls (coverage of the small rules FullSimplify is made of)
            fr.verdict = self.judge_call(fr, False)
            if fr.verdict is not None and fr.verdict['verdict'] == 'violated':
                culprit = self.find_culprit(fr)
                self.report(culprit if culprit is not None else fr, top=self.stack[0] if self.stack else None)
                if parent is not None:
                    parent.child_viol = True
        if top:
            self.last = dict(fr.verdict or {'verdict': 'skipped'})
            self.last['out_sh'] = fr.o_sh

    def find_culprit(self, fr):
        """innermost violated call below a violated call (children are judged on demand, in call order)"""
        for ch in fr.children:
            if ch.verdict is None:
                ch.verdict = self.judge_call(ch, False, force=True) or {'verdict': 'skipped'}
            if ch.verdict.get('verdict') == 'violated':
                deeper = self.find_culprit(ch)
                return deeper if deeper is not None else ch
            if ch.verdict.get('verdict') in ('inconclusive', 'downstream', 'skipped'):
                deeper = self.find_culprit(ch)
                if deeper is not None:
                    return deeper
        return None

    # ---- context reading
    def ctx_info(self, fr):
        ctx, rule = fr.ctx, fr.rule
        conds, defs, deps, prem = [], {}, {}, []
        try:
            for c in ctx.get_conds().data:
                try:
                    conds.append(O.to_shadow(c))
                except Exception:
                    pass
        except Exception:
            pass
        try:
            idents = ctx.get_definitions()
        except Exception:
            idents = []
        key = tuple(id(i) for i in idents)
        if key in self.defs_cache:
            defs, vdefs = self.defs_cache[key]
        else:
            defs, vdefs = {}, {}
            for idn in idents:
                try:
                    lhs, rhs = sym_to_var(O.to_shadow(idn.lhs)), sym_to_var(O.to_shadow(idn.rhs))
                except Exception:
                    continue
                if lhs[0] == 'f' and all(a[0] == 'v' for a in lhs[2]):
                    defs[lhs[1]] = ([a[1] for a in lhs[2]], rhs)
                elif lhs[0] == 'v':
                    vdefs[lhs[1]] = rhs
            self.defs_cache[key] = (defs, vdefs)
        deps.update(vdefs)
        try:
            for k, ex in (fr.tsub if fr.tsub is not None else ctx.get_substs()).items():
                deps[str(k)] = O.to_shadow(ex)
        except Exception:
            pass
        r = rule
        while hasattr(r, 'rule'):
            r = r.rule
        rn = type(r).__name__
        if rn == 'Substitution':
            try:
                deps[str(r.var_name)] = O.to_shadow(r.var_subst)
            except Exception:
                pass
        if rn == 'ApplyEquation':
            try:
                prem.append(O.to_shadow(r.eq))
            except Exception:
                pass
        if rn == 'IntegrateByEquation':
            try:
                prem.append(('op', '=', O.to_shadow(r.lhs), fr.e_sh))
            except Exception:
                pass
        if rn == 'ApplyInductHyp':
            try:
                for h in ctx.get_induct_hyps():
                    prem.append(('op', '=', O.to_shadow(h.lhs), O.to_shadow(h.rhs)))
            except Exception:
                pass
        return conds, defs, deps, prem

    # ---- judging one call
    def judge_call(self, fr, top, force=False):
        v = self.v
        conds, defs, deps, prem = self.ctx_info(fr)
        o_sh = fr.o_sh
        pdesc = rule_desc(fr.rule)
        key = h64((fr.cls, json.dumps(pdesc, sort_keys=True, default=str), fr.e_sh, tuple(conds)))
        if not top and not force:
            if key in self.seen:
                v.count('inner_dedup')
                return None
            self.inner_judged += 1
        self.seen.add(key)
        drv = fr.driver or {}
        chain_id = (drv.get('kind'), drv.get('file'), drv.get('item'), drv.get('calc'), drv.get('case'))
        fvkey = tuple(sorted(set(O.free_vars(fr.e_sh)) | set(O.free_vars(o_sh))))
        import random
        rng = random.Random(h64((self.draw_base, chain_id, fvkey, tuple(conds))))
        try:
            res = O.judge(fr.e_sh, o_sh, conds, defs, deps, rng, budget=self.budget,
                          max_draws=self.max_draws, premises=prem, per_eval=self.per_eval)
        except RecursionError:
            res = {'verdict': 'inconclusive', 'reason': 'oracle recursion limit', 'draws': []}
        except Exception as ex:                      # an oracle bug must never become a verdict
            res = {'verdict': 'inconclusive', 'reason': 'oracle error ' + type(ex).__name__, 'draws': []}
            v.note('oracle error: ' + traceback.format_exc()[-600:])
        lvl = 'top' if top else 'inner'
        vd = res['verdict']
        v.count('%s_calls_judged' % lvl)
        v.count('judged:' + fr.cls)
        self.judged_per_class[fr.cls] = self.judged_per_class.get(fr.cls, 0) + 1
        v.count('oracle_nodes', res.get('nodes', 0))
        if vd == 'held':
            v.count(lvl + '_held')
            v.count('held:' + fr.cls)
        elif vd == 'inconclusive':
            v.count(lvl + '_inconclusive')
            v.count('inconclusive:' + fr.cls)
            v.count('inconclusive_reason:' + reason_class(res.get('reason', '')))
        else:
            v.count(lvl + '_violated')
            v.count('violated:' + fr.cls)
        fr.jctx = (conds, defs, deps, rng, pdesc, lvl)
        return res

    def report(self, fr, top=None):
        res = fr.verdict
        conds, defs, deps, rng, pdesc, lvl = fr.jctx
        mech, extra = classify(fr, res, fr.o_sh, conds, defs, deps, rng, self.budget)
        if top is not None and top is not fr:
            # the violated call was made on behalf of another rule: an inner rule that is unsound when called
            # directly (a recorded finding) is one thing, a composite rule that lets it loose on its input another
            r_ = top.rule
            while hasattr(r_, 'rule'):
                r_ = r_.rule
            tcls = type(r_).__name__
            # (the normaliser `Simplify` is part of nearly every composite rule: its recorded findings keep their key)
            ri = fr.rule
            while hasattr(ri, 'rule'):
                ri = ri.rule
            if tcls != fr.cls and tcls != type(ri).__name__ and fr.cls != 'Simplify' and not mech.startswith(tcls):
                mech = tcls + '>' + mech
        desc = '%s.eval(%s)%s -> %s : %s; draws %s' % (
            fr.cls, O.show(fr.e_sh)[:160], (' under ' + ', '.join(O.show(c) for c in conds)[:120]) if conds else '',
            (fr.out_str or '')[:160], extra or res.get('what'),
            json.dumps([{k: d.get(k) for k in ('env', 'before', 'after', 'reason') if d.get(k) is not None}
                        for d in res['draws'] if d.get('status') == 'V'][:2])[:400])
        self.v.violation(mech, desc, {'driver': fr.driver, 'rule_class': fr.cls, 'rule': pdesc, 'level': lvl,
                                      'input': O.jsonable(fr.e_sh), 'input_str': O.show(fr.e_sh),
                                      'conds': [O.show(c) for c in conds], 'output_str': fr.out_str,
                                      'output': O.jsonable(fr.o_sh), 'oracle': res})


def sym_to_var(t):
    """pattern symbols of a definition become ordinary variables."""
    return O.map_shadow(t, lambda x: ('v', x[1]) if x[0] == 'sym' else x)


def reason_class(r):
    r = r or ''
    for pat, name in (('budget', 'budget'), ('unstable', 'precisions-disagree'), ('limit', 'limit-extrapolation'),
                      ('nsum', 'sum-extrapolation'), ('undefined symbol', 'undefined-symbol'),
                      ('unbound variable', 'unbound-variable'), ('no admissible', 'no-admissible-draw'),
                      ('convention', 'convention-dependent'), ('premise', 'premise-not-valid'),
                      ('input equation', 'input-equation-not-valid'), ('input not evaluable', 'input-not-evaluable'),
                      ('output not evaluable', 'output-not-evaluable'), ('outside the real domain', 'output-outside-real-domain'), ('error band', 'error-band'),
                      ('Skolem', 'skolem'), ('differentiation variable', 'no-diff-variable'),
                      ('mismatch', 'equation-term-mismatch'), ('inequality', 'inequality'),
                      ('pattern', 'pattern-symbol'), ('oracle', 'oracle-error')):
        if pat in r:
            return name
    return 'other'


def rule_desc(rule):
    """JSON-able description of a rule object sufficient to rebuild it (mk_rule)."""
    name = type(rule).__name__
    if name == 'OnLocation':
        d = rule_desc(rule.rule)
        return {'name': 'OnLocation', 'loc': str(rule.loc), 'rule': d}
    if name == 'OnSubterm':
        return {'name': 'OnSubterm', 'rule': rule_desc(rule.rule)}
    d = {'name': name}

    def sh(x):
        return O.jsonable(O.to_shadow(x))
    try:
        if name in ('Substitution', 'SubstitutionInverse'):
            d.update(var_name=rule.var_name, var_subst=sh(rule.var_subst))
        elif name == 'IntegrationByParts':
            d.update(u=sh(rule.u), v=sh(rule.v))
        elif name == 'Equation':
            d.update(old_expr=None if rule.old_expr is None else sh(rule.old_expr), new_expr=sh(rule.new_expr))
        elif name == 'ApplyEquation':
            d.update(eq=sh(rule.eq))
        elif name == 'SplitRegion':
            d.update(c=sh(rule.c))
        elif name == 'IntegrateByEquation':
            d.update(lhs=sh(rule.lhs))
        elif name == 'ElimInfInterval':
            d.update(a=sh(rule.a), new_var=rule.new_var)
        elif name in ('ExpandDefinition', 'FoldDefinition'):
            d.update(func_name=rule.func_name)
        elif name == 'LimitEquation':
            d.update(var=rule.var, lim=sh(rule.lim))
        elif name == 'DerivEquation':
            d.update(var=rule.var)
        elif name == 'SolveEquation':
            d.update(solve_for=sh(rule.solve_for))
        elif name == 'VarSubsOfEquation':
            d.update(subst=[{'var': it['var'], 'expr': None if it['expr'] is None else sh(it['expr'])}
                            for it in rule.subst])
        elif name == 'ApplyIdentity':
            d.update(source=sh(rule.source), target=sh(rule.target))
        elif name == 'SeriesExpansionIdentity':
            d.update(old_expr=None if rule.old_expr is None else sh(rule.old_expr), index_var=rule.index_var)
    except Exception as ex:
        d['desc_error'] = type(ex).__name__
    return d


def mk_rule(d):
    from integral import rules as R

    def ex(j):
        return None if j is None else O.from_shadow(O.from_json(j))
    n = d['name']
    if n == 'OnLocation':
        return R.OnLocation(mk_rule(d['rule']), d['loc'])
    if n == 'OnSubterm':
        return R.OnSubterm(mk_rule(d['rule']))
    if n in ('Substitution', 'SubstitutionInverse'):
        return getattr(R, n)(d['var_name'], ex(d['var_subst']))
    if n == 'IntegrationByParts':
        return R.IntegrationByParts(ex(d['u']), ex(d['v']))
    if n == 'Equation':
        return R.Equation(ex(d.get('old_expr')), ex(d['new_expr']))
    if n == 'ApplyEquation':
        return R.ApplyEquation(ex(d['eq']))
    if n == 'SplitRegion':
        return R.SplitRegion(ex(d['c']))
    if n == 'IntegrateByEquation':
        return R.IntegrateByEquation(ex(d['lhs']))
    if n == 'ElimInfInterval':
        return R.ElimInfInterval(ex(d['a']), d.get('new_var', 't'))
    if n in ('ExpandDefinition', 'FoldDefinition'):
        return getattr(R, n)(d['func_name'])
    if n == 'LimitEquation':
        return R.LimitEquation(d['var'], ex(d['lim']))
    if n == 'DerivEquation':
        return R.DerivEquation(d['var'])
    if n == 'SolveEquation':
        return R.SolveEquation(ex(d['solve_for']))
    if n == 'VarSubsOfEquation':
        return R.VarSubsOfEquation([{'var': it['var'], 'expr': ex(it['expr'])} for it in d['subst']])
    if n == 'ApplyIdentity':
        return R.ApplyIdentity(ex(d['source']), ex(d['target']))
    if n == 'SeriesExpansionIdentity':
        return R.SeriesExpansionIdentity(old_expr=ex(d.get('old_expr')), index_var=d.get('index_var', 'n'))
    if n == 'IntegralEquation':
        return R.IntegralEquation()
    return getattr(R, n)()


# =========================================================================================== classifier
def classify(fr, res, o_sh, conds, defs, deps, rng, budget):
    """mechanism key '<rule class>:<what went wrong>' (+ human readable detail)."""
    from mpmath import mp, mpf
    what = res.get('what') or 'value-changed'
    cls = fr.cls
    rule = fr.rule
    inner = rule
    while hasattr(inner, 'rule'):
        inner = inner.rule
    icls = type(inner).__name__
    if cls in WRAPPERS:
        cls = '%s(%s)' % (cls, icls)
    extra = None
    e = fr.e_sh
    idn = (fr.driver or {}).get('identity')
    if idn and idn.get('context_kind') != 'all':
        # the workload applied an identity in a context that does not establish all of its side conditions
        try:
            from vf import oracle_c19_gen as G
            bad = G.identity_conds_false_at(res.get('draws', []), idn.get('conds', []), defs)
        except Exception:
            bad = []
        if bad:
            return (icls if fr.cls in WRAPPERS else fr.cls) + ':identity-applied-without-its-side-condition', \
                'identity %s requires %s; context (%s) does not give %s and it is false at the draws' % (
                    idn.get('expr'), idn.get('conds'), idn.get('context_kind'), bad)
    try:
        if icls in ('Substitution', 'SubstitutionInverse') and what in ('value-changed', 'sign-flipped'):
            # locate the integral the rule worked on and look at the monotonicity of the substitution
            integ = e if e[0] == 'I' else next((s for s in O.subterms(e) if s[0] == 'I'), None)
            g = O.to_shadow(inner.var_subst)
            if integ is not None:
                var = integ[1] if icls == 'Substitution' else inner.var_name
                rng_src = integ if icls == 'Substitution' else (o_sh if o_sh[0] == 'I' else next(
                    (s for s in O.subterms(o_sh) if s[0] == 'I'), None))
                mono = None
                if rng_src is not None:
                    mono = monotonicity(g, var, rng_src[2], rng_src[3], conds, defs, rng)
                if mono == 'non-monotone':
                    return cls + ':non-monotone-substitution-accepted', 'substitution %s is not monotone on the range' % O.show(g)
                if mono == 'discontinuous':
                    return cls + ':discontinuous-substitution-accepted', 'substitution %s has a pole inside the range' % O.show(g)
                if mono in ('increasing', 'decreasing'):
                    wide = monotonicity(g, var, ('c', -7, 1), ('c', 7, 1), conds, defs, rng)
                    if wide == 'non-monotone':
                        return cls + ':inverse-branch-ignores-range', \
                            'substitution %s is %s on the range but not injective globally; the solved inverse is for the other branch' % (O.show(g), mono)
                if what == 'sign-flipped':
                    return cls + ':sign-lost' + ('-on-reversed-bounds' if mono == 'decreasing' else ''), \
                        'substitution %s is %s' % (O.show(g), mono)
                if mono:
                    extra = 'substitution %s is %s' % (O.show(g), mono)
        if icls == 'Substitution' and what == 'derivative-differs':
            g = O.to_shadow(inner.var_subst)
            ii = e if e[0] == 'II' else next((s for s in O.subterms(e) if s[0] == 'II'), None)
            if ii is not None and monotonicity(g, ii[1], ('c', -7, 1), ('c', 7, 1), conds, defs, rng) == 'non-monotone':
                return cls + ':inverse-branch-ignores-range', \
                    'substitution %s is not injective; the antiderivative in the new variable is right on one branch only' % O.show(g)
        if icls == 'DerivIntExchange' and e[0] == 'I' and e[4][0] == 'D' and e[4][1] == e[1]:
            return cls + ':differentiation-variable-is-the-integration-variable', None
        if icls == 'DerivIntExchange' and what == 'value-changed':
            d = e if e[0] == 'D' else None
            if d is not None and d[2][0] == 'I' and (d[1] in O.free_vars(d[2][2]) or d[1] in O.free_vars(d[2][3])):
                return cls + ':bounds-depend-on-differentiation-variable', 'Leibniz boundary terms are dropped'
        if icls == 'IntegrationByParts' and what == 'value-changed' and e[0] == 'I':
            u, v_ = O.to_shadow(inner.u), O.to_shadow(inner.v)
            uv = ('E', e[1], e[2], e[3], ('op', '*', u, v_))
            r2 = O.judge(('op', '-', e, uv), o_sh, conds, defs, deps, rng, budget=budget, max_draws=3)
            if r2['verdict'] == 'held':
                return cls + ':boundary-term-dropped', 'output + [u*v] equals the input'
        if icls == 'Simplify' and fr.cls == 'Simplify':
            from vf import oracle_c19_gen as G
            cul = G.normalize_culprit(e, fr.ctx.get_conds(), conds, rng, budget, budget // 5)
            if cul is not None:
                return '%s:%s@%s' % (cls, cul[1] or what, cul[0]), 'smallest failing subterm: %s -> %s' % (
                    O.show(cul[2])[:80], O.show(cul[3])[:80])
        if fr.cls == 'DerivativeSimplify' and e[0] == 'D':
            from vf import oracle_c19_gen as G
            head = G.deriv_culprit(e[2], e[1], fr.ctx, conds, rng, budget, budget // 5)
            if head:
                return cls + ':wrong-derivative-of-' + head, None
        if icls == 'LHopital':
            return cls + ':applied-to-non-indeterminate-form', None
        if icls == 'ReplaceSubstitution':
            # the recorded finding: a substitution variable is ALSO the bound variable of a binder inside the expression
            binders = set(t[1] for t in O.subterms(e) if t[0] in ('II', 'I', 'S', 'L', 'E') and isinstance(t[1], str))
            tsub = getattr(fr, 'tsub', None)
            svars = set(str(k) for k in tsub) if tsub is not None else set(str(k) for k in fr.ctx.get_substs())
            if binders & svars:
                return cls + ':bound-variable-substituted', 'Expr.subst replaces the integration variable inside its own binder'
            if tsub is not None:
                return cls + ':result-depends-on-steps-that-were-discarded', 'judged against the substitutions of the steps still in the calculation: ' + \
                    ', '.join('%s = %s' % (k, v) for k, v in tsub.items())
    except Exception:
        pass
    return cls + ':' + what, extra


def monotonicity(g, var, lo, hi, conds, defs, rng):
    """sign pattern of dg/dvar on (lo, hi) at admissible parameter values: increasing/decreasing/non-monotone/None."""
    from mpmath import mp, mpf
    try:
        with mp.workdps(30):
            fvs = [v for v in O.free_vars(g) + O.free_vars(lo) + O.free_vars(hi) if v != var]
            env = O.draw_env(list(dict.fromkeys(fvs)), list(conds), rng, defs, ())
            if env is None:
                return None
            ev = O.Ev(defs, 50000)
            a, b = ev.bound_value(lo, env), ev.bound_value(hi, env)
            if a > b:
                a, b = b, a
            if mp.isinf(a):
                a = min(b, 0) - 50
            if mp.isinf(b):
                b = max(a, 0) + 50
            signs = set()
            prev = None
            jumps = 0
            for i in range(1, 60):
                x = a + (b - a) * i / 60
                env2 = dict(env)
                env2[var] = x
                try:
                    d = ev.ev(('D', var, g), env2)
                    gv = ev.ev(g, env2)
                except O.NotEvaluable:
                    continue
                if abs(d) > mpf('1e-12'):
                    signs.add(1 if d > 0 else -1)
                    if prev is not None and (gv - prev) * d < 0:
                        jumps += 1          # the function moved against its own slope: a pole in between
                prev = gv
            if jumps and len(signs) == 1:
                return 'discontinuous'
            if signs == {1}:
                return 'increasing'
            if signs == {-1}:
                return 'decreasing'
            if signs == {1, -1}:
                return 'non-monotone'
    except Exception:
        return None
    return None


# =========================================================================================== recorded workload
def example_files():
    from vf.core import REPO
    ex = os.path.join(REPO, 'integral', 'examples')
    path2book = {}
    for b in BOOKS:
        with open(os.path.join(ex, b + '.json'), encoding='utf-8') as f:
            d = json.load(f)
        for it in d.get('content', []):
            if 'path' in it:
                path2book.setdefault(it['path'], b)
    # files that no book lists: the book used by the repo's own test that generated the file (read as data, never run)
    test_books = {}
    try:
        import re
        with open(os.path.join(REPO, 'integral', 'tests', 'integral_test.py'), encoding='utf-8') as f:
            for m in re.finditer(r'CompFile\(\s*["\'](\w+)["\']\s*,\s*["\'](\w+)["\']\s*\)', f.read()):
                test_books.setdefault(m.group(2), m.group(1))
    except Exception:
        pass
    files = []
    for fn in sorted(os.listdir(ex)):
        if not fn.endswith('.json'):
            continue
        n = fn[:-5]
        if n in BOOKS or n == 'index':
            continue
        with open(os.path.join(ex, fn), encoding='utf-8') as f:
            d = json.load(f)
        if not isinstance(d, dict) or 'content' not in d:
            continue
        nsteps = json.dumps(d).count('"CalculationStep"')
        book = path2book.get(n) or test_books.get(n) or path2book.get(n[0].lower() + n[1:]) or 'interesting'
        files.append((n, book, nsteps, len(d['content'])))
    # older-format problem collections in sub-directories: not parseable by compstate.parse_item
    old = 0
    for sub in sorted(os.listdir(ex)):
        p = os.path.join(ex, sub)
        if os.path.isdir(p):
            for fn in sorted(os.listdir(p)):
                if fn.endswith('.json'):
                    try:
                        with open(os.path.join(p, fn), encoding='utf-8') as f:
                            d = json.load(f)
                        old += len(d['content']) if isinstance(d, dict) and 'content' in d else len(d)
                    except Exception:
                        old += 1
    return files, old


def walk_calcs(item, out):
    from integral import compstate as C
    if isinstance(item, C.Calculation):
        out.append(item)
    elif isinstance(item, C.Goal):
        if item.proof is not None:
            walk_calcs(item.proof, out)
        for g in item.sub_goals:
            walk_calcs(g, out)
    elif isinstance(item, C.CalculationProof):
        walk_calcs(item.lhs_calc, out)
        walk_calcs(item.rhs_calc, out)
    elif isinstance(item, C.InductionProof):
        walk_calcs(item.base_case, out)
        walk_calcs(item.induct_case, out)
    elif isinstance(item, C.CaseProof):
        walk_calcs(item.case_1, out)
        walk_calcs(item.case_2, out)
    elif isinstance(item, C.RewriteGoalProof):
        out.append(item.begin)


def run_recorded(vctx, mon, names, only=None):
    """re-execute the recorded steps of the given example files (read-only)."""
    from vf.core import REPO
    from integral import compstate
    from integral.context import Context
    ex = os.path.join(REPO, 'integral', 'examples')
    files, _ = example_files()
    books = {n: b for n, b, _, _ in files}
    for n in names:
        with open(os.path.join(ex, n + '.json'), encoding='utf-8') as f:
            d = json.load(f)
        try:
            with quiet():
                file = compstate.CompFile(books.get(n, 'interesting'), n)
        except Exception as e:
            vctx.count('recorded_file_failed')
            vctx.note('file %s: %s' % (n, e))
            continue
        vctx.count('recorded_files')
        for ii, raw in enumerate(d['content']):
            try:
                with quiet():
                    it = compstate.parse_item(file, raw)
                file.add_item(it)
            except Exception as e:
                vctx.count('recorded_items_not_parsed')
                continue
            vctx.count('recorded_items_parsed')
            calcs = []
            walk_calcs(it, calcs)
            for ci, c in enumerate(calcs):
                for si, st in enumerate(c.steps):
                    if only is not None and (ii, ci, si) != tuple(only):
                        continue
                    e = c.start if si == 0 else c.steps[si - 1].res
                    ctx = Context(c.ctx)
                    for s in c.steps[:si]:
                        ctx.extend_substs(s.rule.get_substs())
                    mon.driver = {'kind': 'recorded', 'file': n, 'item': ii, 'calc': ci, 'step': si}
                    mon.last = None
                    vctx.count('recorded_steps_executed')
                    try:
                        with quiet():
                            res = st.rule.eval(e, ctx)
                    except Exception as ex_:
                        vctx.count('recorded_steps_raised')
                        vctx.case(('rec', n, ii, ci, si), nontrivial=False)
                        continue
                    same = False
                    try:
                        same = (res == st.res)
                    except Exception:
                        pass
                    vctx.count('recorded_same_as_file' if same else 'recorded_differs_from_file')
                    last = mon.last or {}
                    nontriv = last.get('verdict') not in (None, 'identity', 'raised')
                    vctx.case(('rec', n, ii, ci, si), nontrivial=nontriv,
                              sample=('%s: %s  --[%s]-->  %s  : %s' % (n, str(e)[:80], str(st.rule)[:60], str(res)[:80],
                                                                       last.get('verdict'))) if si == 0 and ii < 1 else None)


# =========================================================================================== API histories
GEN_HISTORY_FUNS = ('cos', 'sin', 'exp')


def gen_history(rng):
    """the calculation of two integrals that reuse one substitution variable (start text, list of rule makers)"""
    from integral import rules, parser
    f, g = rng.choice(GEN_HISTORY_FUNS), rng.choice(GEN_HISTORY_FUNS)
    a, b, c = rng.choice([2, 3, 4, 5]), rng.choice([0, 1, 2, 3]), rng.choice([2, 3, 4, 5, 6])
    while c == a:
        c = rng.choice([2, 3, 4, 5, 6, 7])
    in1 = '%d * x + %d' % (a, b) if b else '%d * x' % a
    in2 = '%d * x' % c
    var = rng.choice(['u', 't', 'v'])
    var2 = var if rng.random() < 0.8 else rng.choice(['w', 's'])
    start = '(INT x. %s(%s)) + (INT x. %s(%s))' % (f, in1, g, in2)
    mk = [lambda: rules.Substitution(var, parser.parse_expr(in1)),
          lambda: rules.OnLocation(rules.IndefiniteIntegralIdentity(), '0'),
          lambda: rules.ReplaceSubstitution(),
          lambda: rules.Substitution(var2, parser.parse_expr(in2)),
          lambda: rules.OnLocation(rules.IndefiniteIntegralIdentity(), '1'),
          lambda: rules.ReplaceSubstitution(),
          lambda: rules.FullSimplify()]
    return {'start': start, 'n': len(mk), 'desc': [f, in1, g, in2, var, var2]}, mk


def substs_of(steps):
    d = {}
    for st in steps:
        try:
            d.update(st.rule.get_substs())
        except Exception:
            pass
    return d


def drive_history(vctx, mon, calc, rules_list, redo_at, drv):
    """forward through the public API (not judged: the same calls are judged by the recorded / generated workloads),
    then go back to position k and redo from there; every redone step is judged against the substitutions of the
    steps that are still in the calculation.  -> number of redone steps"""
    mon.enabled = False
    fwd = []
    try:
        for r in rules_list:
            try:
                with quiet():
                    calc.perform_rule(r)
            except Exception:
                vctx.count('api_forward_step_raised')
                break
            fwd.append(calc.steps[-1].res)
    finally:
        mon.enabled = True
    vctx.count('api_forward_steps', len(fwd))
    done = 0
    for k in redo_at:
        if k >= len(fwd):
            continue
        vctx.count('api_go_back')
        later = substs_of(calc.steps[k:])
        before = substs_of(calc.steps[:k])
        if any(n in before and str(before[n]) != str(v) for n, v in later.items()) or any(n not in before for n in later):
            vctx.count('api_go_back_discards_a_substitution')
        for j in range(k, len(fwd)):
            mon.driver = dict(drv, redo_from=k, step=j)
            mon.last = None
            try:
                mon.true_substs = substs_of(calc.steps[:j]) if j > k else before
                with quiet():
                    if j == k:
                        # the step is redone from the earlier position: later steps are discarded by the API
                        if k == 0:
                            calc.clear()
                            calc.perform_rule(rules_list[0])
                        elif vctx.rng.random() < 0.5:
                            calc.perform_rule(rules_list[k], k - 1)
                        else:
                            calc.steps[k - 1].perform_rule(rules_list[k])
                    else:
                        calc.perform_rule(rules_list[j])
            except Exception:
                vctx.count('api_redo_raised')
                break
            finally:
                mon.true_substs = None
            done += 1
            vctx.count('api_redo_steps')
            vd = (mon.last or {}).get('verdict')
            vctx.count('api_redo_verdict:%s' % vd)
            same = False
            try:
                same = calc.steps[j].res == fwd[j]
            except Exception:
                pass
            vctx.count('api_redo_same_as_first_time' if same else 'api_redo_differs_from_first_time')
            vctx.case(('api', json.dumps(drv, sort_keys=True, default=str), k, j), nontrivial=vd not in (None, 'identity', 'raised'),
                      sample='%s redo from %d step %d: %s -> %s' % (drv.get('file') or drv.get('gen'), k, j, vd, str(calc.steps[j].res)[:80])
                      if done <= 1 and vctx.evaluations < 3 else None)
    return done


def run_api_recorded(vctx, mon, names, only=None):
    from vf.core import REPO
    from integral import compstate
    ex = os.path.join(REPO, 'integral', 'examples')
    files, _ = example_files()
    books = {n: b for n, b, _, _ in files}
    for n in names:
        with open(os.path.join(ex, n + '.json'), encoding='utf-8') as f:
            d = json.load(f)
        try:
            with quiet():
                file = compstate.CompFile(books.get(n, 'interesting'), n)
        except Exception:
            continue
        for ii, raw in enumerate(d['content']):
            try:
                with quiet():
                    it = compstate.parse_item(file, raw)
                file.add_item(it)
            except Exception:
                continue
            calcs = []
            walk_calcs(it, calcs)
            for ci, c in enumerate(calcs):
                if len(c.steps) < 2:
                    continue
                if only is not None and (ii, ci) != tuple(only[:2]):
                    continue
                try:
                    calc = compstate.Calculation(c.parent, c.ctx, c.start, conds=c.conds,
                                                 connection_symbol=getattr(c, 'connection_symbol', '='))
                except Exception:
                    vctx.count('api_calculation_not_rebuilt')
                    continue
                rl = [st.rule for st in c.steps]
                if only is not None:
                    ks = [only[2]]
                else:
                    # go back to just after a substitution was introduced (the interesting place), else anywhere
                    pref = [k for k in range(1, len(rl)) if substs_of(c.steps[k:]) and vctx.rng.random() < 0.7]
                    ks = [vctx.rng.choice(pref)] if pref else [vctx.rng.randrange(len(rl))]
                vctx.count('api_recorded_calculations')
                drive_history(vctx, mon, calc, rl, ks, {'kind': 'api-recorded', 'file': n, 'item': ii, 'calc': ci})


def run_api_generated(vctx, mon, count, only=None):
    import random
    from integral import compstate
    from integral.context import Context
    ctx = Context()
    with quiet():
        ctx.load_book('base')
    for i in range(count):
        seed = only['seed'] if only else vctx.rng.getrandbits(40)
        rng = random.Random(seed)
        info, mk = gen_history(rng)
        try:
            with quiet():
                file = compstate.CompFile(ctx, 'vf_api_%d' % i)
                calc = file.add_calculation(info['start'])
                rl = [m() for m in mk]
        except Exception as e:
            vctx.count('api_generated_setup_failed:' + type(e).__name__)
            continue
        ks = [only['redo_from']] if only else sorted(rng.sample(range(1, len(rl)), 2))
        vctx.count('api_generated_calculations')
        for k in ks:
            if k != ks[0]:
                with quiet():
                    calc = file.add_calculation(info['start'])
            drive_history(vctx, mon, calc, rl, [k], {'kind': 'api-generated', 'gen': info['desc'], 'seed': seed})


# =========================================================================================== shards
def shards(tier, seed):
    files, _ = example_files()
    nrec = 10 if tier == 'quick' else 16
    # balance by number of recorded steps
    bins = [[0, []] for _ in range(nrec)]
    for n, b, k, _ in sorted(files, key=lambda x: -x[2]):
        bins.sort(key=lambda x: x[0])
        bins[0][0] += k
        bins[0][1].append(n)
    out = [{'kind': 'recorded', 'files': sorted(b[1]), 'i': i} for i, b in enumerate(bins) if b[1]]
    ngen = 4 if tier == 'quick' else 48
    per = 90 if tier == 'quick' else 420
    out += [{'kind': 'gen', 'i': i, 'count': per} for i in range(ngen)]
    out += [{'kind': 'api', 'files': sorted(b[1]), 'i': i, 'gen': 12 if tier == 'quick' else 60}
            for i, b in enumerate(bins[:2 if tier == 'quick' else len(bins)]) if b[1]]
    naux = 1 if tier == 'quick' else 8
    out += [{'kind': 'aux', 'i': i, 'count': 440 if tier == 'quick' else 600} for i in range(naux)]
    if tier == 'quick':
        out += [{'kind': 'idcond', 'i': 0, 'books': ['base', 'interesting'], 'osc': ['base']}]
    else:
        out += [{'kind': 'idcond', 'i': 0, 'books': ['base'], 'osc': ['base']}]
        out += [{'kind': 'idcond', 'i': 1 + j, 'books': ['interesting'], 'osc': ['interesting'], 'part': [j, 6]} for j in range(6)]
    return out


def calibrate(vctx):
    """the oracle must get textbook values right, and must reject known-wrong ones, or it refuses to judge."""
    from integral import parser, expr
    assert (expr.VAR, expr.CONST, expr.OP, expr.FUN, expr.DERIV, expr.INTEGRAL, expr.EVAL_AT, expr.SYMBOL, expr.LIMIT,
            expr.INF, expr.INDEFINITEINTEGRAL, expr.DIFFERENTIAL, expr.SKOLEMFUNC, expr.SUMMATION) == tuple(range(14))
    import random
    good = [("INT x:[0,1]. x^2", "1/3"), ("INT x:[0,oo]. exp(-x)", "1"), ("INT x:[0,1]. 1/sqrt(x)", "2"),
            ("INT x:[0,1]. log(x)", "-1"), ("SUM(n,0,oo,(-1)^n/(2*n+1)^2)", "G"),
            ("INT x. x^2", "x^3/3 + SKOLEM_CONST(C)"), ("D x. sin(x)^2", "2*sin(x)*cos(x)"),
            ("INT x:[-oo,oo]. 1/(1+x^2)", "pi"), ("LIM {x->0}. sin(x)/x", "1"), ("(x^2-1)/(x-1)", "x+1"),
            ("[x^2]_x=1,3", "8"), ("INT x:[a,b]. x", "(b^2-a^2)/2")]
    bad = [("INT x. x^2", "x^3/2 + SKOLEM_CONST(C)"), ("sqrt(x^2)", "x"),
           ("INT x:[0,1]. x^2", "-1/3"), ("INT x:[0,2]. x", "INT u:[0,4]. u")]
    ok = True
    with quiet():
        r = O.judge(O.to_shadow(parser.parse_expr("log(x^2)")), O.to_shadow(parser.parse_expr("2*log(x)")), rng=random.Random(7))
    if r['verdict'] != 'inconclusive':
        ok = False
        vctx.note('calibration: log(x^2) vs 2*log(x) must be inconclusive (output not real for x<0), got ' + r['verdict'])
    for b, a in good + bad:
        with quiet():
            sb, sa = O.to_shadow(parser.parse_expr(b)), O.to_shadow(parser.parse_expr(a))
        r = O.judge(sb, sa, rng=random.Random(7), budget=400000)
        want = 'held' if (b, a) in good else 'violated'
        if r['verdict'] != want:
            ok = False
            vctx.note('calibration: %s vs %s gave %s (%s), wanted %s' % (b, a, r['verdict'], r.get('reason'), want))
    return ok


def run_shard(vctx, spec):
    import warnings
    warnings.filterwarnings('ignore')
    if 'replay' in spec:
        return replay(vctx, spec['replay'])
    if not calibrate(vctx):
        vctx.count('oracle_calibration_failed')
        return
    if spec.get('i', 0) == 0 and spec['kind'] == 'recorded':
        vctx.count('oracle_calibration_ok')
        _, old = example_files()
        vctx.count('recorded_old_format_items_not_exercised', old)
    thorough = vctx.tier == 'thorough'
    mon = Monitor(vctx, budget=1500000 if thorough else 500000, per_eval=300000 if thorough else 100000,
                  inner_cap=12 if thorough else 4, max_draws=5 if thorough else 4)
    mon.install()
    if spec['kind'] == 'recorded':
        run_recorded(vctx, mon, spec['files'])
    elif spec['kind'] == 'api':
        run_api_generated(vctx, mon, spec['gen'])
        run_api_recorded(vctx, mon, spec['files'])
    elif spec['kind'] == 'gen':
        from vf import oracle_c19_gen as c19_gen
        c19_gen.run_generated(vctx, mon, spec['count'])
    elif spec['kind'] == 'aux':
        from vf import oracle_c19_gen as c19_gen
        c19_gen.run_aux(vctx, mon, spec['count'])
    elif spec['kind'] == 'idcond':
        from vf import oracle_c19_gen as c19_gen
        c19_gen.run_idcond(vctx, mon, spec['books'], osc_books=spec.get('osc', ()), part=spec.get('part'))
    vctx.count('rule_classes_called_in_shard', len({k[6:] for k in vctx.counters if k.startswith('calls:')}))


def coverage_extra(counters, tier):
    exists = sorted(k.split(':', 1)[1] for k in counters if k.startswith('class_exists:'))
    called = sorted(k.split(':', 1)[1] for k in counters if k.startswith('calls:'))
    judged = sorted(k.split(':', 1)[1] for k in counters if k.startswith('judged:'))
    return {'rule_classes': len(exists), 'rule_classes_called': called,
            'rule_classes_never_called': [c for c in exists if c not in called],
            'rule_classes_called_but_never_judged': [c for c in called if c not in judged]}


def replay(vctx, rec):
    w = rec['witness']
    mon = Monitor(vctx, budget=4000000, per_eval=600000, inner_cap=10 ** 6, max_draws=5)
    mon.install()
    drv = w.get('driver') or {}
    if drv.get('kind') == 'recorded':
        run_recorded(vctx, mon, [drv['file']], only=(drv['item'], drv['calc'], drv['step']))
    elif drv.get('kind') == 'api-recorded':
        run_api_recorded(vctx, mon, [drv['file']], only=(drv['item'], drv['calc'], drv['redo_from']))
    elif drv.get('kind') == 'api-generated':
        run_api_generated(vctx, mon, 1, only={'seed': drv['seed'], 'redo_from': drv['redo_from']})
    else:
        from vf import oracle_c19_gen as c19_gen
        c19_gen.replay_driver(vctx, mon, drv, w)
    vctx.case('replay', sample=str((mon.last or {}).get('verdict')))
