"""C08 - type inference returns only well-typed, fully determined terms.

Contract on the real syntax.infertype.type_infer (module attribute wrapped, so every parse in the library
workload is observed): snapshot of the skeleton (it is mutated in place), of the context and of the
signature before; result or exception class after.  Oracle on shadows: independent type check, same shape,
annotations and declared variable types kept, one type per variable, constants at instances of their
declared types, no internal type variable left; erasures of known well-typed terms are recovered exactly.
"""
from vf import shadow as S, gen as G, libreplay
from vf.props import c07

ID = 'C08'
LEVEL = 'exploration'
RULE = ('case = one call of type_infer: skeletons obtained by erasing generated well-typed terms over theory real at three '
        'annotation levels (all types erased / binder types kept / constant and binder types kept), ill-typed skeletons '
        '(self-application, one variable at two types, over-applied constants, wrong annotations), and every call made while '
        'parsing library statements; distinct = hash of the skeleton shadow; non-trivial = size >= 3')
ASSUMPTIONS = ['the declared type of a constant is read from theory.thy term_sig / context defs (data tables)',
               'exact recovery is demanded only when inference succeeds; failure must be TypeInferenceException '
               '(or TheoryException for unknown constants)']
REQUIRED = {'quick': {'late_clash_skeletons': 500, 'late_clash_refused': 100, 'late_clash_accepted': 100, 'ctx_hist_outer_inferences': 300, 'ctx_hist_inner_failed': 100, 'gen_deep_chain_terms': 300, 'calls_observed': 8000, 'returns_judged': 3000, 'gen_erasures': 2500, 'gen_illtyped': 300,
                      'lib_calls_observed': 1500, 'exact_recoveries': 800, 'hist_inferences': 200},
            'thorough': {'late_clash_skeletons': 12000, 'late_clash_refused': 2500, 'late_clash_accepted': 2500, 'ctx_hist_outer_inferences': 6000, 'ctx_hist_inner_failed': 2000, 'gen_deep_chain_terms': 6000, 'calls_observed': 150000, 'returns_judged': 60000, 'gen_erasures': 50000, 'gen_illtyped': 6000,
                         'lib_calls_observed': 30000, 'exact_recoveries': 15000, 'hist_inferences': 5000}}
SHARD_TIMEOUT = {'quick': 1200, 'thorough': 7200}
NONE = ('none',)


def shards(tier, seed):
    if tier == 'quick':
        return ([{'kind': 'gen', 'i': i, 'count': 450} for i in range(9)] + [{'kind': 'hist', 'i': 0, 'count': 120}] +
                [{'kind': 'lib', 'i': i, 'parts': 6, 'frac': 0.1} for i in range(6)])
    return ([{'kind': 'gen', 'i': i, 'count': 4000} for i in range(24)] + [{'kind': 'hist', 'i': i, 'count': 1500} for i in range(2)] +
            [{'kind': 'lib', 'i': i, 'parts': 16, 'frac': 1.0} for i in range(16)])


class Mon:
    ctx = None
    origin = 'gen'
    installed = False
    depth = 0
    expect = None     # original shadow when the skeleton is an erasure
    level = None


def erase_shape(s):
    k = s[0]
    if k in ('var', 'svar', 'const'):
        return (k, s[1])
    if k == 'comb':
        return ('comb', erase_shape(s[1]), erase_shape(s[2]))
    if k == 'abs':
        return ('abs', erase_shape(s[3]))
    return s


def annotations(snap, res, path=()):
    """yield (path, given type, result type) for every annotated node of the snapshot"""
    k = snap[0]
    if k in ('var', 'svar', 'const'):
        if snap[2] != NONE:
            yield path, snap[2], res[2]
    elif k == 'comb':
        yield from annotations(snap[1], res[1], path + (1,))
        yield from annotations(snap[2], res[2], path + (2,))
    elif k == 'abs':
        if snap[2] != NONE:
            yield path, snap[2], res[2]
        yield from annotations(snap[3], res[3], path + (3,))


def has_internal(T):
    if T[0] == 'stv':
        return T[1].startswith('_t')
    if T[0] == 'tc':
        return any(has_internal(a) for a in T[2])
    return False


def consts(s, acc):
    if s[0] == 'const':
        acc.append(s)
    elif s[0] == 'comb':
        consts(s[1], acc)
        consts(s[2], acc)
    elif s[0] == 'abs':
        consts(s[3], acc)
    return acc


def declared_type(name, defs):
    from kernel import theory
    ts = theory.thy.get_data('term_sig')
    if name in ts:
        return S.ty_shadow(ts[name])
    if name in defs:
        return defs[name]
    return None


def as_pattern(T):
    """declared type with 'tv' -> matchable 'stv'"""
    if T[0] == 'tv':
        return ('stv', T[1])
    if T[0] == 'tc':
        return ('tc', T[1], tuple(as_pattern(a) for a in T[2]))
    return T


def judge_return(ctx, snap, res, ctxt_vars, ctxt_svars, defs, forbid_internal, origin, expect, level):
    wit = {'skeleton': S.jsonable(snap), 'vars': {k: S.jsonable(v) for k, v in ctxt_vars.items()},
           'svars': {k: S.jsonable(v) for k, v in ctxt_svars.items()}, 'origin': origin, 'level': level}

    def bad(mech, desc):
        ctx.violation(mech, desc + ' ; skeleton %s ; result %s' % (S.tm_str(snap, True), S.tm_str(res, True)), wit)
    ctx.count('returns_judged')
    if erase_shape(snap) != erase_shape(res):
        return bad('infer:result-has-a-different-shape', 'type inference changed the structure of the term')
    try:
        S.typeof(res)
    except S.ShadowError as e:
        return bad('infer:result-ill-typed', 'result does not type-check (%s)' % e)
    for path, given, got in annotations(snap, res):
        if given != got:
            return bad('infer:given-annotation-changed', 'annotation %s became %s' % (S.ty_str(given), S.ty_str(got)))
    seen = {}
    for a in S.atoms(res):
        key = (a[0], a[1])
        if key in seen and seen[key] != a[2]:
            return bad('infer:variable-with-two-types', 'variable %s gets types %s and %s' % (a[1], S.ty_str(seen[key]), S.ty_str(a[2])))
        seen[key] = a[2]
        decl = (ctxt_vars if a[0] == 'var' else ctxt_svars).get(a[1])
        # a declared variable keeps its declared type unless the skeleton annotated it explicitly
        if decl is not None and a[2] != decl:
            annotated = any(x[0] == a[0] and x[1] == a[1] and x[2] != NONE for x in S.atoms(snap))
            if not annotated:
                return bad('infer:declared-variable-type-changed', 'variable %s declared %s inferred %s' % (a[1], S.ty_str(decl), S.ty_str(a[2])))
    for c in consts(res, []):
        d = declared_type(c[1], defs)
        if d is None:
            continue
        if not S.ty_match(as_pattern(d), c[2], {}):
            return bad('infer:constant-not-at-instance-of-declared-type', 'constant %s :: %s is not an instance of %s' % (c[1], S.ty_str(c[2]), S.ty_str(d)))
    if forbid_internal and any(has_internal(T) for T in S.term_types(res)):
        return bad('infer:internal-type-variable-left', 'an internal type variable _tN remains in the result')
    if expect is not None:
        ctx.count('erasure_succeeded:level%s' % level)
        if S.aeq(res, expect):
            ctx.count('exact_recoveries')
        else:
            return bad('infer:erasure-recovered-as-a-different-term:level%s' % level, 'inference succeeded but did not recover the original %s' % S.tm_str(expect, True))


def install(ctx):
    from syntax import infertype
    from logic import context
    Mon.ctx = ctx
    if Mon.installed:
        return
    orig = infertype.type_infer

    def wrapper(t, *, forbid_internal=True):
        if Mon.depth > 0:
            return orig(t, forbid_internal=forbid_internal)
        c = Mon.ctx
        c.count('calls_observed')
        if Mon.origin == 'lib':
            c.count('lib_calls_observed')
        Mon.depth += 1
        try:
            try:
                snap = S.tm_shadow(t)
                cv = {k: S.ty_shadow(v) for k, v in context.ctxt.vars.items()}
                cs = {k: S.ty_shadow(v) for k, v in context.ctxt.svars.items()}
                cd = {k: S.ty_shadow(v) for k, v in context.ctxt.defs.items()}
            except Exception:
                snap = None
            try:
                r = orig(t, forbid_internal=forbid_internal)
            except infertype.TypeInferenceException:
                c.count('rejected:TypeInferenceException')
                raise
            except Exception as e:
                c.count('raised:' + type(e).__name__)
                from kernel import theory as _th
                if not isinstance(e, _th.TheoryException) and snap is not None:
                    c.violation('infer:fails-with-an-error-that-is-not-its-own:' + type(e).__name__,
                                'type_infer raised %s on skeleton %s' % (type(e).__name__, S.tm_str(snap, True)[:300]),
                                {'skeleton': S.jsonable(snap), 'vars': {k: S.jsonable(v) for k, v in cv.items()},
                                 'svars': {k: S.jsonable(v) for k, v in cs.items()}, 'origin': Mon.origin, 'level': Mon.level})
                raise
            if snap is not None:
                try:
                    judge_return(c, snap, S.tm_shadow(r), cv, cs, cd, forbid_internal, Mon.origin, Mon.expect, Mon.level)
                    if Mon.origin == 'lib':
                        c.case(('lib', snap), nontrivial=S.size(snap) >= 3)
                except S.ShadowError:
                    c.count('shadow_error')
            return r
        finally:
            Mon.depth -= 1
    infertype.type_infer = wrapper
    Mon.installed = True


# ------------------------------------------------------------------ generated workload
def erase(s, level, rng):
    """level 0: all types erased; 1: binder types kept; 2: constants and binders kept; free variables always erased
    (they are declared in the context)"""
    k = s[0]
    if k in ('var', 'svar'):
        return (k, s[1], NONE)
    if k == 'const':
        return (k, s[1], s[2] if level >= 2 else NONE)
    if k == 'comb':
        return ('comb', erase(s[1], level, rng), erase(s[2], level, rng))
    if k == 'abs':
        return ('abs', s[1], s[2] if level >= 1 else NONE, erase(s[3], level, rng))
    return s


def skeleton_term(s):
    """repo term with None types where the shadow says ('none',)"""
    from kernel.term import Var, SVar, Const, Comb, Abs, Bound
    k = s[0]
    T = lambda x: None if x == NONE else S.to_repo_type(x)
    if k == 'var':
        return Var(s[1], T(s[2]))
    if k == 'svar':
        return SVar(s[1], T(s[2]))
    if k == 'const':
        return Const(s[1], T(s[2]))
    if k == 'comb':
        return Comb(skeleton_term(s[1]), skeleton_term(s[2]))
    if k == 'abs':
        return Abs(s[1], T(s[2]), skeleton_term(s[3]))
    return Bound(s[1])


def numerals_ok(s):
    """numerals 'of_nat (binary)' keep the type of bit0/bit1/one inside: those constants are never erased by a parser"""
    return True


def deep_chain_term(rng):
    """a closed formula whose binder types can only be found by following a CHAIN of instantiations: a bound variable
    is equated with a value whose type is built by nesting type constructors (list of list of ..., functions into
    lists, sets of lists), and other bound variables are tied to it through functions / append / membership"""
    B, NAT = S.BOOL, S.NAT
    listT = lambda T: ('tc', 'list', (T,))
    base = rng.choice([NAT, B, ('tv', 'a'), S.INT if hasattr(S, 'INT') else NAT])
    depth = rng.choice([1, 2, 2, 3, 3])

    def nested(T, d, leaf):
        """(term, type) of a list literal nested d deep"""
        if d == 0:
            return leaf, T
        inner, Ti = nested(T, d - 1, leaf)
        LT = listT(Ti)
        return S.mk_comb(('const', 'cons', S.funs(Ti, LT, LT)), inner, ('const', 'nil', LT)), LT
    leaf = {NAT: ('const', 'zero', NAT), B: ('const', 'true', B)}.get(base, ('var', 'c0', base))
    v, VT = nested(base, depth, leaf)
    EQ = lambda T, a, b: S.mk_comb(('const', 'equals', S.funs(T, T, B)), a, b)
    IMP = lambda a, b: S.mk_comb(('const', 'implies', S.funs(B, B, B)), a, b)
    ALL = lambda nm, T, body: ('comb', ('const', 'all', S.fun(S.fun(T, B), B)), ('abs', nm, T, body))
    shape = rng.choice(['append', 'fun', 'fun2', 'eq-chain'])
    if shape == 'append':
        # !xs. !ys. xs @ ys = ys --> ys = v        (xs, ys : VT)
        APP = ('const', 'append', S.funs(VT, VT, VT))
        body = IMP(EQ(VT, S.mk_comb(APP, ('bound', 1), ('bound', 0)), ('bound', 0)), EQ(VT, ('bound', 0), v))
        return ALL('xs', VT, ALL('ys', VT, body))
    if shape == 'fun':
        # !x. !f. f x = leaf --> x = v             (x : VT, f : VT => base)
        FT = S.fun(VT, base)
        body = IMP(EQ(base, ('comb', ('bound', 0), ('bound', 1)), leaf), EQ(VT, ('bound', 1), v))
        return ALL('x', VT, ALL('f', FT, body))
    if shape == 'fun2':
        # !g. !x. !y. g x = y --> y = v --> x = leaf          (g : base => VT)
        GT = S.fun(base, VT)
        body = IMP(EQ(VT, ('comb', ('bound', 2), ('bound', 1)), ('bound', 0)), IMP(EQ(VT, ('bound', 0), v), EQ(base, ('bound', 1), leaf)))
        return ALL('g', GT, ALL('x', base, ALL('y', VT, body)))
    # !a. !b. !c. a = b --> b = c --> c = v
    body = IMP(EQ(VT, ('bound', 2), ('bound', 1)), IMP(EQ(VT, ('bound', 1), ('bound', 0)), EQ(VT, ('bound', 0), v)))
    return ALL('a1', VT, ALL('b1', VT, ALL('c1', VT, body)))


def run_gen(ctx, spec):
    from syntax import infertype
    rng = ctx.rng
    sig = c07.build_sig()
    Mon.origin = 'gen'
    for k in range(spec['count']):
        g = c07.Gen07(rng, sig, c07.type_pool(), names=c07.NAMES, p_svar=0.12, p_fresh=0.35, p_redex=0.08, overload=c07.OVERLOAD,
                      weights={'const': 8, 'atom': 3, 'app': 1, 'abs': 3})
        T = g.rand_type() if rng.random() < 0.5 else S.BOOL
        s = g.gen(T, rng.choice([1, 2, 3, 3, 4]))
        directed = k % 5 == 0
        if directed:
            s = deep_chain_term(rng)
            ctx.count('gen_deep_chain_terms')
        if not c07.term_ok(s):
            continue
        level = rng.choice([0, 0, 1, 2, 2]) if not directed else 0
        sk = erase(s, level, rng)
        c07.set_ctx([s])
        Mon.expect, Mon.level = s, level
        ctx.count('gen_erasures')
        try:
            infertype.type_infer(skeleton_term(sk))
            ok = True
        except infertype.TypeInferenceException:
            ok = False
            if level == 2:
                ctx.violation('infer:fails-although-constant-and-binder-types-are-given',
                              'type inference raised on the erasure of %s with all constant and binder types kept' % S.tm_str(s, True),
                              {'skeleton': S.jsonable(sk), 'vars': {a[1]: S.jsonable(a[2]) for a in S.atoms(s) if a[0] == 'var'},
                               'svars': {a[1]: S.jsonable(a[2]) for a in S.atoms(s) if a[0] == 'svar'}, 'origin': 'gen', 'level': 2})
        except Exception as e:
            ok = None
            ctx.count('gen_other_exception:' + type(e).__name__)
        finally:
            Mon.expect, Mon.level = None, None
        ctx.case(('erasure', level, S.alpha(s)), nontrivial=S.size(s) >= 3,
                 sample={'term': S.tm_str(s), 'level': level, 'inferred': ok} if k < 2 and spec['i'] == 0 else None)
        if k % 6 == 0:
            illtyped(ctx, rng, g, s)


def illtyped(ctx, rng, g, s):
    """hostile skeletons: must raise TypeInferenceException, never return"""
    from syntax import infertype
    N = NONE
    x, y = ('var', 'x', N), ('var', 'y', N)
    pool = [('comb', x, x),                                                      # occurs check
            ('comb', ('comb', ('const', 'equals', N), ('comb', x, y)), x),       # x used as function and as its own result
            ('comb', ('comb', ('const', 'conj', N), x), ('comb', ('comb', ('const', 'plus', N), x), y)),   # bool and number
            ('comb', ('const', 'true', N), x),                                   # over-applied constant
            ('comb', ('comb', ('comb', ('const', 'neg', N), x), y), y),
            ('abs', 'u', N, ('comb', ('bound', 0), ('bound', 0))),
            ('comb', ('comb', ('const', 'equals', N), ('var', 'x', S.NAT)), ('var', 'x', S.BOOL)),
            ('comb', ('comb', ('const', 'member', N), x), x)]
    sk = rng.choice(pool)
    from logic import context
    context.set_context(None, vars={})
    ctx.count('gen_illtyped')
    Mon.expect = None
    try:
        r = infertype.type_infer(skeleton_term(sk), forbid_internal=rng.random() < 0.8)
    except infertype.TypeInferenceException:
        ctx.count('illtyped_rejected')
    except Exception as e:
        ctx.count('illtyped_other_exception:' + type(e).__name__)
    ctx.case(('illtyped', sk), nontrivial=True)
    # clashes between two DIFFERENT type variables (and between constructors around them): the declared variables
    # x::'a, y::'b, f::'a=>'b, xs::'a list, ys::'b list must not be unified with each other
    ta, tb = ('tv', rng.choice(['a', 'c'])), ('tv', rng.choice(['b', 'd']))
    lT = lambda T: ('tc', 'list', (T,))
    decl = {'x': ta, 'y': tb, 'f': S.fun(ta, tb), 'P': S.fun(ta, S.BOOL), 'xs': lT(ta), 'ys': lT(tb), 'g': S.fun(tb, tb)}
    v = lambda n: ('var', n, N)
    eqc, consc = ('const', 'equals', N), ('const', 'cons', N)
    pool2 = [S.mk_comb(eqc, v('x'), v('y')), ('comb', v('f'), v('y')), ('comb', v('P'), ('comb', v('f'), v('x'))),
             S.mk_comb(eqc, v('xs'), v('ys')), S.mk_comb(consc, v('x'), v('ys')), ('comb', v('g'), v('x')),
             ('abs', 'z', N, S.mk_comb(eqc, ('comb', v('g'), ('bound', 0)), v('x'))),
             S.mk_comb(eqc, ('comb', v('f'), v('x')), v('x'))]
    # an UNDECLARED schematic variable used twice: both occurrences are one variable (clashing uses must be refused,
    # agreeing uses must come back at one type)
    su = ('svar', rng.choice(['u', 'a1', 'x']), N)
    conjc = ('const', 'conj', N)
    decl['R'] = S.fun(tb, S.BOOL)
    pool2 += [S.mk_comb(conjc, ('comb', v('P'), su), ('comb', v('R'), su)),
              S.mk_comb(eqc, ('comb', v('f'), su), su),
              S.mk_comb(conjc, ('comb', v('P'), su), S.mk_comb(eqc, su, v('y')))]
    sk2 = rng.choice(pool2)
    if rng.random() < 0.25:
        # the agreeing control: P ?u & P ?u - accepted, and ?u must have ONE type in the result
        sk2 = S.mk_comb(conjc, ('comb', v('P'), su), S.mk_comb(eqc, su, v('x')))
        ctx.count('undeclared_svar_twice_agreeing')
    context.set_context(None, vars={n_: S.to_repo_type(T_) for n_, T_ in decl.items()})
    ctx.count('gen_illtyped')
    ctx.count('gen_illtyped_type_variable_clash')
    try:
        infertype.type_infer(skeleton_term(sk2))
        ctx.count('illtyped_type_variable_clash_returned')
    except infertype.TypeInferenceException:
        ctx.count('illtyped_rejected')
    except Exception as e:
        ctx.count('illtyped_other_exception:' + type(e).__name__)
    ctx.case(('illtyped2', sk2, ta, tb), nontrivial=True)


# ------------------------------------------------------------------ directed family: clash / agreement decided late
def hm_principal(sk, cvars, csvars, defs):
    """Independent reference: principal typing of a skeleton by textbook substitution-based unification (with occurs
    check) on shadows.  Returns ('untypable', reason, None) or ('typable', fully typed shadow term, determined?) where
    `determined` says that no unification variable is left anywhere in the term."""
    sub, n = {}, [0]

    class Clash(Exception):
        pass

    def fresh():
        n[0] += 1
        return ('uv', n[0])

    def walk(T):
        while T[0] == 'uv' and T in sub:
            T = sub[T]
        return T

    def occurs(v, T):
        T = walk(T)
        return T == v or (T[0] == 'tc' and any(occurs(v, a) for a in T[2]))

    def unify(a, b):
        a, b = walk(a), walk(b)
        if a == b:
            return
        if a[0] == 'uv' or b[0] == 'uv':
            if a[0] != 'uv':
                a, b = b, a
            if occurs(a, b):
                raise Clash('occurs check')
            sub[a] = b
        elif a[0] == 'tc' and b[0] == 'tc' and a[1] == b[1] and len(a[2]) == len(b[2]):
            for x, y in zip(a[2], b[2]):
                unify(x, y)
        else:
            raise Clash('%s against %s' % (ty_str_uv(resolve(a)), ty_str_uv(resolve(b))))

    def resolve(T):
        T = walk(T)
        if T[0] == 'tc':
            return ('tc', T[1], tuple(resolve(a) for a in T[2]))
        return T

    def inst(T, m):
        if T[0] in ('tv', 'stv'):
            if T[1] not in m:
                m[T[1]] = fresh()
            return m[T[1]]
        if T[0] == 'tc':
            return ('tc', T[1], tuple(inst(a, m) for a in T[2]))
        return T
    free = {}

    def go(s, bd):
        k = s[0]
        if k in ('var', 'svar'):
            T = s[2]
            if T == NONE:
                T = (cvars if k == 'var' else csvars).get(s[1])
                if T is None:
                    T = free.setdefault((k, s[1]), fresh())
            return (k, s[1], T), T
        if k == 'const':
            T = s[2]
            if T == NONE:
                d = declared_type(s[1], defs)
                if d is None:
                    raise Clash('unknown constant ' + s[1])
                T = inst(d, {})
            return (k, s[1], T), T
        if k == 'comb':
            f, Tf = go(s[1], bd)
            a, Ta = go(s[2], bd)
            R = fresh()
            unify(Tf, S.fun(Ta, R))
            return ('comb', f, a), R
        if k == 'abs':
            T = fresh() if s[2] == NONE else s[2]
            b, Tb = go(s[3], (T,) + bd)
            return ('abs', s[1], T, b), S.fun(T, Tb)
        return s, bd[s[1]]

    def fin(s):
        k = s[0]
        if k in ('var', 'svar', 'const'):
            return (k, s[1], resolve(s[2]))
        if k == 'comb':
            return ('comb', fin(s[1]), fin(s[2]))
        if k == 'abs':
            return ('abs', s[1], resolve(s[2]), fin(s[3]))
        return s

    def has_uv(T):
        return T[0] == 'uv' or (T[0] == 'tc' and any(has_uv(a) for a in T[2]))
    try:
        typed, _ = go(sk, ())
    except Clash as e:
        return 'untypable', str(e), None
    typed = fin(typed)
    return 'typable', typed, not any(has_uv(T) for T in S.term_types(typed))


def ty_str_uv(T):
    if T[0] == 'uv':
        return '?%d' % T[1]
    if T[0] == 'tc':
        return '%s(%s)' % (T[1], ','.join(ty_str_uv(a) for a in T[2])) if T[2] else T[1]
    return S.ty_str(T)


LATE_TYPES = [S.NAT, S.BOOL, S.REAL, ('tc', 'list', (S.NAT,)), ('tv', 'a'), S.fun(S.NAT, S.NAT), ('tc', 'set', (S.NAT,)),
              ('tc', 'list', (S.REAL,)), ('tv', 'b'), S.fun(S.NAT, S.BOOL)]


def late_skeleton(rng):
    """A skeleton in which a polymorphic constant (IF, plus, times, max, uminus, cons, append, insert) is applied to an
    OLDER untyped thing - a bound variable whose binder type is erased (innermost or outer binder), or an undeclared
    free / schematic variable seen earlier - and to an argument of declared type T, and the type of the result is then
    met by something of declared type T2 (other side of an equation / comparison, argument of a declared function,
    another polymorphic constant, element of a list or set).  T2 == T: well-typed and fully determined; T2 != T: no
    typing exists.  Whether the uses agree is only decided by the LAST unification.  Returns (skeleton, vars, tag)."""
    N = NONE
    lT = lambda T: ('tc', 'list', (T,))
    sT = lambda T: ('tc', 'set', (T,))
    T = rng.choice(LATE_TYPES)
    agree = rng.random() < 0.45
    T2 = T if agree else rng.choice([X for X in LATE_TYPES if X != T])
    decl = {'c': S.BOOL, 'y': T, 'ys': lT(T), 'Y': sT(T), 'z': T2, 'zs': lT(T2), 'Z': sT(T2),
            'F': S.fun(T2, S.BOOL), 'G': S.fun(T2, T2), 'H': S.fun(lT(T2), S.BOOL), 'n': S.NAT}
    v = lambda nm: ('var', nm, N)
    C = lambda nm, *args: S.mk_comb(('const', nm, N), *args)
    older = rng.choice(['bound', 'bound', 'bound', 'outer-bound', 'free-seen-earlier', 'svar-seen-earlier', 'two-bound'])
    if older in ('bound', 'two-bound'):
        o = ('bound', 0)
    elif older == 'outer-bound':
        o = ('bound', 1)
    elif older == 'free-seen-earlier':
        o = v('u')
    else:
        o = ('svar', 'u', N)
    o2 = ('bound', 1) if older == 'two-bound' else o
    # the polymorphic constant applied to the older thing and to something of declared type: (term, kind of result)
    op2 = rng.choice(['plus', 'times', 'minus', 'max'])
    cores = [(C('IF', v('c'), o, v('y')), 'elt'), (C('IF', v('c'), v('y'), o), 'elt'), (C(op2, o, v('y')), 'elt'),
             (C(op2, v('y'), o), 'elt'), (C('IF', v('c'), C('uminus', o), v('y')), 'elt'),
             (C('IF', v('c'), o, C('IF', v('c'), o2, v('y'))), 'elt'), (C(op2, C(op2, o, o2), v('y')), 'elt'),
             (C('cons', o, v('ys')), 'list'), (C('append', C('cons', o, C('nil')), v('ys')), 'list'),
             (C('IF', v('c'), C('cons', o, C('nil')), v('ys')), 'list'), (C('IF', v('c'), o, C('nil')), 'listself'),
             (C('insert', o, v('Y')), 'set'), (C('IF', v('c'), C('cons', o2, C('nil')), C('cons', v('y'), C('nil'))), 'list'),
             (C('IF', C('equals', o, v('y')), o2, o), 'elt')]
    core, kind = rng.choice(cores)
    other = {'elt': v('z'), 'list': v('zs'), 'listself': v('zs'), 'set': v('Z')}[kind]
    if rng.random() < 0.15:
        other = v(rng.choice(['z', 'zs', 'Z', 'y', 'ys', 'n']))          # wild: the reference decides
    rel = rng.choice(['equals', 'equals', 'less_eq', 'less'])
    uses = [C(rel, core, other), C(rel, other, core), C('equals', C('IF', v('c'), core, other), other),
            C('equals', other, C(rng.choice(['plus', 'max']), core, other)), C(rel, C('IF', v('c'), other, core), core)]
    if kind == 'elt':
        uses += [('comb', v('F'), core), C('equals', ('comb', v('G'), core), v('z')), C('member', core, v('Z')),
                 C('equals', C('cons', core, v('zs')), v('zs')), ('comb', v('H'), C('cons', core, C('nil')))]
    elif kind in ('list', 'listself'):
        uses += [('comb', v('H'), core), C('equals', C('append', core, v('zs')), v('zs'))]
    body = rng.choice(uses)
    if older in ('free-seen-earlier', 'svar-seen-earlier'):
        # the undeclared variable gets its (bare) type variable before the polymorphic constant is met
        first = rng.choice([C('equals', o, o), C('equals', ('abs', 'w', N, o), ('abs', 'w', N, o)), None])
        sk = body if first is None else C(rng.choice(['conj', 'implies']), first, body)
    elif older == 'bound':
        sk = ('abs', 'x', N, body)
        if rng.random() < 0.5:
            sk = C(rng.choice(['all', 'exists']), sk)
    elif older == 'outer-bound':
        # %x. %w::nat. body[x]  - the inner binder is annotated, the outer one erased
        sk = ('abs', 'x', N, ('abs', 'w', S.NAT, C('conj', body, C('equals', ('bound', 0), v('n')))))
        if rng.random() < 0.5:
            sk = C('all', ('abs', 'x', N, C('all', sk[3])))
    else:
        # two erased binders whose variables are tied to each other by the constant before either meets a declared type
        sk = ('abs', 'x1', N, ('abs', 'x0', N, body))
        if rng.random() < 0.5:
            sk = C('all', ('abs', 'x1', N, C('exists', sk[3])))
    return sk, decl, (older, kind, 'agree' if agree else 'clash')


def judge_late(ctx, sk, decl, tag=None):
    """run type_infer on one skeleton of the family and compare its verdict with the reference typing"""
    from syntax import infertype
    from logic import context
    context.set_context(None, vars={n_: S.to_repo_type(T_) for n_, T_ in decl.items()})
    verdict, typed, determined = hm_principal(sk, decl, {}, {})
    ctx.count('late_clash_skeletons')
    ctx.count('late_clash_reference:' + (verdict if verdict == 'untypable' else 'typable-determined' if determined else 'typable-undetermined'))
    wit = {'skeleton': S.jsonable(sk), 'vars': {k: S.jsonable(T_) for k, T_ in decl.items()}, 'svars': {}, 'origin': 'late-clash',
           'level': 'late', 'family': 'late-clash', 'tag': list(tag) if tag else None}
    Mon.origin = 'late-clash'
    Mon.expect, Mon.level = (typed, 'late') if verdict == 'typable' and determined else (None, None)
    try:
        r = infertype.type_infer(skeleton_term(sk))
    except infertype.TypeInferenceException:
        ctx.count('late_clash_refused')
        if verdict == 'typable' and determined:
            ctx.violation('infer:type-variable-joined-to-an-older-one-not-followed-after-binding:determined-skeleton-refused',
                          'type inference raised on %s although it has the (fully determined) typing %s ; declared %s' % (
                              S.tm_str(sk, True), S.tm_str(typed, True), {n_: S.ty_str(T_) for n_, T_ in decl.items()}), wit)
        return 'refused'
    except Exception as e:
        ctx.count('late_clash_other_exception:' + type(e).__name__)
        return 'error'
    finally:
        Mon.expect, Mon.level = None, None
        Mon.origin = 'gen'
    ctx.count('late_clash_accepted')
    if verdict == 'untypable':
        ctx.violation('infer:type-variable-joined-to-an-older-one-not-followed-after-binding:clashing-uses-accepted',
                      'type inference accepted %s, which has no typing (%s) ; declared %s ; result %s' % (
                          S.tm_str(sk, True), typed, {n_: S.ty_str(T_) for n_, T_ in decl.items()}, S.tm_str(S.tm_shadow(r), True)), wit)
    return 'accepted'


def run_late(ctx, count):
    rng = ctx.rng
    for k in range(count):
        sk, decl, tag = late_skeleton(rng)
        out = judge_late(ctx, sk, decl, tag)
        ctx.count('late_clash_shape:%s:%s' % (tag[0], tag[2]))
        ctx.case(('late-clash', sk, tuple(sorted(decl.items()))), nontrivial=True,
                 sample={'skeleton': S.tm_str(sk, True), 'declared': {n_: S.ty_str(T_) for n_, T_ in decl.items() if n_ in ('y', 'z')},
                         'type_infer': out} if k < 2 else None)


def run_hist(ctx, spec):
    """W-HIST: what inference knows about a constant must come from the theory in force NOW - the same constant
    names are (re)declared at different types in a sequence of ad-hoc theories derived from `real`"""
    import copy
    from kernel import theory
    from syntax import infertype
    rng = ctx.rng
    base = theory.thy
    Mon.origin = 'hist'
    tpool = [S.NAT, S.BOOL, S.REAL, ('tv', 'a'), ('tc', 'list', (('tv', 'a'),)), ('tc', 'set', (S.NAT,)), S.fun(S.NAT, S.NAT)]
    try:
        for round_ in range(spec['count']):
            theory.thy = copy.copy(base)
            decls = {}
            for nm in ('vfc0', 'vfc1', 'vfc2'):
                argn = rng.choice([0, 1, 2])
                T = S.funs(*([rng.choice(tpool) for _ in range(argn)] + [rng.choice(tpool + [S.BOOL])]))
                theory.thy.add_term_sig(nm, S.to_repo_type(T))
                decls[nm] = T
            ctx.count('hist_theories')
            sig = c07.build_sig() + [(nm, G.decl(T)) for nm, T in decls.items()]
            for k in range(4):
                g = c07.Gen07(rng, sig, c07.type_pool(), names=c07.NAMES, p_svar=0.1, p_fresh=0.35, p_redex=0.05, overload=c07.OVERLOAD,
                              weights={'const': 8, 'atom': 3, 'app': 1, 'abs': 2})
                nm = rng.choice(list(decls))
                argTs, res = G.strip_fun(G.pinst(G.decl(decls[nm]), {'a': rng.choice([S.NAT, S.BOOL, ('tv', 'a')])}))
                cT = S.funs(*(argTs + [res]))
                s_ = ('const', nm, cT)
                for aT in argTs:
                    s_ = ('comb', s_, g.gen(aT, rng.choice([0, 1, 2])))
                if res == S.BOOL and rng.random() < 0.5:
                    s_ = S.mk_comb(('const', 'conj', S.funs(S.BOOL, S.BOOL, S.BOOL)), s_, g.gen(S.BOOL, 1))
                if not c07.term_ok(s_):
                    continue
                level = rng.choice([0, 1, 2])
                sk = erase(s_, level, rng)
                c07.set_ctx([s_])
                Mon.expect, Mon.level = s_, level
                ctx.count('hist_inferences')
                try:
                    infertype.type_infer(skeleton_term(sk))
                except infertype.TypeInferenceException:
                    if level == 2:
                        ctx.violation('infer:fails-although-constant-and-binder-types-are-given',
                                      'type inference raised on the erasure of %s (constant %s :: %s declared in the current ad-hoc theory)' % (
                                          S.tm_str(s_, True), nm, S.ty_str(decls[nm])),
                                      {'skeleton': S.jsonable(sk), 'origin': 'hist', 'level': 2, 'history': 'constant redeclared at another type in an earlier theory of this process'})
                except Exception as e:
                    ctx.count('hist_other_exception:' + type(e).__name__)
                finally:
                    Mon.expect, Mon.level = None, None
                ctx.case(('hist', round_, k, S.alpha(s_)), nontrivial=True)
    finally:
        theory.thy = base


def run_ctx_hist(ctx, count):
    """W-HIST: what inference knows about a VARIABLE must come from the context in force now.  An inference fails
    inside a nested context (fresh_context) that declares the same names at other types - as happens when the
    editor rejects an item - and the exception is caught outside; afterwards the enclosing context must be in
    force again: erasures of terms over its declarations must be recovered exactly."""
    from logic import context
    from syntax import infertype
    rng = ctx.rng
    B, NAT = S.BOOL, S.NAT
    tpool = [NAT, B, S.REAL, ('tv', 'a'), S.fun(NAT, NAT), ('tc', 'set', (NAT,))]
    Mon.origin = 'ctx-hist'
    for k in range(count):
        T1 = rng.choice(tpool)
        T2 = rng.choice([T for T in tpool if T != T1])
        outer = {'x': T1, 'y': T1, 'P': S.fun(T1, B)}
        inner = {'x': T2, 'y': T2, 'P': S.fun(T2, B)}
        context.set_context(None, vars={n: S.to_repo_type(T) for n, T in outer.items()})
        how = rng.choice(['ill-typed', 'occurs-check', 'no-failure'])
        try:
            with context.fresh_context(vars={n: S.to_repo_type(T) for n, T in inner.items()}):
                if how == 'ill-typed':
                    bad = S.mk_comb(('const', 'conj', NONE), ('comb', ('var', 'P', NONE), ('var', 'x', NONE)), ('var', 'x', NONE)) \
                        if T2 != B else ('comb', ('var', 'x', NONE), ('var', 'y', NONE))
                elif how == 'occurs-check':
                    bad = ('comb', ('var', 'x', NONE), ('var', 'x', NONE))
                else:
                    bad = S.mk_comb(('const', 'equals', NONE), ('var', 'x', NONE), ('var', 'y', NONE))
                Mon.expect, Mon.level = None, None
                infertype.type_infer(skeleton_term(bad))
                ctx.count('ctx_hist_inner_succeeded')
        except Exception:
            ctx.count('ctx_hist_inner_failed')
        xv, yv, Pv = ('var', 'x', T1), ('var', 'y', T1), ('var', 'P', S.fun(T1, B))
        s_ = rng.choice([S.mk_comb(('const', 'equals', S.funs(T1, T1, B)), xv, yv),
                         S.mk_comb(('const', 'conj', S.funs(B, B, B)), ('comb', Pv, xv), S.mk_comb(('const', 'equals', S.funs(T1, T1, B)), xv, yv)),
                         ('comb', Pv, yv)])
        sk = erase(s_, 0, rng)
        Mon.expect, Mon.level = s_, 0
        ctx.count('ctx_hist_outer_inferences')
        try:
            infertype.type_infer(skeleton_term(sk))
        except infertype.TypeInferenceException:
            ctx.violation('infer:fails-on-a-term-over-the-declared-variables-after-a-failure-in-a-nested-context',
                          'after %s inside fresh_context(%s), inference of %s in the enclosing context (%s) raised' % (
                              how, {n: S.ty_str(T) for n, T in inner.items()}, S.tm_str(s_, True), {n: S.ty_str(T) for n, T in outer.items()}),
                          {'skeleton': S.jsonable(sk), 'origin': 'ctx-hist', 'level': 0, 'vars': {n: S.jsonable(T) for n, T in outer.items()}})
        except Exception as e:
            ctx.count('ctx_hist_other_exception:' + type(e).__name__)
        finally:
            Mon.expect, Mon.level = None, None
        ctx.case(('ctx-hist', k, how, S.alpha(s_)), nontrivial=True)


def run_lib(ctx, spec):
    """library statements are re-parsed from their printed form: every parse goes through type_infer"""
    from kernel import theory
    from logic import basic
    from syntax import parser, printer
    import io, contextlib
    libreplay.prepare()
    Mon.origin = 'lib'
    rng = ctx.rng
    bins = libreplay.partition(spec['parts'])
    for name in bins[spec['i']]:
        try:
            basic.load_theory(name)
        except Exception as e:
            ctx.count('lib_theory_load_failed')
            continue
        for tname, th in list(theory.thy.get_data('theorems').items()):
            if rng.random() > spec['frac']:
                continue
            try:
                pr = S.tm_shadow(th.prop)
                if th.hyps or not c07.term_ok(pr):
                    continue
                c07.set_ctx([pr])
                text = printer.print_term(th.prop)
                with contextlib.redirect_stdout(io.StringIO()):
                    parser.parse_term(text)
                ctx.count('lib_statements_parsed')
            except Exception as e:
                ctx.count('lib_parse_exception:' + type(e).__name__)


def run_shard(ctx, spec):
    c07.setup()
    install(ctx)
    if 'replay' in spec:
        from syntax import infertype
        from logic import context
        w = spec['replay']['witness']
        sk = S.from_json(w['skeleton'])
        context.set_context(None, vars={k: S.to_repo_type(S.from_json(v)) for k, v in w.get('vars', {}).items()},
                            svars={k: S.to_repo_type(S.from_json(v)) for k, v in w.get('svars', {}).items()})
        Mon.origin = 'replay'
        if w.get('family') == 'late-clash':
            ctx.note('replay: late-clash family -> %s' % judge_late(ctx, sk, {k: S.from_json(v) for k, v in w.get('vars', {}).items()}))
            ctx.case('replay', sample=S.tm_str(sk, True))
            return
        try:
            infertype.type_infer(skeleton_term(sk))
        except Exception as e:
            ctx.note('replay: type_infer raised %s' % type(e).__name__)
        ctx.case('replay', sample=S.tm_str(sk, True))
        return
    if spec['kind'] == 'gen':
        run_gen(ctx, spec)
        run_late(ctx, max(40, spec['count'] // 6))
    elif spec['kind'] == 'hist':
        run_hist(ctx, spec)
        run_ctx_hist(ctx, spec['count'] * 3)
    else:
        run_lib(ctx, spec)
