"""C13 - proof editing preserves the goal and keeps the partial proof checkable.

Invariant hook after every editing operation that returned normally.  Every operation is applied to a
COPY of the state (copy.copy(state); a raising operation drops the copy, exactly as /api/apply-method
does).  Operations: server.method.apply_method with recorded library steps, with steps suggested by
state.search_method, with perturbed steps (other goal ids / fact selections, repeated application,
cut / cases / introduction / forall_elim / exists_elim / revert_intro / rewrite ... with parameters read
from the state), and the raw editing calls add_line_before / remove_line / set_line / apply_tactic in
their neutral uses.

Oracle after each accepted operation (all comparisons on vf.shadow tuples, structure walked here):
  (a) a full state.check_proof() succeeds and rpt.gaps == the multiset of visible `sorry` lines
  (b) the last line's sequent (and the sequent returned by the full check) is alpha-equal to the stated goal
  (c) ids are the positions at every depth; every citation can be depended on and resolves to an
      earlier visible line
  (d) no gap left  =>  check_proof(no_gaps=True) accepts
  (e) export (unicode, as server.monitor does) -> server.parse_proof under the theorem's variables gives
      the same lines (ids, rules, citations, stated sequents, printed arguments) and the same check result
  (f) the ORIGINAL state's deep snapshot is unchanged after the copy was edited - also when the edit raised.
Plus the web back end's history (app.ide.ProofCache): states[i] must stay the state after i steps.

Verdicts: a raising operation is a rejection.  A violation = the operation returned normally and one of (a)-(f) fails; the
mechanism key names the invariant and the method, and - where a predicate on what the operation did (monitors on
ProofState.remove_line / set_line / apply_tactic, OpLog) identifies an already understood root cause - that root cause,
so that a known defect of one method cannot hide another failure of the same method.
"""
import copy, json, os, sys, types
from collections import Counter
from vf import shadow as S, libreplay

ID = 'C13'
LEVEL = 'exploration'
RULE = ('case = one editing operation applied to a copy of a proof state reached by a history of earlier operations '
        '(recorded library steps replayed prefix by prefix; branches with perturbed operations: steps suggested by '
        'search_method, recorded steps re-aimed at other goal ids / facts, repeated steps, cut / cases / introduction / '
        'forall_elim / exists_elim / revert_intro / rewrite / apply_* with parameters read from the state, neutral raw '
        'add_line_before / remove_line / set_line / apply_tactic calls; the same on generated propositional and '
        'first-order goals stated in theory logic and a few arithmetic/set goals); distinct = hash of (goal, operation '
        'history); non-trivial = the operation returned normally on a proof of >= 3 lines')
ASSUMPTIONS = ['Z3 steps are stubbed (z3wrapper.check_z3 = False), the repo\'s own replay configuration in server/monitor.py',
               'an operation = the editing call followed by check_proof(compute_only=True), as ProofState.parse_steps does; '
               'either raising is a rejection',
               'raw remove_line / set_line are only driven in neutral uses (on an empty line), raw add_line_before anywhere',
               'export uses global_setting(unicode=True) and re-import uses context.set_context(None, vars=<theorem vars>), '
               'the protocol of server.monitor.check_proof',
               'after a state failed its full re-check, later operations on that history are only judged structurally',
               'app.ide is imported with a stub for app.app (Flask 3 cannot import the repo\'s JSON encoder); only ProofCache is driven']
REQUIRED = {'quick': {'ops_accepted': 1300, 'ops_rejected': 300, 'rechecks_ok': 1200, 'gap_reports_compared': 1200,
                      'structure_walks': 1400, 'citations_resolved': 20000, 'reimports_compared': 900,
                      'complete_proofs_rechecked_no_gaps': 100, 'isolation_checked': 1600, 'isolation_checked_after_raise': 300,
                      'lib_recorded_steps_accepted': 900, 'perturbed_ops_accepted': 120, 'gen_ops_accepted': 250,
                      'search_calls': 300, 'ide_history_states_compared': 100, 'scenarios_completed': 5},
            'thorough': {'ops_accepted': 20000, 'ops_rejected': 3000, 'rechecks_ok': 18000, 'gap_reports_compared': 18000,
                         'structure_walks': 20000, 'citations_resolved': 400000, 'reimports_compared': 15000,
                         'complete_proofs_rechecked_no_gaps': 1500, 'isolation_checked': 24000,
                         'isolation_checked_after_raise': 3000, 'lib_recorded_steps_accepted': 18000,
                         'perturbed_ops_accepted': 1000, 'gen_ops_accepted': 3000, 'search_calls': 2000,
                         'ide_history_states_compared': 500, 'scenarios_completed': 5}}
SHARD_TIMEOUT = {'quick': 900, 'thorough': 7200}

GEN_VARS = {'A': 'bool', 'B': 'bool', 'C': 'bool', 'P': "'a => bool", 'Q': "'a => bool", 'R': "'a => 'a => bool",
            'a': "'a", 'b': "'a", 'f': "'a => 'a"}


def shards(tier, seed):
    if tier == 'quick':
        return ([{'kind': 'lib', 'i': i, 'parts': 11, 'frac': 0.1, 'branch': 0.5, 'export_p': 0.4, 'window': 30, 'budget': 320, 'unit': 100000}
                 for i in range(11)] +
                [{'kind': 'gen', 'i': i, 'goals': 26, 'ops': 12} for i in range(4)] +
                [{'kind': 'ide', 'i': 0, 'theorems': 14}])
    return ([{'kind': 'lib', 'i': i, 'parts': 44, 'frac': 1.0, 'branch': 0.25, 'unit': 700} for i in range(44)] +
            [{'kind': 'gen', 'i': i, 'goals': 220, 'ops': 16} for i in range(10)] +
            [{'kind': 'ide', 'i': i, 'theorems': 60} for i in range(2)])


# ------------------------------------------------------------------ shadows of proof states
class Memo:
    """term shadow memo for ONE judged operation, keyed by object identity; every memoised root is kept alive here.
    Types are NOT memoised across calls: the printer (infertype.infer_printed_type -> type_infer ->
    subst_type_inplace) replaces the Type objects hanging off Var nodes by fresh equal ones on every print, so the
    old objects die and their ids are recycled."""
    def __init__(self):
        self.tm = {}
        self.keep = []

    def term(self, t):
        self.keep.append(t)
        return S.tm_shadow(t, self.tm, {})

    def type(self, T):
        return S.ty_shadow(T)


def thm_sh(th, M):
    if th is None:
        return None
    return (tuple(M.term(h) for h in th.hyps), M.term(th.prop))


def seq_key(sh):
    """sequent modulo alpha and order / repetition of hypotheses"""
    if sh is None:
        return None
    return (tuple(sorted({repr(S.alpha(h)) for h in sh[0]})), repr(S.alpha(sh[1])))


def args_sh(a, M):
    from kernel.term import Term, Inst
    from kernel.type import Type, TyInst
    if a is None:
        return None
    if isinstance(a, str):
        return ('s', a)
    if isinstance(a, Term):
        return ('t', M.term(a))
    if isinstance(a, Type):
        return ('T', M.type(a))
    if isinstance(a, Inst):
        return ('inst', tuple(sorted((k, M.term(v)) for k, v in a.items())),
                tuple(sorted((k, M.type(v)) for k, v in a.tyinst.items())),
                tuple(sorted((k, M.term(v)) for k, v in a.var_inst.items())),
                tuple(sorted(a.abs_name_inst.items())))
    if isinstance(a, TyInst):
        return ('tyinst', tuple(sorted((k, M.type(v)) for k, v in a.items())))
    if isinstance(a, (tuple, list)):
        return (type(a).__name__,) + tuple(args_sh(x, M) for x in a)
    return ('o', repr(a))


def flat_lines(state):
    """[(position path, item)] by walking items / subproofs (our own walk)"""
    out = []
    stack = [((j,), it) for j, it in reversed(list(enumerate(state.prf.items)))]
    while stack:
        pos, it = stack.pop()
        out.append((pos, it))
        sub = it.subproof
        if sub is not None:
            for j, s in reversed(list(enumerate(sub.items))):
                stack.append((pos + (j,), s))
    return out


def snapshot(state, M):
    """deep structural snapshot: variables, every line (position, id, rule, citations, sequent, arguments), report gaps"""
    vs = tuple((v.name, M.type(v.T)) for v in state.vars)
    lines = []
    for pos, it in flat_lines(state):
        lines.append((pos, it.id.id, it.rule, tuple(p.id for p in it.prevs), thm_sh(it.th, M), args_sh(it.args, M),
                      None if it.subproof is None else len(it.subproof.items)))
    gaps = None
    if state.rpt is not None:
        gaps = tuple(thm_sh(g, M) for g in state.rpt.gaps)
    return (vs, tuple(lines), gaps)


FIELDS = ('position', 'id', 'rule', 'prevs', 'th', 'args', 'subproof')


def snapshot_diff(a, b):
    """-> (field, description) of the first difference"""
    if a[0] != b[0]:
        return 'vars', 'declared variables changed'
    if len(a[1]) != len(b[1]):
        return 'line-count', 'number of lines %d -> %d' % (len(a[1]), len(b[1]))
    for la, lb in zip(a[1], b[1]):
        for k, f in enumerate(FIELDS):
            if la[k] != lb[k]:
                def show(x):
                    return repr(x)[:120]
                return f, 'line at position %s: %s %s -> %s' % ('.'.join(map(str, la[0])), f, show(la[k]), show(lb[k]))
    if a[2] != b[2]:
        return 'rpt', 'report gaps changed'
    return None, ''


def dep_ok(idt, pt):
    """independent statement of ItemID.can_depend_on: pt is an earlier line of the block of idt or of an enclosing block"""
    n = len(pt)
    return 1 <= n <= len(idt) and pt[:n - 1] == idt[:n - 1] and pt[n - 1] < idt[n - 1]


def structure_problems(ctx, state):
    """(c): ids are positions at every depth; citations depend-able and resolving to an existing earlier visible line"""
    probs = []
    lines = flat_lines(state)
    by_pos = {pos: it for pos, it in lines}
    ctx.count('structure_walks')
    for pos, it in lines:
        if it.id.id != pos:
            probs.append(('ids-not-contiguous', 'line at position %s carries id %s' % ('.'.join(map(str, pos)), it.id)))
    for pos, it in lines:
        for p in it.prevs:
            pt = p.id
            ctx.count('citations_resolved')
            if not dep_ok(pos, pt):
                rel = ('target-is-a-block-enclosing-the-citing-line' if tuple(pos[:len(pt)]) == tuple(pt) and len(pt) < len(pos)
                       else 'target-is-the-citing-line-itself' if tuple(pos) == tuple(pt)
                       else 'target-is-later-or-inside-a-closed-block')
                probs.append(('citation-not-earlier-visible:' + rel, 'line %s (%s) cites %s, which is not an earlier line of its own or an '
                              'enclosing block' % ('.'.join(map(str, pos)), it.rule, p)))
            elif pt not in by_pos:
                probs.append(('citation-not-earlier-visible:target-missing', 'line %s (%s) cites %s, which does not exist' % (
                    '.'.join(map(str, pos)), it.rule, p)))
            else:
                try:
                    repo = it.id.can_depend_on(p)
                except Exception:
                    repo = None
                if repo is not True and it.id.id == pos:
                    probs.append(('citation-not-earlier-visible', 'ItemID.can_depend_on(%s, %s) is %r for a visible earlier line' % (
                        it.id, p, repo)))
    return probs


def visible_sorrys(state, M):
    return Counter(seq_key(thm_sh(it.th, M)) for _, it in flat_lines(state) if it.rule == 'sorry')


# ------------------------------------------------------------------ failing-line tracker
class Track:
    first = None
    installed = False


def install_tracker():
    """remember the innermost proof item at which a check raised (for classification only)"""
    from kernel.theory import Theory
    install_oplog()
    if Track.installed:
        return
    orig = Theory._check_proof_item

    def wrapper(self, prf, seq, rpt, no_gaps, compute_only, check_level):
        try:
            return orig(self, prf, seq, rpt, no_gaps, compute_only, check_level)
        except BaseException:
            if Track.first is None:
                Track.first = (seq.rule, str(seq.id))
            raise
    Theory._check_proof_item = wrapper
    Track.installed = True


class OpLog:
    """what the editing primitives did during the operation in progress (monitors on ProofState.remove_line /
    set_line; used only to name the root cause of a failure, never to decide one)"""
    removed = []          # (id tuple, rule, alpha shadow of the stated proposition or None)
    tactic_calls = []     # (tactic, goal sequent, args, premises) of every ProofState.apply_tactic
    stale_trivial = False
    installed = False

    @classmethod
    def reset(cls):
        cls.removed = []
        cls.tactic_calls = []
        cls.stale_trivial = False


def install_oplog():
    from server.method import ProofState
    from kernel.proof import ItemID
    if OpLog.installed:
        return
    orig_remove, orig_set = ProofState.remove_line, ProofState.set_line

    def remove_line(self, id):
        try:
            it = self.get_proof_item(ItemID(id))
            prop = S.alpha(S.tm_shadow(it.th.prop)) if it.th is not None else None
            OpLog.removed.append((ItemID(id).id, it.rule, prop))
        except Exception:
            pass
        return orig_remove(self, id)

    def set_line(self, id, rule, *, args=None, prevs=None, th=None):
        try:
            if rule == 'trivial' and args is not None:
                a = S.alpha(S.tm_shadow(args))
                if any(r[0] == ItemID(id).id and r[2] == a for r in OpLog.removed):
                    OpLog.stale_trivial = True
        except Exception:
            pass
        return orig_set(self, id, rule, args=args, prevs=prevs, th=th)
    orig_tac = ProofState.apply_tactic

    def apply_tactic(self, id, tactic, args=None, prevs=None):
        try:
            from kernel.proofterm import ProofTerm
            gid = ItemID(id)
            th0 = self.get_proof_item(gid).th
            pts = [ProofTerm.atom(ItemID(p), self.get_proof_item(ItemID(p)).th) for p in (prevs or [])]
            OpLog.tactic_calls.append((tactic, th0, args, pts))
        except Exception:
            pass
        return orig_tac(self, id, tactic, args=args, prevs=prevs)
    ProofState.remove_line = remove_line
    ProofState.set_line = set_line
    ProofState.apply_tactic = apply_tactic
    OpLog.installed = True


def tactic_concludes_other_statement():
    """re-run the (pure) tactic of the operation on the goal it was given: does its proof term state another proposition?"""
    for tactic, th0, args, pts in OpLog.tactic_calls:
        try:
            pt = tactic.get_proof_term(th0, args=args, prevs=pts)
            if S.alpha(S.tm_shadow(pt.th.prop)) != S.alpha(S.tm_shadow(th0.prop)):
                return True
        except (KeyboardInterrupt, SystemExit):
            raise
        except BaseException:
            pass
    return False


def recheck_mechanism(sess, new, op, M, exc=None):
    """mechanism key of a failing full re-check; root causes that are already understood get their own key (a predicate
    on what the operation did), so that listing them as known cannot hide other failures of the same method"""
    name = op_name(op)
    failing_rule, failing_id = Track.first if Track.first else (None, None)
    step = op.get('step', {}) if op['op'] == 'method' else {}
    if OpLog.stale_trivial:
        return 'recheck-fails-after-edit:apply_tactic-closes-an-already-removed-subgoal-as-trivial'
    if name == 'introduction' and any(r[1] != 'sorry' for r in OpLog.removed):
        return 'recheck-fails-after-edit:introduction-removes-a-non-gap-line-of-its-new-block'
    given = [x.strip() for x in (step.get('names') or '').split(',') if x.strip()]
    if name in ('introduction', 'exists_elim') and given:
        try:
            used = set(sess.cur.get_vars(step['goal_id']))
        except Exception:
            used = set()
        if used & set(given):
            return 'recheck-fails-after-edit:%s-with-a-name-already-in-use' % name
    if name == 'exists_elim':
        if failing_rule == 'intros' and len(given) > 1:
            return 'recheck-fails-after-edit:exists_elim-with-several-names'
        for _, it in flat_lines(new):
            if it.th is not None and ((it.rule == 'assume' and len(it.th.hyps) > 1) or (it.rule == 'variable' and len(it.th.hyps) > 0)):
                return 'recheck-fails-after-edit:exists_elim-adds-its-hypothesis-to-later-assume-or-variable-lines'
    if tactic_concludes_other_statement():
        return 'recheck-fails-after-edit:tactic-concludes-a-statement-other-than-the-goal'
    if failing_rule == name and failing_id == step.get('goal_id'):
        return 'recheck-fails-after-edit:macro-method-on-a-goal-its-macro-does-not-prove:' + name
    if failing_id is not None and name in ('rewrite_goal_with_prev', 'rewrite_goal', 'apply_tactic(rewrite_goal_with_prev)'):
        by = {str(it.id): it for _, it in flat_lines(new)}
        L = by.get(failing_id)
        if L is not None and L.th is not None:
            k = seq_key(thm_sh(L.th, M))
            for p in L.prevs:
                c = by.get(str(p))
                if c is not None and c.rule == 'sorry' and seq_key(thm_sh(c.th, M)) == k:
                    return 'recheck-fails-after-edit:%s-leaves-the-goal-unchanged' % name
    # not understood yet: keyed by the method AND the rule of the line at which the re-check fails
    return 'recheck-fails-after-edit:%s@%s:%s' % (name, failing_rule or 'unknown-line', type(exc).__name__ if exc is not None else 'exception')


def exc_name(e):
    return type(e).__name__


def sstr(x, n=300):
    """printing goes through the repo's printer, which can itself raise (schematic variables without a context)"""
    try:
        return str(x)[:n]
    except (KeyboardInterrupt, SystemExit):
        raise
    except BaseException as e:
        return '<unprintable: %s>' % exc_name(e)


# ------------------------------------------------------------------ sessions and operations
class Session:
    def __init__(self, ctx, origin, vars_, state, goal_key, kind):
        self.ctx, self.origin, self.vars, self.cur, self.goal, self.kind = ctx, origin, vars_, state, goal_key, kind
        self.ops = []
        self.tainted = False
        self.bad_structure = False
        self.goal_lost = False
        self.reported = set()
        self.last_step = None
        self.last_params = None

    export_p = 1.0      # probability of the export/re-import comparison on proofs of more than 20 lines

    def do_export(self, nlines):
        return nlines <= 20 or Session.export_p >= 1.0 or self.ctx.rng.random() < Session.export_p

    def fork(self):
        s = Session(self.ctx, self.origin, self.vars, self.cur, self.goal, self.kind)
        s.ops = list(self.ops)
        s.tainted = self.tainted
        s.bad_structure = self.bad_structure
        s.goal_lost = self.goal_lost
        s.reported = self.reported
        s.last_step = self.last_step
        return s

    def witness(self, op):
        return {'origin': self.origin, 'ops': self.ops + [op]}

    def violation(self, mech, desc, op):
        if mech in self.reported:
            self.ctx.count('repeat_of_reported_mechanism_in_same_history')
            return
        self.reported.add(mech)
        o = self.origin
        where = '%s.%s' % (o.get('theory'), o.get('theorem')) if o.get('theorem') else 'goal %s' % o.get('prop')
        self.ctx.violation(mech, '%s, operation #%d %s: %s' % (where, len(self.ops), op_label(op), desc), self.witness(op))


def op_name(op):
    if op['op'] == 'method':
        return op['step'].get('method_name', '?')
    if op['op'] == 'apply_tactic':
        return 'apply_tactic(%s)' % op['tactic']
    return op['op']


def op_label(op):
    if op['op'] == 'method':
        st = op['step']
        extra = {k: v for k, v in st.items() if k not in ('method_name', 'goal_id', 'fact_ids')}
        return '%s on %s%s %s' % (st.get('method_name'), st.get('goal_id'),
                                   ' using ' + ','.join(st['fact_ids']) if st.get('fact_ids') else '', json.dumps(extra, ensure_ascii=False)[:160])
    return json.dumps(op, ensure_ascii=False)[:200]


class HarnessSkip(Exception):
    """the harness declines to drive this raw call (outside the neutral uses)"""


def parse_in(state, id_, s, what='term'):
    from logic import context
    from syntax import parser
    with context.fresh_context(vars=state.get_vars(id_)):
        if what == 'term':
            t = parser.parse_term(s)
            for v in t.get_vars():
                if v.name not in context.ctxt.vars:
                    raise HarnessSkip('extra variable')
            return t
        return parser.parse_type(s)


def exec_op(state, op):
    """run ONE editing operation of the real code on `state` (already a copy)"""
    from server import method
    from logic import tactic
    from kernel.thm import Thm
    from kernel.proof import ItemID
    k = op['op']
    if k == 'method':
        method.apply_method(state, op['step'])
    elif k == 'add_line_before':
        state.add_line_before(op['id'], op['n'])
    elif k == 'remove_line':
        if state.get_proof_item(op['id']).rule != '':
            raise HarnessSkip('remove_line only driven on empty lines')
        state.remove_line(op['id'])
    elif k == 'set_line':
        if state.get_proof_item(op['id']).rule != '':
            raise HarnessSkip('set_line only driven on empty lines')
        if op['rule'] == 'theorem':
            state.set_line(op['id'], 'theorem', args=op['args'])
        elif op['rule'] == 'sorry':
            C = parse_in(state, op['id'], op['prop'])
            hyps = state.get_proof_item(op['hyps_of']).th.hyps if op.get('hyps_of') else ()
            state.set_line(op['id'], 'sorry', th=Thm(C, tuple(hyps)))
        else:
            raise HarnessSkip('set_line rule')
    elif k == 'apply_tactic':
        name = op['tactic']
        args = None
        if name == 'rule':
            tac, args = tactic.rule(), op['args']
        elif name == 'cases':
            tac, args = tactic.cases(), parse_in(state, op['id'], op['args'])
        elif name == 'intros':
            tac, args = tactic.intros(), list(op['args'])
        elif name == 'rewrite_goal':
            tac, args = tactic.rewrite_goal(sym=bool(op.get('sym'))), op['args']
        elif name == 'apply_prev':
            tac = tactic.apply_prev()
        elif name == 'rewrite_goal_with_prev':
            tac = tactic.rewrite_goal_with_prev()
        elif name == 'inst_exists_goal':
            tac, args = tactic.inst_exists_goal(), parse_in(state, op['id'], op['args'])
        else:
            raise HarnessSkip('tactic')
        prevs = op.get('prevs') or []
        gid = ItemID(op['id'])
        if not all(dep_ok(gid.id, ItemID(p).id) for p in prevs):
            raise HarnessSkip('illegal dependence')     # apply_method refuses these before any edit
        state.apply_tactic(op['id'], tac, args=args, prevs=prevs)
    else:
        raise HarnessSkip('unknown op')


def apply_op(sess, op, tag):
    """apply op to a copy of sess.cur; judge; on acceptance advance the session.  -> 'ok' | 'rejected' | ('query', params)"""
    from kernel import theory
    ctx = sess.ctx
    cur = sess.cur
    M = Memo()
    before = snapshot(cur, M)
    new = copy.copy(cur)
    ok, query = True, None
    OpLog.reset()
    try:
        exec_op(new, op)
        new.check_proof(compute_only=True)
    except HarnessSkip:
        ctx.count('ops_not_driven')
        return 'rejected'
    except theory.ParameterQueryException as e:
        ok, query = False, list(e.params)
        ctx.count('ops_parameter_query')
    except (KeyboardInterrupt, SystemExit):
        raise
    except BaseException as e:
        ok = False
        ctx.count('rej:' + exc_name(e))
    after = snapshot(cur, M)
    ctx.count('isolation_checked')
    if not ok:
        ctx.count('isolation_checked_after_raise')
    if before != after:
        f, d = snapshot_diff(before, after)
        sess.violation('copy-not-isolated:%s' % f, 'the original state changed while its copy was edited%s: %s' % (
            '' if ok else ' (the edit raised)', d), op)
    name = op_name(op)
    if not ok:
        ctx.count('ops_rejected')
        ctx.count('rejected:' + name)
        ctx.case((json.dumps(sess.origin, sort_keys=True), json.dumps(sess.ops + [op], sort_keys=True)), nontrivial=False)
        return ('query', query) if query else 'rejected'
    ctx.count('ops_accepted')
    ctx.count('accepted:' + name)
    ctx.count(tag)
    judge(sess, new, op, M)
    n_lines = len(flat_lines(new))
    sample = None
    if ctx.evaluations % 997 == 3:
        sample = {'origin': sess.origin, 'history_length': len(sess.ops), 'operation': op_label(op), 'lines_after': n_lines}
    ctx.case((json.dumps(sess.origin, sort_keys=True), json.dumps(sess.ops + [op], sort_keys=True)), nontrivial=n_lines >= 3, sample=sample)
    sess.cur = new
    sess.ops.append(op)
    if op['op'] == 'method':
        sess.last_step = op['step']
    return 'ok'


def judge(sess, new, op, M):
    from logic import context
    from server import server
    from syntax.settings import global_setting
    ctx = sess.ctx
    name = op_name(op)
    # (c) structure
    if sess.bad_structure:
        ctx.count('ops_on_history_whose_structure_was_already_broken')
    else:
        for mech, desc in structure_problems(ctx, new):
            sess.bad_structure = True
            sess.violation(mech + ':' + name, desc, op)
    # (b) goal on the stored last line
    last = new.prf.items[-1] if new.prf.items else None
    last_key = seq_key(thm_sh(last.th, M)) if last is not None else None
    gmech = 'goal-changed:' + name
    if op['op'] == 'method':
        try:
            if sess.cur.get_proof_item(op['step']['goal_id']).rule != 'sorry':
                gmech = 'goal-changed:method-aimed-at-a-line-that-is-not-a-gap'
        except Exception:
            pass
    if last_key != sess.goal and getattr(sess, 'goal_lost', False):
        # an EARLIER operation of this history already changed the goal (reported there): what follows is the same finding
        ctx.count('ops_on_history_whose_goal_was_already_changed')
        return
    if last_key != sess.goal:
        sess.goal_lost = True
        sess.violation(gmech, 'last line (%s) states %s, the goal was %s' % (
            last.rule if last is not None else None, sstr(last.th) if last is not None else None, sess.origin.get('prop')), op)
    if sess.tainted:
        ctx.count('ops_on_history_whose_recheck_already_failed')
        return
    # (a) full re-check
    chk = copy.copy(new)
    Track.first = None
    try:
        res = chk.check_proof()
    except (KeyboardInterrupt, SystemExit):
        raise
    except BaseException as e:
        sess.tainted = True
        sess.violation(recheck_mechanism(sess, new, op, M, e),
                       'the operation returned normally (and check_proof(compute_only=True) passed) but the full check raises %s at line %s: %s' % (
                           exc_name(e), Track.first, sstr(e, 300).replace('\n', ' | ')), op)
        return
    ctx.count('rechecks_ok')
    res_key = seq_key(thm_sh(res, M)) if res is not None else None
    if res_key != sess.goal:
        sess.violation(gmech, 'the full check returns %s, the goal was %s' % (sstr(res), sess.origin.get('prop')), op)
    want = visible_sorrys(new, M)
    got = Counter(seq_key(thm_sh(g, M)) for g in chk.rpt.gaps)
    ctx.count('gap_reports_compared')
    if want != got:
        sess.violation('gaps-report-differs:' + name, 'full check reports %d gaps, the proof shows %d sorry lines (only in report: %s; only visible: %s)' % (
            sum(got.values()), sum(want.values()), list((got - want))[:2], list((want - got))[:2]), op)
    try:
        repo_s = Counter(seq_key(thm_sh(t, M)) for t in new.prf.get_sorrys())
        if repo_s != want:
            sess.violation('gaps-report-differs:Proof.get_sorrys', 'Proof.get_sorrys lists %d gaps, the walk finds %d sorry lines' % (
                sum(repo_s.values()), sum(want.values())), op)
    except Exception as e:
        ctx.count('get_sorrys_raised:' + exc_name(e))
    # (d)
    if not want and not got:
        chk2 = copy.copy(new)
        ctx.count('complete_proofs_rechecked_no_gaps')
        try:
            chk2.check_proof(no_gaps=True)
        except BaseException as e:
            sess.violation('complete-proof-rejected-with-gaps-disallowed:' + name, 'no gap is left but check_proof(no_gaps=True) raises %s: %s' % (
                exc_name(e), sstr(e, 200)), op)
    # (e) export -> import (sampled on long proofs in the quick tier; always in replays)
    if not sess.do_export(len(flat_lines(new))):
        ctx.count('export_not_sampled')
        return
    try:
        with global_setting(unicode=True):
            exp = new.export_proof()
    except BaseException as e:
        sess.violation('export-import-differs:export-raises:' + exc_name(e), 'export_proof raised %s' % sstr(e, 200), op)
        return
    ctx.count('exports')
    context.set_context(None, vars=sess.vars)
    Track.first = None
    try:
        imp = server.parse_proof(exp)
    except (KeyboardInterrupt, SystemExit):
        raise
    except BaseException as e:
        mech, desc = classify_import_failure(sess, new, exp, e, M)
        ctx.count('reimport_failed')
        sess.violation(mech, desc, op)
        context.set_context(None, vars=sess.vars)
        return
    context.set_context(None, vars=sess.vars)
    ctx.count('reimports_compared')
    M2 = Memo()
    a_lines, b_lines = flat_lines(chk), flat_lines(imp)
    if len(a_lines) != len(b_lines):
        sess.violation('export-import-differs:line-count', '%d lines exported, %d after re-import' % (len(a_lines), len(b_lines)), op)
        return
    try:
        with global_setting(unicode=True):
            exp2 = imp.export_proof()
    except BaseException as e:
        exp2 = None
    for k, ((pa, ia), (pb, ib)) in enumerate(zip(a_lines, b_lines)):
        if pa != pb or ia.id.id != ib.id.id:
            sess.violation('export-import-differs:ids', 'line %s re-imported as %s' % (ia.id, ib.id), op)
            break
        if ia.rule != ib.rule:
            sess.violation('export-import-differs:rule', 'line %s: rule %s re-imported as %s' % (ia.id, ia.rule, ib.rule), op)
            break
        if [p.id for p in ia.prevs] != [p.id for p in ib.prevs]:
            sess.violation('export-import-differs:citations', 'line %s: citations differ after re-import' % ia.id, op)
            break
        ka, kb = seq_key(thm_sh(ia.th, M)), seq_key(thm_sh(ib.th, M2))
        if ka != kb:
            mech, detail = classify_sequent_diff(new, ia, ib, M, M2)
            sess.violation(mech, 'line %s (%s): stated sequent %s re-imported as %s; %s (exported text: %s)' % (
                ia.id, ia.rule, sstr(ia.th), sstr(ib.th), detail, exp[k]['th'][:200]), op)
            break
        if exp2 is not None and exp2[k]['args'] != exp[k]['args']:
            rt = term_round_trip_failure(new, ia)
            sess.violation(C07_MECH if rt else 'export-import-differs:printed-arguments:' + ia.rule, 'line %s (%s): arguments printed as %r, after re-import %r' % (
                ia.id, ia.rule, exp[k]['args'][:160], exp2[k]['args'][:160]), op)
            break
    ilast = imp.prf.items[-1].th if imp.prf.items else None
    if seq_key(thm_sh(ilast, M2)) != res_key:
        sess.violation('export-import-differs:check-result', 're-imported proof checks to %s instead of %s' % (sstr(ilast), sstr(res)), op)
    got2 = Counter(seq_key(thm_sh(g, M2)) for g in imp.rpt.gaps)
    if got2 != got:
        sess.violation('export-import-differs:check-result-gaps', 're-imported proof reports %d gaps instead of %d' % (
            sum(got2.values()), sum(got.values())), op)


def var_types_at(state, item, M):
    """name -> set of type shadows among the variables visible at the line and those occurring in its sequent / arguments"""
    seen = {}
    try:
        for nm, T in state.get_vars(item.id).items():
            seen.setdefault(nm, set()).add(M.type(T))
    except Exception:
        pass
    shs = []
    if item.th is not None:
        shs.extend(M.term(h) for h in item.th.hyps)
        shs.append(M.term(item.th.prop))
    from kernel.term import Term
    a = item.args
    for x in (a if isinstance(a, (tuple, list)) else [a]):
        if isinstance(x, Term):
            shs.append(M.term(x))
    for sh in shs:
        for at in S.atoms(sh, ('var',)):
            seen.setdefault(at[1], set()).add(at[2])
    return seen


def item_terms(item):
    from kernel.term import Term, Inst
    out = []
    if item.th is not None:
        out.extend(item.th.hyps)
        out.append(item.th.prop)
    a = item.args
    for x in (a if isinstance(a, (tuple, list)) else [a]):
        if isinstance(x, Term):
            out.append(x)
        elif isinstance(x, Inst):
            out.extend(x.values())
    return out


def term_round_trip_failure(state, item):
    """does one of the terms of the line, taken alone, fail print -> parse under the variables visible at the line?
    (that is the printer/grammar disagreement which property C07 is about, surfacing through the proof export)"""
    from logic import context
    from syntax import parser, printer
    from syntax.settings import global_setting
    try:
        vars_ = state.get_vars(item.id)
    except Exception:
        return None
    for t in item_terms(item):
        try:
            before = S.alpha(S.tm_shadow(t))
            with global_setting(unicode=True):
                txt = printer.print_term(t)
            with context.fresh_context(vars=vars_):
                t2 = parser.parse_term(txt)
            if S.alpha(S.tm_shadow(t2)) != before:
                return 'the term printed as %r parses back to a different term' % txt[:120]
        except (KeyboardInterrupt, SystemExit):
            raise
        except BaseException as e:
            return 'a term of the line (%s) does not survive print -> parse on its own: %s' % (sstr(t, 100), exc_name(e))
    return None


C07_MECH = 'export-import-differs:a-term-of-the-line-does-not-survive-print-parse(see C07)'


def leaked_declaration(state, item, M):
    """does the line mention a variable whose name was declared, at another type, by a `variable` line of an EARLIER block
    that is already closed (not visible from the line)?  server.parse_proof keeps such declarations in force"""
    lines = flat_lines(state)
    pos = item.id.id
    mine = {}
    for t in item_terms(item):
        for at in S.atoms(M.term(t), ('var',)):
            mine.setdefault(at[1], set()).add(at[2])
    for p, it in lines:
        if p == pos:
            break
        if it.rule == 'variable' and not dep_ok(pos, p):
            nm, T = it.args
            if nm in mine and M.type(T) not in mine[nm]:
                return True
    return False


def classify_import_failure(sess, new, exp, e, M):
    """mechanism key for a re-import that raised: which stage, which line, and known root causes"""
    from logic import context
    from syntax import parser
    context.set_context(None, vars=sess.vars)
    by_id = {str(it.id): it for _, it in flat_lines(new)}
    for line in exp:
        try:
            if line['rule'] == 'variable':
                nm, str_T = line['args'].split(',', 1)
                context.ctxt.vars[nm] = parser.parse_type(str_T.strip())
            parser.parse_proof_rule(line)
        except BaseException as e2:
            it = by_id.get(line['id'])
            field = 'stated-sequent'
            try:
                if line['th'] != '':
                    parser.parse_thm(line['th'])
                field = 'arguments-of-' + line['rule']
            except BaseException:
                pass
            clash = it is not None and any(len(ts) > 1 for ts in var_types_at(new, it, M).values())
            rt = None
            if clash:
                mech = 'export-import-differs:one-name-for-variables-of-two-types'
            elif it is not None and leaked_declaration(new, it, M):
                mech = 'export-import-differs:parse_proof-leaks-variable-declarations-of-closed-blocks'
            else:
                rt = term_round_trip_failure(new, it) if it is not None else None
                mech = C07_MECH if rt else 'export-import-differs:line-unparsable:%s:%s' % (field, exc_name(e2))
            return mech, 'exported line %s (%s) cannot be parsed back: %s %s; th=%r args=%r %s' % (
                line['id'], line['rule'], exc_name(e2), sstr(e2, 160).replace('\n', ' | '), line['th'][:200], line['args'][:120], rt or '')
    rule, lid = Track.first if Track.first else ('?', '?')
    it = by_id.get(lid)
    clash = it is not None and any(len(ts) > 1 for ts in var_types_at(new, it, M).values())
    detail = ''
    if it is not None:
        from kernel.term import Inst
        a = it.args
        for x in (a if isinstance(a, tuple) else [a]):
            if isinstance(x, Inst) and x.tyinst:
                detail = ':type-instantiation-not-exported'
    if clash:
        detail = ':one-name-for-variables-of-two-types'
    line = next((l for l in exp if l['id'] == lid), None)
    mech = 'export-import-differs:reimported-line-fails-check:%s%s' % (rule, detail)
    if clash:
        mech = 'export-import-differs:one-name-for-variables-of-two-types'
    return (mech,
            'all lines parse back, but checking the re-imported proof raises %s at line %s (%s): %s; exported line: %s' % (
                exc_name(e), lid, rule, sstr(e, 200).replace('\n', ' | '), json.dumps(line, ensure_ascii=False)[:300]))


def first_diff(x, y, path=''):
    """first place where two shadows differ (after dropping bound-name hints)"""
    stack = [(x, y, '')]
    while stack:
        a, b, p = stack.pop()
        if a == b:
            continue
        if a[0] != b[0]:
            return '%s: %s vs %s' % (p or 'top', S.tm_str(a, True)[:120], S.tm_str(b, True)[:120])
        if a[0] == 'comb':
            stack.append((a[2], b[2], p + 'a'))
            stack.append((a[1], b[1], p + 'f'))
        elif a[0] == 'abs':
            if a[2] != b[2]:
                return '%s: bound variable %s of type %s vs %s' % (p or 'top', a[1], S.ty_str(a[2]), S.ty_str(b[2]))
            stack.append((a[3], b[3], p + 'b'))
        else:
            return '%s: %s vs %s' % (p or 'top', S.tm_str(a, True), S.tm_str(b, True))
    return ''


def classify_sequent_diff(new, ia, ib, M, M2):
    a, b = thm_sh(ia.th, M), thm_sh(ib.th, M2)
    if a is None or b is None:
        return 'export-import-differs:stated-sequent:missing', ''
    if any(len(ts) > 1 for ts in var_types_at(new, ia, M).values()):
        return 'export-import-differs:one-name-for-variables-of-two-types', ''
    rt = term_round_trip_failure(new, ia)
    if rt:
        return C07_MECH, rt

    def erase(sh):
        # same term up to types?
        k = sh[0]
        if k == 'comb':
            return ('comb', erase(sh[1]), erase(sh[2]))
        if k == 'abs':
            return ('abs', erase(sh[3]))
        if k in ('var', 'svar', 'const'):
            return (k, sh[1])
        return sh
    detail = ''
    if S.alpha(a[1]) != S.alpha(b[1]):
        detail = 'conclusion differs at ' + first_diff(a[1], b[1])
    else:
        ha = sorted(a[0], key=lambda h: repr(erase(h)))
        hb = sorted(b[0], key=lambda h: repr(erase(h)))
        for x, y in zip(ha, hb):
            if S.alpha(x) != S.alpha(y):
                detail = 'a hypothesis differs at ' + first_diff(x, y)
                break
        else:
            detail = 'hypothesis sets differ (%d vs %d)' % (len(set(map(repr, ha))), len(set(map(repr, hb))))
    ea = (sorted(repr(erase(h)) for h in a[0]), repr(erase(a[1])))
    eb = (sorted(repr(erase(h)) for h in b[0]), repr(erase(b[1])))
    if ea == eb:
        return 'export-import-differs:stated-sequent:types-differ', detail
    return 'export-import-differs:stated-sequent:terms-differ', detail


# ------------------------------------------------------------------ reading parameters off a state
def ids(pos):
    return '.'.join(map(str, pos))


def facts_for(state, gpos):
    # lines stating a schematic library theorem (only the raw set_line of this harness makes them) are not offered as facts
    return [(pos, it) for pos, it in flat_lines(state)
            if dep_ok(gpos, pos) and it.th is not None and it.rule not in ('', 'variable', 'theorem')]


def closed_subterms(sh, acc, limit=60):
    """closed sub-shadows with their type (None when not typeable)"""
    stack = [sh]
    while stack and len(acc) < limit:
        s = stack.pop()
        if S.is_closed(s):
            acc.append(s)
        if s[0] == 'comb':
            stack.append(s[2])
            stack.append(s[1])
        elif s[0] == 'abs':
            stack.append(s[3])
    return acc


def printed(sh):
    from syntax import printer
    return printer.print_term(S.to_repo_term(sh))


def term_strings(state, gpos, M, rng, want_ty=None, n=1):
    """strings of closed sub-terms of the goal / visible facts (of type want_ty), and visible variable names"""
    from kernel.proof import ItemID
    pool = []
    g = state.prf.find_item(ItemID(gpos))
    srcs = []
    if g.th is not None:
        srcs.append(M.term(g.th.prop))
    for pos, it in facts_for(state, gpos)[-6:]:
        srcs.append(M.term(it.th.prop))
    subs = []
    for s in srcs:
        closed_subterms(s, subs)
    for s in subs:
        try:
            T = S.typeof(s)
        except S.ShadowError:
            continue
        if want_ty is None or T == want_ty:
            pool.append(s)
    out = []
    try:
        for nm, T in state.get_vars(gpos).items():
            if want_ty is None or M.type(T) == want_ty:
                out.append(nm)
    except Exception:
        pass
    rng.shuffle(pool)
    for s in pool[:4]:
        try:
            out.append(printed(s))
        except Exception:
            pass
    rng.shuffle(out)
    return out[:max(n, 1)] if out else []


NAME_POOL = ['x', 'y', 'z', 'u', 'v', 'w', 'k', 'm', 'n', 'p', 'q', 't', 'x1', 'y1', 'c', 'd']


def fresh_names(state, gpos, rng, n, clash_p=0.12):
    try:
        used = set(state.get_vars(gpos))
    except Exception:
        used = set()
    out = []
    for _ in range(n):
        if used and rng.random() < clash_p:
            out.append(rng.choice(sorted(used)))
        else:
            cands = [x for x in NAME_POOL if x not in used and x not in out]
            out.append(rng.choice(cands) if cands else 'zz%d' % rng.randrange(100))
    return out


def quant_info(sh, which):
    """('all'|'exists') prefix length and the first bound type of a prop shadow"""
    n, T0 = 0, None
    while sh[0] == 'comb' and sh[1][0] == 'const' and sh[1][1] == which and sh[2][0] == 'abs':
        if T0 is None:
            T0 = sh[2][2]
        n += 1
        sh = sh[2][3]
    return n, T0


THM_POOL_CACHE = {}


def theorem_pool(rng):
    """theorem names carrying hint attributes in the current theory (sampled once per theory object size)"""
    from kernel import theory
    key = len(theory.thy.get_data('theorems'))
    if key not in THM_POOL_CACHE:
        pool = {'backward': [], 'forward': [], 'rewrite': [], 'resolve': [], 'induct': []}
        for nm in theory.thy.get_data('theorems'):
            at = theory.thy.get_attributes(nm)
            if 'hint_backward' in at or 'hint_backward1' in at:
                pool['backward'].append(nm)
            if 'hint_forward' in at:
                pool['forward'].append(nm)
            if 'hint_rewrite' in at or 'hint_rewrite_sym' in at:
                pool['rewrite'].append(nm)
            if 'hint_resolve' in at:
                pool['resolve'].append(nm)
            if 'var_induct' in at:
                pool['induct'].append(nm)
        THM_POOL_CACHE.clear()
        THM_POOL_CACHE[key] = pool
    return THM_POOL_CACHE[key]


PROP_THEOREMS = ['conjD1', 'conjD2', 'conjI', 'disjI1', 'disjI2', 'iffD1', 'iffD2', 'double_neg', 'classical']
BASIC_BACKWARD = ['conjI', 'disjI1', 'disjI2', 'iffI', 'exI', 'negI', 'classical', 'falseE']
BASIC_FORWARD = ['conjD1', 'conjD2', 'iffD1', 'iffD2', 'negE']
BASIC_REWRITE = ['double_neg', 'de_morgan_thm1', 'de_morgan_thm2', 'disj_conv_imp', 'not_all', 'not_exists', 'eq_sym_eq',
                 'conj_comm', 'disj_comm', 'if_P', 'if_not_P']


def fill_params(state, step, params, M, rng):
    """answer a ParameterQueryException the way a user would: names / terms read from the state"""
    from kernel.proof import ItemID
    gpos = ItemID(step['goal_id']).id
    st = dict(step)
    for p in params:
        if p == 'names':
            g = state.prf.find_item(ItemID(gpos))
            n, _ = quant_info(M.term(g.th.prop), 'all') if g.th is not None else (1, None)
            st['names'] = ', '.join(fresh_names(state, gpos, rng, max(n, 1)))
        elif p.startswith('param_'):
            c = term_strings(state, gpos, M, rng)
            st[p] = c[0] if c else 'A'
        else:
            c = term_strings(state, gpos, M, rng)
            st[p] = c[0] if c else 'x'
    return st


def complete_from_sig(state, st, M, rng):
    """a search result only names the method; the front end then asks the user for the fields of the method's `sig`
    that the result does not carry.  Fill them from the state (names for binders, terms of the bound type)."""
    from server import method
    from kernel.proof import ItemID
    m = method.global_methods.get(st.get('method_name'))
    if m is None:
        return st
    st = dict(st)
    gpos = ItemID(st['goal_id']).id
    facts = [ItemID(f).id for f in (st.get('fact_ids') or [])]
    by = dict(flat_lines(state))
    for p in m.sig:
        if p in st:
            continue
        if p == 's':
            T = None
            if st['method_name'] == 'forall_elim' and facts and facts[0] in by and by[facts[0]].th is not None:
                T = quant_info(M.term(by[facts[0]].th.prop), 'all')[1]
            elif st['method_name'] == 'inst_exists_goal' and gpos in by and by[gpos].th is not None:
                T = quant_info(M.term(by[gpos].th.prop), 'exists')[1]
            c = term_strings(state, gpos, M, rng, want_ty=T)
            if c:
                st['s'] = c[0]
        elif p == 'names' and st['method_name'] == 'exists_elim':
            n = 1
            if facts and facts[0] in by and by[facts[0]].th is not None:
                n = max(1, quant_info(M.term(by[facts[0]].th.prop), 'exists')[0])
            st['names'] = ', '.join(fresh_names(state, gpos, rng, n if rng.random() < 0.8 else 1))
        elif p == 'var' and st['method_name'] == 'induction':
            try:
                vs = sorted(state.get_vars(gpos))
            except Exception:
                vs = []
            if vs:
                st['var'] = rng.choice(vs)
    return st


def step_of_search_result(state, x, M, rng):
    st = {k: v for k, v in x.items() if not k.startswith('_') and k != 'display' and isinstance(v, (str, list))}
    return complete_from_sig(state, st, M, rng)


def random_op(sess, rng, M, recorded=None, allow_search=True):
    """one perturbed operation with parameters read from the state (JSON-able dict) or None"""
    from kernel.proof import ItemID
    state = sess.cur
    lines = flat_lines(state)
    if not lines:
        return None
    sorrys = [pos for pos, it in lines if it.rule == 'sorry']
    others = [pos for pos, it in lines]
    gpos = rng.choice(sorrys) if sorrys and rng.random() < 0.85 else rng.choice(others)
    gid = ids(gpos)
    facts = facts_for(state, gpos)

    def pick_facts(kmax=2, pred=None):
        c = [f for f in facts if pred is None or pred(f[1])]
        rng.shuffle(c)
        k = rng.randint(0, min(kmax, len(c)))
        return [ids(p) for p, _ in c[:k]]

    def step(method_name_, facts_=None, **kw):
        st = {'method_name': method_name_, 'goal_id': gid}
        if facts_:
            st['fact_ids'] = facts_
        st.update(kw)
        return {'op': 'method', 'step': st}

    pool = theorem_pool(rng)
    r = rng.random()
    kinds = ['search'] * (5 if allow_search else 0) + ['cut', 'cases', 'introduction', 'forall_elim', 'exists_elim', 'revert_intro',
             'rewrite_goal', 'rewrite_fact', 'with_prev', 'backward', 'forward', 'inst_exists_goal', 'new_var', 'induction',
             'raw_add', 'raw_add', 'raw_tactic', 'repeat', 'reaim', 'reaim', 'resolve']
    kind = rng.choice(kinds)
    if kind == 'search':
        fs = pick_facts(2)
        sess.ctx.count('search_calls')
        try:
            res = state.search_method(gid, fs)
        except (KeyboardInterrupt, SystemExit):
            raise
        except BaseException as e:
            sess.ctx.count('search_raised:' + exc_name(e))
            return None
        sess.ctx.count('search_results', len(res))
        if not res:
            return None
        solving = [x for x in res if '_goal' in x and len(x['_goal']) == 0]
        x = rng.choice(solving) if solving and rng.random() < 0.6 else rng.choice(res)
        return {'op': 'method', 'step': step_of_search_result(state, x, M, rng), 'from': 'search'}
    if kind in ('cut', 'cases'):
        c = term_strings(state, gpos, M, rng, want_ty=S.BOOL)
        if not c:
            return None
        f = c[0]
        v = rng.random()
        if v < 0.2:
            f = '~(%s)' % f
        elif v < 0.3 and len(c) > 1:
            f = '(%s) & (%s)' % (f, c[1])
        return step(kind, **({'goal': f} if kind == 'cut' else {'case': f}))
    if kind == 'introduction':
        g = state.prf.find_item(ItemID(gpos))
        n = quant_info(M.term(g.th.prop), 'all')[0] if g.th is not None else 0
        if n and rng.random() < 0.9:
            k = n if rng.random() < 0.8 else rng.randint(0, n + 1)
            return step('introduction', names=', '.join(fresh_names(state, gpos, rng, k)))
        return step('introduction') if rng.random() < 0.7 else step('introduction', names='')
    if kind == 'forall_elim':
        cand = [(p, it) for p, it in facts if quant_info(M.term(it.th.prop), 'all')[0] > 0]
        if cand and rng.random() < 0.9:
            p, it = rng.choice(cand)
            T = quant_info(M.term(it.th.prop), 'all')[1]
            c = term_strings(state, gpos, M, rng, want_ty=T if rng.random() < 0.9 else None)
        elif facts:
            p, it = rng.choice(facts)
            c = term_strings(state, gpos, M, rng)
        else:
            return None
        if not c:
            return None
        return step('forall_elim', [ids(p)], s=c[0])
    if kind == 'exists_elim':
        cand = [(p, it) for p, it in facts if quant_info(M.term(it.th.prop), 'exists')[0] > 0]
        if cand and rng.random() < 0.9:
            p, it = rng.choice(cand)
            n = quant_info(M.term(it.th.prop), 'exists')[0]
            k = n if rng.random() < 0.7 else rng.randint(1, n)
        elif facts:
            p, it = rng.choice(facts)
            k = 1
        else:
            return None
        return step('exists_elim', [ids(p)], names=', '.join(fresh_names(state, gpos, rng, k)))
    if kind == 'revert_intro':
        cand = [(p, it) for p, it in facts if it.rule == 'assume']
        if not cand:
            return None
        p, it = rng.choice(cand) if rng.random() < 0.5 else cand[-1]
        return step('revert_intro', [ids(p)])
    if kind in ('rewrite_goal', 'rewrite_fact'):
        names = pool['rewrite'] + [n for n in BASIC_REWRITE]
        th = rng.choice(names)
        fs = pick_facts(1) if kind == 'rewrite_goal' else ([ids(rng.choice(facts)[0])] if facts else [])
        if kind == 'rewrite_fact' and not fs:
            return None
        return step(kind, fs, theorem=th, sym=rng.choice(['false', 'false', 'true']))
    if kind == 'with_prev':
        if not facts:
            return None
        name = rng.choice(['rewrite_goal_with_prev', 'rewrite_fact_with_prev', 'apply_prev', 'apply_fact', 'apply_prev', 'apply_fact'])
        k = {'rewrite_goal_with_prev': 1, 'rewrite_fact_with_prev': 2, 'apply_prev': rng.choice([1, 1, 2]), 'apply_fact': rng.choice([2, 2, 3])}[name]
        c = list(facts)
        rng.shuffle(c)
        return step(name, [ids(p) for p, _ in c[:k]])
    if kind in ('backward', 'forward', 'resolve'):
        if kind == 'backward':
            th = rng.choice(pool['backward'] + BASIC_BACKWARD)
            return step('apply_backward_step', pick_facts(2), theorem=th)
        if kind == 'forward':
            th = rng.choice(pool['forward'] + BASIC_FORWARD)
            fs = pick_facts(2)
            if not fs:
                return None
            return step('apply_forward_step', fs, theorem=th)
        if not pool['resolve'] or not facts:
            return None
        return step('apply_resolve_step', [ids(rng.choice(facts)[0])], theorem=rng.choice(pool['resolve']))
    if kind == 'inst_exists_goal':
        g = state.prf.find_item(ItemID(gpos))
        T = quant_info(M.term(g.th.prop), 'exists')[1] if g.th is not None else None
        c = term_strings(state, gpos, M, rng, want_ty=T)
        if not c:
            return None
        return step('inst_exists_goal', s=c[0])
    if kind == 'new_var':
        return step('new_var', name=fresh_names(state, gpos, rng, 1)[0], type=rng.choice(["'a", 'bool', "'a => bool", 'nat']))
    if kind == 'induction':
        if not pool['induct']:
            return None
        try:
            vs = sorted(state.get_vars(gpos))
        except Exception:
            return None
        if not vs:
            return None
        return step('induction', theorem=rng.choice(pool['induct']), var=rng.choice(vs))
    if kind == 'raw_add':
        # only before an existing line: lines appended after the last line of a block would BE its conclusion
        return {'op': 'add_line_before', 'id': ids(gpos), 'n': rng.choice([1, 1, 2, 3])}
    if kind == 'raw_tactic':
        if not sorrys:
            return None
        gp = rng.choice(sorrys)
        t = rng.choice(['rule', 'cases', 'intros', 'rewrite_goal', 'apply_prev', 'rewrite_goal_with_prev'])
        op = {'op': 'apply_tactic', 'id': ids(gp), 'tactic': t}
        fs = [ids(p) for p, _ in facts_for(state, gp)]
        rng.shuffle(fs)
        if t == 'rule':
            op['args'] = rng.choice(pool['backward'] + BASIC_BACKWARD)
            op['prevs'] = fs[:rng.choice([0, 0, 1])]
        elif t == 'cases':
            c = term_strings(state, gp, M, rng, want_ty=S.BOOL)
            if not c:
                return None
            op['args'] = c[0]
        elif t == 'intros':
            g = state.prf.find_item(ItemID(gp))
            n = quant_info(M.term(g.th.prop), 'all')[0]
            op['args'] = fresh_names(state, gp, rng, n)
        elif t == 'rewrite_goal':
            op['args'] = rng.choice(pool['rewrite'] + BASIC_REWRITE)
            op['sym'] = rng.random() < 0.3
        else:
            if not fs:
                return None
            op['prevs'] = fs[:1]
        return op
    if kind == 'repeat':
        if sess.last_step is None:
            return None
        return {'op': 'method', 'step': dict(sess.last_step), 'from': 'repeat'}
    if kind == 'reaim':
        if not recorded:
            return None
        st = dict(rng.choice(recorded))
        v = rng.random()
        if v < 0.6:
            st['goal_id'] = gid
        if v > 0.3 and facts:
            k = len(st.get('fact_ids') or []) or rng.choice([0, 1])
            c = list(facts)
            rng.shuffle(c)
            st['fact_ids'] = [ids(p) for p, _ in c[:k]]
        return {'op': 'method', 'step': st, 'from': 'reaim'}
    return None


def follow_up_raw(sess, rng, tag):
    """after an add_line_before: neutral remove_line / set_line on one of the new empty lines"""
    state = sess.cur
    empties = [pos for pos, it in flat_lines(state) if it.rule == '']
    if not empties:
        return
    pos = rng.choice(empties)
    v = rng.random()
    if v < 0.45:
        apply_op(sess, {'op': 'remove_line', 'id': ids(pos)}, tag)
    elif v < 0.75:
        # as the repo's own testSetLine does; restricted to propositional theorems (the text of a line that states a
        # polymorphic schematic theorem needs schematic-variable declarations no method ever produces)
        apply_op(sess, {'op': 'set_line', 'id': ids(pos), 'rule': 'theorem', 'args': rng.choice(PROP_THEOREMS)}, tag)
    else:
        M = Memo()
        nxt = pos[:-1] + (pos[-1] + 1,)
        c = term_strings(state, pos, M, rng, want_ty=S.BOOL) if True else []
        by = dict(flat_lines(state))
        if c:
            # the new gap is stated under the hypotheses in force at that place, as `cut` does it: they are taken
            # from the next stated line of the same block (a gap without them is a state no method produces, and
            # facts of the block could then be used for a goal that does not have their hypotheses)
            op = {'op': 'set_line', 'id': ids(pos), 'rule': 'sorry', 'prop': c[0]}
            while nxt in by and by[nxt].th is None:
                nxt = nxt[:-1] + (nxt[-1] + 1,)
            if nxt in by:
                op['hyps_of'] = ids(nxt)
                apply_op(sess, op, tag)
            else:
                sess.ctx.count('raw_gap_not_driven:no-stated-line-follows')


def perturb(sess, rng, depth, recorded, tag, allow_search=True):
    """a branch of up to `depth` perturbed operations starting from sess.cur (sess is a fork)"""
    for _ in range(depth):
        M = Memo()
        try:
            op = random_op(sess, rng, M, recorded, allow_search)
        except (KeyboardInterrupt, SystemExit):
            raise
        except BaseException as e:
            import traceback
            sess.ctx.count('op_generation_failed:' + exc_name(e))
            sess.ctx.note('op generation failed: ' + traceback.format_exc()[-500:])
            op = None
        if op is None:
            sess.ctx.count('perturbation_not_applicable')
            continue
        r = apply_op(sess, op, tag)
        if isinstance(r, tuple) and op['op'] == 'method':
            try:
                st = fill_params(sess.cur, op['step'], r[1], Memo(), rng)
            except BaseException as e:
                sess.ctx.count('op_generation_failed:' + exc_name(e))
                continue
            op2 = {'op': 'method', 'step': st, 'from': 'query-answered'}
            r = apply_op(sess, op2, tag)
            if isinstance(r, tuple):
                try:
                    st = fill_params(sess.cur, st, r[1], Memo(), rng)
                    r = apply_op(sess, {'op': 'method', 'step': st, 'from': 'query-answered'}, tag)
                except BaseException as e:
                    sess.ctx.count('op_generation_failed:' + exc_name(e))
        if r == 'ok' and op['op'] == 'add_line_before' and rng.random() < 0.8:
            follow_up_raw(sess, rng, tag)


# ------------------------------------------------------------------ workloads
def new_session(ctx, origin, vars_, prop, kind):
    """stated goal -> initial state (the web back end's parse_init_state) and the goal key"""
    from logic import context
    from server import server
    context.set_context(None, vars=vars_)
    state = server.parse_init_state(prop)
    M = Memo()
    from kernel.term import Term
    from syntax import parser
    p = prop if isinstance(prop, Term) else parser.parse_term(prop)
    goal = seq_key(((), M.term(p)))
    sess = Session(ctx, origin, vars_, state, goal, kind)
    # the initial state is judged too
    for mech, desc in structure_problems(ctx, state):
        sess.violation(mech + ':init', desc, {'op': 'init'})
    last = state.prf.items[-1]
    if seq_key(thm_sh(last.th, M)) != goal:
        sess.violation('goal-changed:init', 'initial state: last line states %s' % sstr(last.th), {'op': 'init'})
    return sess


def lib_units(parts, unit):
    """(theory, part, of) work units - a big theory is split by theorem index - packed greedily into `parts` bins"""
    units = []
    for n in libreplay.theory_names():
        w = libreplay.theory_weight(n)
        of = max(1, -(-w // unit))
        for j in range(of):
            units.append((w / of + 40, n, j, of))      # + a constant for loading the theory
    units.sort(key=lambda u: (-u[0], u[1], u[2]))
    bins = [[] for _ in range(parts)]
    load = [0.0] * parts
    for w, n, j, of in units:
        k = load.index(min(load))
        bins[k].append((n, j, of))
        load[k] += w
    return bins


def run_lib(ctx, spec):
    libreplay.prepare()
    install_tracker()
    rng = ctx.rng
    budget0 = 0
    units = list(lib_units(spec['parts'], spec.get('unit', 1500))[spec['i']])
    rng.shuffle(units)
    for name, part, of in units:
        try:
            for idx, item in enumerate(libreplay.iter_theorems(name, None, 1.0, want_proof=False)):
                if idx % of != part:
                    continue
                if spec['frac'] < 1.0 and rng.random() >= spec['frac']:
                    continue
                if spec.get('budget') and ctx.counters['ops_accepted'] - budget0 >= spec['budget']:
                    ctx.count('lib_theorems_skipped_after_budget')
                    continue
                try:
                    lib_theorem(ctx, spec, name, item, rng)
                    ctx.count('lib_theorems')
                except (KeyboardInterrupt, SystemExit):
                    raise
                except BaseException as e:
                    import traceback
                    ctx.count('lib_harness_error:' + exc_name(e))
                    ctx.note('harness error in %s.%s: %s' % (name, item.name, traceback.format_exc()[-1500:]))
        except (KeyboardInterrupt, SystemExit):
            raise
        except BaseException as e:
            ctx.count('lib_theory_error:' + exc_name(e))
            ctx.note('theory %s: %s %s' % (name, exc_name(e), sstr(e, 200)))


def lib_theorem(ctx, spec, thy, item, rng):
    origin = {'kind': 'lib', 'theory': thy, 'theorem': item.name}
    sess = new_session(ctx, origin, item.vars, item.prop, 'lib')
    origin['prop'] = sstr(item.prop)
    from kernel import theory
    steps = list(item.steps)
    nb = sum(1 for _ in range(3) if rng.random() < spec['branch'])
    points = set(rng.randrange(len(steps)) for _ in range(nb)) if steps else set()
    big = len(theory.thy.get_data('theorems')) > 900
    # quick tier: long proofs are judged on a window of consecutive steps (the steps before it are only applied)
    win = spec.get('window')
    lo, hi = 0, len(steps)
    if win and len(steps) > win:
        lo = rng.randrange(len(steps) - win + 1)
        hi = lo + win
        points = set(lo + rng.randrange(win) for _ in range(nb))
    for k, st in enumerate(steps[:hi]):
        if k < lo:
            op = {'op': 'method', 'step': st}
            nxt = copy.copy(sess.cur)
            try:
                exec_op(nxt, op)
                nxt.check_proof(compute_only=True)
            except (KeyboardInterrupt, SystemExit):
                raise
            except BaseException:
                ctx.count('lib_recorded_step_rejected')
                return
            sess.cur = nxt
            sess.ops.append(op)
            ctx.count('lib_steps_applied_before_window')
            continue
        if k == lo and lo > 0:
            # the window must start from a state that is itself fine, else later findings cannot be attributed
            try:
                copy.copy(sess.cur).check_proof()
            except (KeyboardInterrupt, SystemExit):
                raise
            except BaseException:
                sess.tainted = True
                ctx.count('window_starts_on_state_failing_recheck')
            if structure_problems(ctx, sess.cur):
                sess.bad_structure = True
                ctx.count('window_starts_on_state_with_broken_structure')
        if k in points:
            b = sess.fork()
            perturb(b, rng, rng.choice([1, 2, 3]), steps, 'perturbed_ops_accepted', allow_search=not big or rng.random() < 0.15)
        r = apply_op(sess, {'op': 'method', 'step': st}, 'lib_recorded_steps_accepted')
        if r != 'ok':
            ctx.count('lib_recorded_step_rejected')
            break
    else:
        ctx.count('lib_theorems_all_steps_accepted' if hi == len(steps) else 'lib_theorems_window_accepted')
    if rng.random() < spec['branch']:
        b = sess.fork()
        perturb(b, rng, 2, steps, 'perturbed_ops_accepted', allow_search=False)


# -- generated goals
TEMPLATES = ['{0} & {1} --> {1} & {0}', '{0} | {1} --> {1} | {0}', '({0} --> {1}) --> ({1} --> {2}) --> {0} --> {2}',
             '{0} --> {1} --> {0} & {1}', '{0} & ({1} | {2}) --> ({0} & {1}) | ({0} & {2})', '~~{0} --> {0}',
             '(({0} --> {1}) --> {0}) --> {0}', '{0} <--> {0}', '({0} <--> {1}) --> ({1} <--> {0})', '{0} | ~{0}',
             '(!x. P x & Q x) --> (!x. P x) & (!x. Q x)', '(?x. P x & Q x) --> (?x. P x) & (?x. Q x)',
             '(!x. P x --> Q x) --> (?x. P x) --> (?x. Q x)', '(!x. P x) --> P a', 'P a --> (?x. P x)',
             '(?x. !y. R x y) --> (!y. ?x. R x y)', '(!x. !y. R x y) --> R a b', '~(?x. P x) --> (!x. ~P x)',
             '(!x. P x --> {0}) --> (?x. P x) --> {0}', 'a = b --> P a --> P b', 'a = b --> f a = f b',
             '(!x. f x = x) --> f (f a) = a', '{0} --> (!x. P x) --> {0} & P a', '(?x. P x | Q x) --> (?x. P x) | (?x. Q x)',
             '(!x. P x --> Q x) --> (!x. P x) --> (!x. Q x)', '?x. P x --> (!y. P y)']


def gen_formula(rng, depth, bound=()):
    atoms = ['A', 'B', 'C', 'P a', 'Q b', 'R a b', 'a = b', 'f a = b'] + ['P %s' % v for v in bound] + ['R %s a' % v for v in bound]
    if depth <= 0 or rng.random() < 0.25:
        return rng.choice(atoms)
    k = rng.random()
    if k < 0.15:
        return '~(%s)' % gen_formula(rng, depth - 1, bound)
    if k < 0.35:
        return '(%s) & (%s)' % (gen_formula(rng, depth - 1, bound), gen_formula(rng, depth - 1, bound))
    if k < 0.5:
        return '(%s) | (%s)' % (gen_formula(rng, depth - 1, bound), gen_formula(rng, depth - 1, bound))
    if k < 0.75:
        return '(%s) --> (%s)' % (gen_formula(rng, depth - 1, bound), gen_formula(rng, depth - 1, bound))
    if k < 0.8:
        return '(%s) <--> (%s)' % (gen_formula(rng, depth - 1, bound), gen_formula(rng, depth - 1, bound))
    v = rng.choice(['x', 'y', 'z'])
    return '(%s%s. %s)' % (rng.choice('!?'), v, gen_formula(rng, depth - 1, bound + (v,)))


def gen_goal(rng):
    if rng.random() < 0.7:
        t = rng.choice(TEMPLATES)
        subs = ['(%s)' % gen_formula(rng, rng.choice([0, 0, 1])) for _ in range(3)]
        return t.format(*subs)
    return gen_formula(rng, rng.choice([2, 3]))


OTHER_GOALS = [('nat', {'n': 'nat', 'm': 'nat'}, 'n + 0 = n'), ('nat', {'n': 'nat', 'm': 'nat'}, 'n + m = m + n'),
               ('nat', {'n': 'nat'}, 'n * 0 = 0'), ('nat', {'k': 'nat', 'm': 'nat', 'n': 'nat'}, 'k <= m --> m <= n --> k <= n'),
               ('set', {'A': "'a set", 'B': "'a set"}, 'A Un B = B Un A'), ('set', {'A': "'a set"}, 'subset empty_set A'),
               ('set', {'A': "'a set", 'B': "'a set", 'x': "'a"}, 'x Mem A Int B --> x Mem A'),
               ('list', {'xs': "'a list"}, 'xs @ [] = xs'),
               ('function', {'f': "'a => 'b", 'g': "'b => 'c"}, 'injective f --> injective g --> injective (g O f)')]


def M_(name_, goal_id_, facts=None, **kw):
    st = {"method_name": name_, "goal_id": goal_id_}
    if facts:
        st['fact_ids'] = facts
    st.update(kw)
    return {'op': 'method', 'step': st}


ABC = {'A': 'bool', 'B': 'bool', 'C': 'bool'}
PQ = {'P': "'a => bool", 'Q': "'a => bool", 'C': 'bool'}
# directed histories: interplay of renumbering, citation rewriting and splicing that random perturbation reaches rarely
SCENARIOS = [
    # a gap is used as a fact from inside a later block, then closed by a forward step (replace_id must descend)
    ('logic', ABC, 'A & B --> A & (C --> A)',
     [M_('apply_backward_step', '1', theorem='conjI'), M_('introduction', '2'),
      M_('apply_forward_step', '1', ['0'], theorem='conjD1')]),
    # the same two levels down
    ('logic', PQ, '!x. P x & Q x --> P x & (C --> P x)',
     [M_('introduction', '0', names='x'), M_('apply_backward_step', '0.2', theorem='conjI'), M_('introduction', '0.3'),
      M_('apply_forward_step', '0.2', ['0.1'], theorem='conjD1')]),
    # insertions / removals in the middle of nested blocks whose later lines cite across the insertion point
    ('logic', ABC, 'A & B --> (C --> A) & (C --> B)',
     [M_('apply_backward_step', '1', theorem='conjI'), M_('introduction', '1'), M_('introduction', '2'),
      {'op': 'add_line_before', 'id': '1.1', 'n': 3}, {'op': 'remove_line', 'id': '1.2'},
      M_('apply_forward_step', '1.3', ['0'], theorem='conjD1'), {'op': 'remove_line', 'id': '1.1'},
      {'op': 'add_line_before', 'id': '2.0', 'n': 2}, M_('apply_forward_step', '2.3', ['0'], theorem='conjD2'),
      {'op': 'remove_line', 'id': '2.0'}, {'op': 'remove_line', 'id': '2.0'}, {'op': 'remove_line', 'id': '1.1'}]),
    # cut whose statement is proved later by a forward fact; the cut line is cited from a nested block
    ('logic', ABC, 'A & B --> (B & A) | C',
     [M_('cut', '1', goal='A'), M_('apply_backward_step', '2', theorem='disjI1'), M_('apply_backward_step', '2', theorem='conjI'),
      M_('apply_forward_step', '2', ['0'], theorem='conjD2'), M_('apply_forward_step', '1', ['0'], theorem='conjD1')]),
    # exists_elim followed by work inside and forall_elim, three levels of citations
    ('logic', PQ, '(?x. P x) --> (!x. P x --> Q x) --> (?x. Q x)',
     [M_('exists_elim', '2', ['0'], names='u'), M_('forall_elim', '4', ['1'], s='u'), M_('apply_fact', '5', ['4', '3']),
      M_('inst_exists_goal', '6', s='u')]),
    # an assumption of the main block is cited from INSIDE a nested block (the inner goal is closed by it at once);
    # reverting that assumption must be refused - or every citation must follow (last step: refusal expected)
    ('logic', ABC, '(A --> B) --> A --> B',
     [M_('cut', '2', goal='C --> A'), M_('introduction', '2'), M_('revert_intro', '3', ['1'])]),
    ('logic', PQ, '(C --> C) --> (!x. P x) --> C --> C',
     [M_('cut', '3', goal="!y::'a. C"), M_('introduction', '3', names='y'), M_('revert_intro', '4', ['2'])]),
]


def run_scenarios(ctx):
    from logic import basic
    cur_thy = None
    for k, (thy, vars_, prop, ops) in enumerate(SCENARIOS):
        if thy != cur_thy:
            basic.load_theory(thy)
            cur_thy = thy
            THM_POOL_CACHE.clear()
        origin = {'kind': 'gen', 'theory': thy, 'vars': vars_, 'prop': prop, 'scenario': k}
        sess = new_session(ctx, origin, vars_, prop, 'gen')
        ctx.count('scenarios')
        for op in ops:
            r = apply_op(sess, op, 'scenario_ops_accepted')
            if r != 'ok' and op.get('step', {}).get('method_name') == 'revert_intro' and op is ops[-1]:
                ctx.count('scenario_final_revert_refused')
                ctx.count('scenarios_completed')
                break
            if r != 'ok':
                ctx.count('scenario_step_rejected')
                ctx.note('scenario %d: step %s was not accepted (%r)' % (k, op_label(op), r))
                break
        else:
            ctx.count('scenarios_completed')


def run_gen(ctx, spec):
    from logic import basic, context
    libreplay.prepare()
    install_tracker()
    rng = ctx.rng
    goals = []
    if spec['i'] == 0:
        run_scenarios(ctx)
        goals.extend(OTHER_GOALS)
    for k in range(spec['goals']):
        goals.append(('logic', GEN_VARS, gen_goal(rng)))
    cur_thy = None
    for thy, vars_, prop in goals:
        if thy != cur_thy:
            basic.load_theory(thy)
            cur_thy = thy
            THM_POOL_CACHE.clear()
        origin = {'kind': 'gen', 'theory': thy, 'vars': vars_, 'prop': prop}
        try:
            sess = new_session(ctx, origin, vars_, prop, 'gen')
        except (KeyboardInterrupt, SystemExit):
            raise
        except BaseException as e:
            ctx.count('gen_goal_not_parsed:' + exc_name(e))
            continue
        ctx.count('gen_goals')
        try:
            gen_session(ctx, spec, sess, thy, rng)
        except (KeyboardInterrupt, SystemExit):
            raise
        except BaseException as e:
            import traceback
            ctx.count('gen_harness_error:' + exc_name(e))
            ctx.note('harness error on goal %s: %s' % (prop, traceback.format_exc()[-900:]))


def gen_session(ctx, spec, sess, thy, rng):
    nops = spec['ops'] if thy == 'logic' else spec['ops'] // 2
    # main line: search-biased so that proofs progress; side branches with arbitrary perturbations
    for j in range(nops):
        if rng.random() < 0.3:
            b = sess.fork()
            perturb(b, rng, rng.choice([1, 2]), None, 'gen_ops_accepted', allow_search=False)
        before = len(sess.ops)
        drive_progress(sess, rng)
        if len(sess.ops) == before and rng.random() < 0.5:
            perturb(sess, rng, 1, None, 'gen_ops_accepted', allow_search=(thy == 'logic'))
        if not any(it.rule == 'sorry' for _, it in flat_lines(sess.cur)):
            ctx.count('gen_proofs_completed')
            # keep editing a finished proof: raw insertions and cuts must keep it checkable
            perturb(sess, rng, 2, None, 'gen_ops_accepted', allow_search=False)
            break


def drive_progress(sess, rng):
    """one step chosen from search results on the first gap (what a user clicking through suggestions does)"""
    state = sess.cur
    sorrys = [pos for pos, it in flat_lines(state) if it.rule == 'sorry']
    if not sorrys:
        return
    gpos = sorrys[0] if rng.random() < 0.7 else rng.choice(sorrys)
    facts = facts_for(state, gpos)
    tries = [[]]
    c = [ids(p) for p, it in facts if it.rule in ('assume', 'forall_elim_gen', 'apply_theorem', 'apply_fact') or rng.random() < 0.3]
    rng.shuffle(c)
    for f in c[:3]:
        tries.append([f])
    if len(c) >= 2:
        tries.append(c[:2])
    rng.shuffle(tries)
    for fs in tries[:3]:
        sess.ctx.count('search_calls')
        try:
            res = state.search_method(ids(gpos), fs)
        except (KeyboardInterrupt, SystemExit):
            raise
        except BaseException as e:
            sess.ctx.count('search_raised:' + exc_name(e))
            continue
        sess.ctx.count('search_results', len(res))
        if not res:
            continue
        solving = [x for x in res if '_goal' in x and len(x['_goal']) == 0]
        x = rng.choice(solving) if solving else rng.choice(res)
        st = step_of_search_result(state, x, Memo(), rng)
        op = {'op': 'method', 'step': st, 'from': 'search'}
        r = apply_op(sess, op, 'gen_ops_accepted')
        if isinstance(r, tuple):
            try:
                st2 = fill_params(sess.cur, st, r[1], Memo(), rng)
                r = apply_op(sess, {'op': 'method', 'step': st2, 'from': 'query-answered'}, 'gen_ops_accepted')
            except (KeyboardInterrupt, SystemExit):
                raise
            except BaseException as e:
                sess.ctx.count('op_generation_failed:' + exc_name(e))
        if r == 'ok':
            return


# -- the web back end's history
def import_ide():
    """app.ide with a stub for app.app (the Flask application object is not needed to drive ProofCache)"""
    from vf import core
    if 'app.ide' in sys.modules:
        return sys.modules['app.ide']
    pkg = types.ModuleType('app')
    pkg.__path__ = [os.path.join(core.REPO, 'app')]
    appmod = types.ModuleType('app.app')

    class _App:
        def route(self, *a, **k):
            return lambda f: f
    appmod.app = _App()
    sys.modules['app'] = pkg
    sys.modules['app.app'] = appmod
    import importlib
    return importlib.import_module('app.ide')


def run_ide(ctx, spec):
    """emulate /api/apply-method request by request on ProofCache and compare every history state with an independent replay"""
    libreplay.prepare()
    install_tracker()
    from logic import basic
    rng = ctx.rng
    try:
        ide = import_ide()
    except BaseException as e:
        ctx.count('ide_unavailable:' + exc_name(e))
        ctx.note('app.ide cannot be imported: %s' % sstr(e, 200))
        return
    from prover import z3wrapper
    z3wrapper.check_z3 = False
    cands = []
    for thy in ['logic', 'set', 'function', 'nat', 'list']:
        data = basic.load_json_data(thy)
        for raw in data['content']:
            if raw.get('ty') == 'thm' and raw.get('steps') and 2 <= len(raw['steps']) <= 14:
                cands.append((thy, raw))
    rng.shuffle(cands)
    for thy, raw in cands[:spec['theorems']]:
        try:
            ide_theorem(ctx, ide, thy, raw, rng)
        except (KeyboardInterrupt, SystemExit):
            raise
        except BaseException as e:
            import traceback
            ctx.count('ide_harness_error:' + exc_name(e))
            ctx.note('ide harness error %s.%s: %s' % (thy, raw['name'], traceback.format_exc()[-600:]))


def ide_theorem(ctx, ide, thy, raw, rng):
    from server import method, server
    from logic import context
    steps = raw['steps']
    data = {'username': 'master', 'theory_name': thy, 'thm_name': raw['name'], 'vars': raw['vars'], 'prop': raw['prop'], 'steps': []}
    pc = ide.ProofCache()
    pc.create_cache(data)
    # independent reference: the state after i steps, each built on a fresh copy
    context.set_context(None, vars=raw['vars'])
    ref = [server.parse_init_state(raw['prop'])]
    applied = []
    ctx.count('ide_theorems')
    reported = False
    for i, st in enumerate(steps):
        # --- the body of /api/apply-method
        state = copy.copy(pc.states[i])
        try:
            method.apply_method(state, st)
        except BaseException:
            ctx.count('ide_step_rejected')
            break
        pc.insert_step(i, st)
        if pc.history and 'error' in pc.history[-1]:
            ctx.count('ide_step_rejected')
            break
        applied.append(st)
        nxt = copy.copy(ref[-1])
        method.apply_method(nxt, st)
        nxt.check_proof(compute_only=True)
        ref.append(nxt)
        ctx.count('ide_requests')
        M = Memo()
        for j in range(len(ref)):
            ctx.count('ide_history_states_compared')
            if j >= len(pc.states):
                break
            a, b = snapshot(pc.states[j], M), snapshot(ref[j], M)
            if (a[0], a[1]) != (b[0], b[1]) and not reported:
                f, d = snapshot_diff((a[0], a[1], None), (b[0], b[1], None))
                reported = True
                ctx.violation('copy-not-isolated:history-state-edited-in-place(ProofCache.insert_step)',
                              '%s.%s: after the apply-method request for step %d, history entry states[%d] is no longer the state after %d steps (%s: %s)' % (
                                  thy, raw['name'], i, j, j, f, d),
                              {'origin': {'kind': 'ide', 'theory': thy, 'theorem': raw['name']}, 'upto': i})
        ctx.case(('ide', thy, raw['name'], i), nontrivial=True)
    return


# ------------------------------------------------------------------ replay of a witness
def run_replay(ctx, w):
    from logic import basic, context
    libreplay.prepare()
    install_tracker()
    o = w['origin']
    if o['kind'] == 'ide':
        ide = import_ide()
        data = basic.load_json_data(o['theory'])
        raw = [r for r in data['content'] if r.get('ty') == 'thm' and r.get('name') == o['theorem']][0]
        ide_theorem(ctx, ide, o['theory'], raw, ctx.rng)
        return
    if o['kind'] == 'lib':
        basic.load_theory(o['theory'], limit=('thm', o['theorem']))
        data = basic.load_json_data(o['theory'])
        raw = [r for r in data['content'] if r.get('ty') == 'thm' and r.get('name') == o['theorem']][0]
        vars_, prop = raw['vars'], raw['prop']
    else:
        basic.load_theory(o['theory'])
        vars_, prop = o['vars'], o['prop']
    sess = new_session(ctx, dict(o), vars_, prop, o['kind'])
    for op in w['ops']:
        r = apply_op(sess, op, 'replayed_ops_accepted')
        if r != 'ok':
            ctx.note('replay: operation %s was not accepted (%r)' % (op_label(op), r))
            break
    ctx.case('replay', sample={'origin': o, 'ops': len(w['ops'])})


def run_shard(ctx, spec):
    Session.export_p = float(spec.get('export_p', 1.0))
    if 'replay' in spec:
        run_replay(ctx, spec['replay']['witness'])
        return
    if spec['kind'] == 'lib':
        run_lib(ctx, spec)
    elif spec['kind'] == 'gen':
        run_gen(ctx, spec)
    else:
        run_ide(ctx, spec)


def coverage_extra(counters, tier):
    acc = {k[9:]: v for k, v in counters.items() if k.startswith('accepted:')}
    rej = {k[9:]: v for k, v in counters.items() if k.startswith('rejected:')}
    return {'operations_accepted_by_kind': acc, 'operations_rejected_by_kind': rej}
