"""C16 - Omega test and simplex agree with ground truth and return genuine witnesses.

Monitors (wrappers installed on the real functions, so calls made through OmegaHOL / the macros are seen too):
  omega.solve_matrix, OmegaHOL.solve, simplex.Simplex.{check,pivot,handle_assertion}, simplex.branch_and_bound,
  simplex.SimplexHOLWrapper.handle_assertion, SimplexMacro / IntegerSimplexMacro / StrictSimplexMacro.get_proof_term,
  simplex_strict.Simplex.{check,pivot,handle_assertion}, simplex_strict.SimplexHOLWrapper.handle_assertion.
Oracles (vf.oracle_c16_lin): exact substitution with Fractions; planted solutions; bounded brute force over an
integer box; Z3 LIA/LRA as a model finder whose models are re-checked by substitution; theory.check_proof for
produced proofs + an independent parser of linear HOL terms (on shadows) for "hypotheses among the inputs".

One internal contract is monitored in addition to the public verdicts: when omega.extend_vmap's own
`assert lower <= upper` fires, the solver had already concluded "satisfiable" for a (real/dark) shadow whose
assignment has no integer extension.  The monitor recomputes the bounds exactly from the frame's db/vmap and
reports `...:internal-shadow-satisfiable-but-no-integer-extension`.  This is stricter than the public statement
(the caller only sees an AssertionError); it is silent on the pinned tree and exists because faults in the dark-shadow
constant / GCD tightening are otherwise converted into exceptions by that assert.
"""
import io, os, re, json, time, contextlib
os.environ.setdefault('OMP_NUM_THREADS', '1')
os.environ.setdefault('OPENBLAS_NUM_THREADS', '1')
from fractions import Fraction
from math import gcd
from functools import reduce
from vf import shadow as S
from vf import oracle_c16_lin as L

ID = 'C16'
LEVEL = 'exploration'
RULE = ('case = one generated linear system (<= 5 variables, <= 8 rows, coefficients in [-5,5]; shapes: random, '
        'planted-solution, one-variable, thin slabs a.x in [b,b+k] with gcd(a)>1 (dark/grey shadow), all |c|>1, '
        'equalities as paired inequalities, duplicates, zero rows, unbounded directions, bound atoms + rows; for the '
        'Omega entry points both raw and gcd-normalised rows) given to one entry point; distinct = hash of (entry '
        'point, rows); non-trivial = the entry point returned a verdict (SAT/UNSAT/proof) on a system with >= 2 rows')
ASSUMPTIONS = ['a factoid row c0..cn means 0 <= c0*x0+..+c(n-1)*x(n-1)+cn over the integers (omega.py docstring; validated '
               'at start-up against the data of prover/tests/omega_test.py, simplex_strict_test.py, data/tests/integer_test.py)',
               'a witness that omits a variable is read with that variable = 0 (as Factoid.eval_factoid_rhs does)',
               'a strict-simplex assignment x+y*delta is a witness iff some real delta>0 makes every row true (computed exactly)',
               '"unsatisfiable"/"contradiction" is refuted only by an exactly verified witness (planted, box search or Z3 model); '
               'Z3 "unsat" is never used against the code',
               'integer box for brute force: radius 60/30/8/4/2 for 1..5 variables',
               'non-termination is cut by logical budgets (400 pivots / 120-150 handle_assertion calls per case) and a 6 s '
               'CPU-time watchdog per case (>= 3 firings on > 1 % of the cases abort the shard); a firing is counted (and makes the run inconclusive above 0.5 % of a shard), never judged']
REQUIRED = {
    'quick': {'calibration_ok': 16, 'rational-simplex-shards-terminating': 6, 'hook:omega.solve_matrix': 3000, 'omega.solve_matrix:SAT-judged': 1500,
              'omega.solve_matrix:UNSAT-judged': 600, 'omega.solve_matrix:normalised-decided': 1500,
              'hook:OmegaHOL.solve': 300, 'omega_hol:proofs-checked': 25, 'omega_hol:SAT-judged': 100,
              'hook:simplex.Simplex.check': 20000, 'simplex_core:SAT-judged': 250, 'simplex_core:UNSAT-judged': 60,
              'simplex_wrapper:proofs-checked': 40, 'SimplexMacro:proofs-checked': 40,
              'hook:simplex.branch_and_bound': 500, 'bb:SAT-judged': 120, 'bb:UNSAT-judged': 120,
              'IntegerSimplexMacro:proofs-checked': 25, 'hook:strict.Simplex.check': 2000,
              'strict_core:SAT-judged': 200, 'strict_core:UNSAT-judged': 50, 'StrictSimplexMacro:proofs-checked': 25,
              'strict_macro:SAT-judged': 200},
    'thorough': {'calibration_ok': 64, 'rational-simplex-shards-terminating': 22,
                 'hook:omega.solve_matrix': 150000, 'omega.solve_matrix:SAT-judged': 80000,
                 'omega.solve_matrix:UNSAT-judged': 30000, 'omega.solve_matrix:normalised-decided': 80000,
                 'hook:OmegaHOL.solve': 14000, 'omega_hol:proofs-checked': 1000, 'omega_hol:SAT-judged': 4000,
                 'hook:simplex.Simplex.check': 700000, 'simplex_core:SAT-judged': 8000, 'simplex_core:UNSAT-judged': 2000,
                 'simplex_wrapper:proofs-checked': 1400, 'SimplexMacro:proofs-checked': 1400,
                 'hook:simplex.branch_and_bound': 14000, 'bb:SAT-judged': 3500, 'bb:UNSAT-judged': 3500,
                 'IntegerSimplexMacro:proofs-checked': 800, 'hook:strict.Simplex.check': 60000,
                 'strict_core:SAT-judged': 6000, 'strict_core:UNSAT-judged': 1600, 'StrictSimplexMacro:proofs-checked': 800,
                 'strict_macro:SAT-judged': 6000}}
SHARD_TIMEOUT = {'quick': 600, 'thorough': 7200}

PLAN = {   # driver -> (shards, systems per shard)
    'quick': {'omega_matrix': (4, 1250), 'omega_hol': (3, 120), 'simplex': (3, 300), 'intsimplex': (3, 180), 'strict': (3, 230)},
    'thorough': {'omega_matrix': (20, 10000), 'omega_hol': (14, 1000), 'simplex': (12, 2500), 'intsimplex': (8, 1800),
                 'strict': (10, 2000)}}


def shards(tier, seed):
    out = []
    for drv, (k, n) in PLAN[tier].items():
        out += [{'drv': drv, 'n': n, 'i': i} for i in range(k)]
    return out


# ====================================================================== generation
CMAX = 5


def _coeffs(rng, nv, dens, nonunit=False):
    while True:
        co = []
        for _ in range(nv):
            if rng.random() > dens:
                co.append(0)
            else:
                c = rng.randint(-CMAX, CMAX)
                if nonunit and abs(c) == 1:
                    c *= rng.randint(2, CMAX)
                co.append(c)
        if any(co):
            return co


def _multi(rng, ops, maxv, maxr):
    """rows with >= 2 variables each plus unit-coefficient bound atoms only (the inputs the tableau code handles
    without its single-variable special case), closed box so that branch-and-bound terminates."""
    nv = rng.randint(2, maxv)
    rows = []
    for i in range(nv):
        lo = rng.randint(-5, 3)
        rows.append(([1 if j == i else 0 for j in range(nv)], '>=' if '>' not in ops or rng.random() < 0.7 else '>', lo))
        rows.append(([1 if j == i else 0 for j in range(nv)], '<=' if '<' not in ops or rng.random() < 0.7 else '<', lo + rng.randint(0, 6)))
    rng.shuffle(rows)
    rows = rows[:rng.randint(2, 2 * nv)]
    for _ in range(rng.randint(1, max(1, maxr - len(rows)))):
        while True:
            co = _coeffs(rng, nv, rng.choice([0.6, 1.0]))
            if sum(1 for c in co if c) >= 2:
                break
        rows.append((co, rng.choice(ops), rng.randint(-8, 8)))
    rows = rows[:maxr]
    return {'nv': nv, 'rows': [[list(co), op, b] for co, op, b in rows], 'planted': None, 'shape': 'multi', 'zero': False}


def gen_system(rng, ops=('>=', '<='), maxv=5, maxr=8, shapes=None):
    shape = rng.choice(shapes or ['random', 'random', 'planted', 'planted', 'onevar', 'slab', 'nonunit', 'equalities',
                                  'bounds', 'unbounded'])
    if shape == 'multi':
        return _multi(rng, ops, maxv, maxr)
    nv = 1 if shape == 'onevar' else rng.randint(1 if shape not in ('slab',) else 2, maxv)
    nr = rng.randint(1, maxr)
    dens = rng.choice([0.4, 0.7, 1.0])
    rows, planted = [], None
    rb = lambda: rng.randint(-8, 8)
    if shape in ('random', 'onevar', 'nonunit', 'unbounded'):
        for _ in range(nr):
            rows.append((_coeffs(rng, nv, dens, shape == 'nonunit'), rng.choice(ops), rb()))
        if shape == 'unbounded':        # variable 0 bounded from one side only
            sg = rng.choice([1, -1])
            rows = [([(abs(c) * sg if i == 0 and op in ('>=', '>') else -abs(c) * sg if i == 0 else c)
                      for i, c in enumerate(co)], op, b) for co, op, b in rows]
    elif shape == 'planted':
        planted = [rng.randint(-4, 4) for _ in range(nv)]
        for _ in range(nr):
            co = _coeffs(rng, nv, dens, rng.random() < 0.3)
            op = rng.choice(ops)
            v = sum(c * p for c, p in zip(co, planted))
            sl = rng.choice([0, 0, 0, 1, 2, 5])
            if op in ('>', '<'):
                sl = max(sl, 1)
            rows.append((co, op, v - sl if op in ('>=', '>') else v + sl))
    elif shape == 'slab':
        a = [rng.choice([-1, 1]) * rng.randint(2, CMAX) for _ in range(nv)]
        for i in range(nv):
            if rng.random() < 0.25 and sum(1 for x in a if x) > 2:
                a[i] = 0
        b, k = rb(), rng.choice([0, 0, 1, 1, 2])
        rows.append((a, '>=', b))
        rows.append((a, '<=', b + k) if rng.random() < 0.6 else ([-x for x in a], '>=', -(b + k)))
        for _ in range(max(0, nr - 2)):
            rows.append((_coeffs(rng, nv, dens, True), rng.choice(ops), rb() + rng.choice([0, 6, -6])))
    elif shape == 'equalities':
        for _ in range(max(1, nr // 2)):
            co, b = _coeffs(rng, nv, dens), rb()
            if rng.random() < 0.7:
                rows += [(co, '>=', b), (co, '<=', b) if rng.random() < 0.5 else ([-c for c in co], '>=', -b)]
            else:
                rows.append((co, rng.choice(ops), b))
    elif shape == 'bounds':
        for i in range(nv):
            lo = rng.randint(-6, 4)
            if rng.random() < 0.8:
                rows.append(([1 if j == i else 0 for j in range(nv)], '>=', lo))
            if rng.random() < 0.8:
                rows.append(([1 if j == i else 0 for j in range(nv)], '<=', lo + rng.randint(-1, 6)))
        for _ in range(rng.randint(1, 3)):
            rows.append((_coeffs(rng, nv, dens), rng.choice(ops), rb()))
    rows = rows[:maxr]
    # hostile decorations
    if rng.random() < 0.15 and len(rows) < maxr:
        rows.insert(rng.randrange(len(rows) + 1), rows[rng.randrange(len(rows))])             # duplicate row
    zero = False
    if rng.random() < 0.12 and len(rows) < maxr:
        op = rng.choice(ops)
        rows.insert(rng.randrange(len(rows) + 1), ([0] * nv, op, rng.choice([0, 0, -2, 3, 1, -1])))   # zero row
        zero = True
    if rng.random() < 0.5:
        rng.shuffle(rows)
    if planted is not None and L.first_violated(rows, planted) is not None:
        planted = None
    return {'nv': nv, 'rows': [[list(co), op, b] for co, op, b in rows], 'planted': planted, 'shape': shape, 'zero': zero}


def rows_of(sysd):
    return [(list(co), op, b) for co, op, b in sysd['rows']]


def row_gcd(co):
    return reduce(gcd, [abs(c) for c in co], 0)


def normalise_matrix(matrix):
    """gcd-tightened equivalent (over the integers) without zero rows; None if a zero row is false."""
    out = []
    for r in matrix:
        g = row_gcd(r[:-1])
        if g == 0:
            if r[-1] < 0:
                return None
            continue
        out.append([c // g for c in r[:-1]] + [r[-1] // g])      # // is floor: 0 <= g*e + k  <=>  0 <= e + floor(k/g)
    return out


def matrix_class(matrix):
    """'normalised-input': every row has gcd(variable coefficients) = 1 (so no constant rows either) - the form
    the elimination code assumes; anything else is 'unnormalised-input'."""
    return 'normalised-input' if all(row_gcd(r[:-1]) == 1 for r in matrix) else 'unnormalised-input'


# ====================================================================== hooks
class BudgetExceeded(Exception):
    pass


class State:
    def __init__(self):
        self.events = []
        self.fired = 0
        self.reset()

    def reset(self, max_pivots=400, max_ha=120, keep_events=False):
        self.pivots = 0
        self.ha = 0
        self.max_pivots, self.max_ha = max_pivots, max_ha
        self.over = False
        self.swallowed = []        # non-UNSAT exceptions raised inside Simplex.handle_assertion
        if not keep_events:
            del self.events[:]


ST = State()
_hooked = set()


def hook_omega(ctx):
    from prover import omega
    if 'omega' in _hooked:
        return
    _hooked.add('omega')
    orig = omega.solve_matrix

    def solve_matrix(matrix, mode=omega.EXACT):
        ctx.count('hook:omega.solve_matrix')
        mat = [list(f.coeff) if isinstance(f, omega.Factoid) else list(f) for f in matrix]
        try:
            r = orig(matrix, mode)
        except AssertionError as e:
            ev = {'f': 'solve_matrix', 'matrix': mat, 'tag': 'EXC', 'val': 'AssertionError'}
            tb = e.__traceback__
            while tb.tb_next is not None:
                tb = tb.tb_next
            if tb.tb_frame.f_code.co_name == 'extend_vmap':
                loc = tb.tb_frame.f_locals
                try:
                    rows = [list(df.factoid.coeff) for dfs in loc['db'].values() for df in dfs]
                    ev.update(tag='NOEXT', val={'rows': rows, 'var': loc['i'],
                                                'vmap': {int(k): int(v) for k, v in loc['vmap'].items()}})
                except Exception:
                    pass
            ST.events.append(ev)
            raise
        except Exception as e:
            ST.events.append({'f': 'solve_matrix', 'matrix': mat, 'tag': 'EXC', 'val': type(e).__name__})
            raise
        ST.events.append({'f': 'solve_matrix', 'matrix': mat, 'tag': r[0] if isinstance(r, tuple) else 'NONE',
                          'val': r[1] if isinstance(r, tuple) else None})
        return r
    omega.solve_matrix = solve_matrix
    osolve = omega.OmegaHOL.solve

    def solve(self):
        ctx.count('hook:OmegaHOL.solve')
        return osolve(self)
    omega.OmegaHOL.solve = solve


def hook_simplex(ctx, mod, tag):
    """mod = prover.simplex or prover.simplex_strict"""
    if tag in _hooked:
        return
    _hooked.add(tag)
    cls = mod.Simplex
    ocheck, opivot, oha = cls.check, cls.pivot, cls.handle_assertion
    unsat_exc = (mod.UNSATException, mod.AssertLowerException, mod.AssertUpperException)

    def check(self):
        ctx.count('hook:%s.Simplex.check' % tag)
        r = ocheck(self)
        ctx.count('hook:%s.Simplex.check->%s' % (tag, {mod.SAT: 'SAT', mod.UNSAT: 'UNSAT'}.get(r, 'other')))
        return r

    def pivot(self, xi, xj):
        ST.pivots += 1
        if ST.pivots > ST.max_pivots:
            ST.over = True
            raise BudgetExceeded('pivots')
        return opivot(self, xi, xj)

    def handle_assertion(self):
        ctx.count('hook:%s.Simplex.handle_assertion' % tag)
        ST.ha += 1
        if ST.over or ST.ha > ST.max_ha:
            ST.over = True
            raise BudgetExceeded('handle_assertion calls')
        try:
            return oha(self)
        except unsat_exc:
            raise
        except BudgetExceeded:
            raise
        except Exception as e:
            ST.swallowed.append(type(e).__name__)
            raise
    cls.check, cls.pivot, cls.handle_assertion = check, pivot, handle_assertion
    w = mod.SimplexHOLWrapper
    owha = w.handle_assertion

    def wha(self):
        ctx.count('hook:%s.SimplexHOLWrapper.handle_assertion' % tag)
        return owha(self)
    w.handle_assertion = wha
    if hasattr(mod, 'branch_and_bound'):
        obb = mod.branch_and_bound

        def bb(tableau, pts1, pts2):
            ctx.count('hook:%s.branch_and_bound' % tag)
            return obb(tableau, pts1, pts2)
        mod.branch_and_bound = bb


# ====================================================================== judging helpers
def truth_of(ctx, sysd, domain):
    key = '_truth_' + domain
    if key not in sysd:
        st, w, src = L.ground_truth(rows_of(sysd), sysd['nv'], domain, sysd.get('planted'))
        for s in src:
            ctx.count('oracle:' + s)
        ctx.count('oracle:%s:%s' % (domain, st))
        sysd[key] = (st, w)
    return sysd[key]


def pub(sysd):
    return {k: v for k, v in sysd.items() if not k.startswith('_')}


def fr(x):
    return str(Fraction(x))


def judge_witness(ctx, entry, sysd, assign, domain, mechclass, extra):
    """assign: list of numbers (len nv).  Returns True if it is a genuine witness."""
    rows = rows_of(sysd)
    if domain == 'int':
        bad = [i for i, a in enumerate(assign) if isinstance(a, bool) or Fraction(a).denominator != 1]
        if bad:
            if callable(mechclass):
                mechclass = mechclass(None)
            ctx.violation('%s:SAT-with-non-integer-value/%s' % (entry, mechclass),
                          '%s answered SAT with x%d = %s on an integer problem' % (entry, bad[0], assign[bad[0]]),
                          dict(extra, sys=pub(sysd), assign=[fr(a) for a in assign]))
            return False
    i = L.first_violated(rows, assign)
    if i is None:
        ctx.count(entry + ':SAT-witness-ok')
        return True
    st, w = truth_of(ctx, sysd, domain)
    sub = {'sat': 'system-is-satisfiable', 'unsat': 'system-is-unsatisfiable', 'unknown': 'system-status-unknown'}[st]
    co, op, b = rows[i]
    ctx.count('%s:bad-witness:%s' % (entry, sub))
    if callable(mechclass):
        mechclass = mechclass(i)
    ctx.violation('%s:SAT-witness-violates-constraint/%s' % (entry, mechclass),
                  '%s answered SAT with %s but row %d (%s %s %s) evaluates to %s  [%s]' % (
                      entry, [fr(a) for a in assign], i, co, op, b, fr(L.row_value(co, assign)), sub),
                  dict(extra, sys=pub(sysd), assign=[fr(a) for a in assign], row=i))
    return False


def judge_unsat(ctx, entry, sysd, domain, mechclass, extra, what='UNSAT'):
    st, w = truth_of(ctx, sysd, domain)
    if st == 'sat':
        if callable(mechclass):
            mechclass = mechclass(None)
        ctx.violation('%s:%s-but-satisfiable/%s' % (entry, what, mechclass),
                      '%s answered %s but %s satisfies every row exactly' % (entry, what, [fr(a) for a in w]),
                      dict(extra, sys=pub(sysd), witness=[fr(a) for a in w]))
        return False
    ctx.count('%s:%s-%s' % (entry, what, 'agrees-z3' if st == 'unsat' else 'unverified'))
    return True


INTERNAL = re.compile(r'^x_\d+$')


def judge_proof(ctx, entry, pt, sysd, domain, atoms, ty, names, mechclass, extra, sys_rows=None):
    """pt: ProofTerm produced as a refutation.  Checks: accepted by the checker without gaps, concludes false,
    every hypothesis is one of the given constraints (as a linear constraint, by the independent parser),
    and the constraints it rests on are not satisfiable."""
    from kernel import theory
    ctx.count(entry + ':proofs-produced')
    ST.reset(max_pivots=10 ** 7, max_ha=10 ** 7, keep_events=True)     # the checker may re-run the tableau code (macros)
    try:
        with contextlib.redirect_stdout(io.StringIO()):
            th = theory.thy.check_proof(pt.export(), no_gaps=True)
    except BudgetExceeded:
        ctx.count(entry + ':proof-check-cut-by-watchdog')
        return
    except Exception as e:
        ctx.violation('%s:proof-rejected-by-checker/%s' % (entry, type(e).__name__),
                      '%s produced a refutation that theory.check_proof rejects: %s %s' % (
                          entry, type(e).__name__, str(e)[:200]), dict(extra, sys=pub(sysd)))
        return
    ctx.count(entry + ':proofs-checked')
    hyps, prop = S.thm_shadow(th)
    if prop != ('const', 'false', S.BOOL):
        ctx.violation('%s:refutation-does-not-conclude-false' % entry,
                      '%s: checked theorem concludes %s' % (entry, S.tm_str(prop)), dict(extra, sys=pub(sysd)))
        return
    rows = sys_rows if sys_rows is not None else rows_of(sysd)
    given = {}
    for i, r in enumerate(rows):
        given.setdefault(L.constraint_of_row(r, atoms, ty), i)
    used, foreign, unparsed = [], [], 0
    for h in hyps:
        try:
            k = L.constraint(h)
        except L.NotLinear:
            unparsed += 1
            foreign.append(S.tm_str(h))
            continue
        if k in given:
            used.append(given[k])
        else:
            foreign.append(S.tm_str(h))
    if foreign:
        hn = set()
        for h in hyps:
            for a in S.atoms(h, ('var', 'svar')):
                hn.add(a[1])
        if any(INTERNAL.match(n) for n in names):
            cls = 'input-variable-names-collide-with-internal-x_N'
        elif any(INTERNAL.match(n) for n in hn):
            cls = 'internal-x_N-names-leak'
        elif any(n.startswith('$') or n == 'δ' for n in hn):
            cls = 'auxiliary-variable-leaks'
        else:
            cls = 'other'
        ctx.violation('%s:proof-hyps-not-among-inputs/%s' % (entry, cls),
                      '%s proved false from hypotheses %s that are not among the given constraints' % (entry, foreign[:4]),
                      dict(extra, sys=pub(sysd), names=names, hyps=[S.tm_str(h) for h in hyps]))
        return
    ctx.count(entry + ':proof-hyps-among-inputs')
    # the constraints actually used must be unsatisfiable
    sub = dict(sysd, rows=[sysd['rows'][i] if sys_rows is None else list(sys_rows[i]) for i in sorted(set(used))])
    sub = {k: v for k, v in sub.items() if not k.startswith('_')}
    st, w = truth_of(ctx, sub, domain)
    if st == 'sat':
        ctx.violation('%s:checked-proof-of-false-from-satisfiable-constraints' % entry,
                      '%s: the checker accepted |- false from rows %s which %s satisfies' % (entry, sorted(set(used)), [fr(a) for a in w]),
                      dict(extra, sys=pub(sysd), witness=[fr(a) for a in w]))
    else:
        ctx.count(entry + ':proof-refutes-' + ('z3-unsat-subset' if st == 'unsat' else 'unverified-subset'))


def reject(ctx, entry, e):
    ctx.count('%s:reject:%s' % (entry, type(e).__name__))


# ====================================================================== driver: omega.solve_matrix
def judge_omega_event(ctx, ev, sysd, entry, extra):
    """ev: recorded call of solve_matrix.  sysd describes the same system over the same columns."""
    from prover import omega
    matrix = ev['matrix']
    cls = matrix_class(matrix)
    tag = ev['tag']
    if tag == 'EXC':
        ctx.count('%s:reject:%s' % (entry, ev['val']))
        return 'reject'
    if tag == 'NOCONCL':
        ctx.count(entry + ':NOCONCL')
        return 'noconcl'
    nv = len(matrix[0]) - 1
    if tag == 'NOEXT':
        # internal contract (stricter than the public statement, see module docstring): the solver had concluded
        # 'satisfiable' for a shadow and its own assert found that the shadow's assignment has no integer extension.
        ctx.count(entry + ':reject:AssertionError')
        ctx.count(entry + ':internal-noext-seen')
        v = ev['val']
        j, vm = v['var'], v['vmap']
        lo = hi = None
        for r in v['rows']:
            c = r[j]
            rest = sum(r[k] * vm.get(k, 0) for k in range(len(r) - 1) if k != j) + r[-1]
            if c > 0:       # c*x + rest >= 0  ->  x >= ceil(-rest/c)
                b = -(rest // c)
                lo = b if lo is None or b > lo else lo
            elif c < 0:     # x <= floor(rest/(-c))
                b = rest // (-c)
                hi = b if hi is None or b < hi else hi
        if lo is not None and hi is not None and lo > hi:
            nm = normalise_matrix(matrix)
            icls = cls
            if cls != 'normalised-input' and nm:
                keep = list(ST.events)
                try:
                    omega.solve_matrix(nm)
                    again = False
                except AssertionError:
                    again = True
                except Exception:
                    again = False
                del ST.events[:]
                ST.events.extend(keep)
                icls = 'normalised-input' if again else cls
            ctx.violation('%s:internal-shadow-satisfiable-but-no-integer-extension/%s' % (entry, icls),
                          '%s: the elimination of x%d produced a shadow satisfied by %s, but no integer x%d completes it '
                          '(needs %d <= x%d <= %d); the public answer was the AssertionError of extend_vmap' % (
                              entry, j, vm, j, lo, j, hi), dict(extra, sys=pub(sysd), internal=v))
        else:
            ctx.count(entry + ':internal-noext-not-reproduced')
        return 'reject'

    def differential():
        """does the wrong answer persist on the gcd-normalised equivalent system?  (real code, monitor silenced)"""
        if cls == 'normalised-input':
            return cls
        nm = normalise_matrix(matrix)
        if not nm:
            return cls
        keep = list(ST.events)
        try:
            r = omega.solve_matrix(nm)
        except Exception:
            del ST.events[:]
            ST.events.extend(keep)
            return cls
        del ST.events[:]
        ST.events.extend(keep)
        rows = L.from_omega(nm)
        if r[0] == 'SAT' and tag == 'SAT':          # same symptom on the normalised system?
            a = [r[1].get(i, 0) for i in range(nv)]
            return cls if L.first_violated(rows, a) is None else 'normalised-input'
        if r[0] == 'UNSAT' and tag == 'UNSAT':
            st, w = truth_of(ctx, sysd, 'int')
            return cls if st != 'sat' else 'normalised-input'
        return cls
    if tag == 'SAT':
        ctx.count(entry + ':SAT-judged')
        val = ev['val']
        if not isinstance(val, dict):
            ctx.violation(entry + ':SAT-without-assignment', 'solve_matrix returned SAT with %r' % (val,), dict(extra, sys=pub(sysd)))
            return 'sat'
        if any(i not in val for i in range(nv)):
            ctx.count(entry + ':witness-partial')
        assign = [val.get(i, 0) for i in range(nv)]
        rows = rows_of(sysd)
        bad = (L.first_violated(rows, assign) is not None or
               any(isinstance(a, bool) or not isinstance(a, int) for a in assign))
        judge_witness(ctx, entry, sysd, assign, 'int', differential() if bad else cls, extra)
        if cls == 'normalised-input':
            ctx.count(entry + ':normalised-decided')
        return 'sat'
    if tag == 'UNSAT':
        ctx.count(entry + ':UNSAT-judged')
        st, w = truth_of(ctx, sysd, 'int')
        judge_unsat(ctx, entry, sysd, 'int', differential() if st == 'sat' else cls, extra)
        if cls == 'normalised-input':
            ctx.count(entry + ':normalised-decided')
        return 'unsat'
    ctx.violation(entry + ':unknown-result', 'solve_matrix returned %r' % (tag,), dict(extra, sys=pub(sysd)))
    return 'other'


def drive_omega_matrix(ctx, sysd, opts):
    from prover import omega
    hook_omega(ctx)
    matrix = L.to_omega(rows_of(sysd))
    if opts.get('normalise'):
        nm = normalise_matrix(matrix)
        if not nm:
            ctx.count('omega_matrix:skipped-trivial')
            return None
        matrix = nm
    msys = dict(sysd, rows=[[r[:-1], '>=', -r[-1]] for r in matrix])
    msys = {k: v for k, v in msys.items() if not k.startswith('_')}
    ST.reset()
    try:
        omega.solve_matrix([list(r) for r in matrix])
    except Exception:
        pass
    res = None
    for ev in list(ST.events):
        res = judge_omega_event(ctx, ev, msys, 'omega.solve_matrix', {'drv': 'omega_matrix', 'opts': opts, 'matrix': matrix})
    return res, msys


# ====================================================================== driver: OmegaHOL
def int_terms(sysd, names, form):
    """HOL terms for an integer system.  form 'omega': 0 <= sum + k ; 'rel': sum op b ; 'simplex': explicit 1 * x."""
    from kernel.term import Var, Int, IntType, less_eq, less, greater_eq, greater
    mk = {'>=': greater_eq, '<=': less_eq, '>': greater, '<': less}
    xs = [Var(n, IntType) for n in names]
    out = []
    for co, op, b in rows_of(sysd):
        s = None
        for c, x in zip(co, xs):
            if c == 0:
                continue
            t = Int(c) * x
            s = t if s is None else s + t
        if form == 'omega':
            (r,) = L.to_omega([(co, op, b)])
            k = r[-1]
            s = None
            for c, x in zip(r[:-1], xs):
                if c:
                    s = Int(c) * x if s is None else s + Int(c) * x
            body = Int(k) if s is None else (s if k == 0 else s + Int(k))
            out.append(less_eq(IntType)(Int(0), body))
        else:
            out.append(mk[op](IntType)(Int(0) if s is None else s, Int(b)))
    return out, xs


def drive_omega_hol(ctx, sysd, opts):
    from prover import omega
    from kernel.proofterm import ProofTerm
    hook_omega(ctx)
    names = opts['names'][:sysd['nv']]
    tms, xs = int_terms(sysd, names, opts['form'])
    atoms = [S.tm_shadow(x) for x in xs]
    extra = {'drv': 'omega_hol', 'opts': opts}
    ST.reset()
    try:
        with contextlib.redirect_stdout(io.StringIO()):
            h = omega.OmegaHOL(tms)
            r = h.solve()
    except Exception as e:
        reject(ctx, 'OmegaHOL.solve', e)
        r = e
    # inner solve_matrix events: judge them over the solver's own column order
    try:
        hv = [S.tm_shadow(v) for v in h.vars]
    except Exception:
        hv = None
    if hv is not None:
        col = {a: i for i, a in enumerate(atoms)}
        for ev in list(ST.events):
            nvh = len(ev['matrix'][0]) - 1
            if nvh != len(hv):
                ctx.count('omega_hol:inner-event-shape-mismatch')
                continue
            esys = {'nv': nvh, 'rows': [[r_[:-1], '>=', -r_[-1]] for r_ in ev['matrix']], 'planted': None}
            judge_omega_event(ctx, ev, esys, 'omega.solve_matrix', dict(extra, via='OmegaHOL', sys0=pub(sysd)))
    if isinstance(r, Exception):
        return 'reject'
    cls = matrix_class(L.to_omega(rows_of(sysd)))
    if r is None:
        ctx.count('omega_hol:no-conclusion')
        return 'noconcl'
    if isinstance(r, dict):
        ctx.count('omega_hol:SAT-judged')
        if hv is None:
            ctx.count('omega_hol:cannot-read-vars')
            return 'sat'
        assign = [0] * sysd['nv']
        for i, a in enumerate(hv):
            if a in col and i in r:
                assign[col[a]] = r[i]
        judge_witness(ctx, 'OmegaHOL.solve', sysd, assign, 'int', cls, extra)
        return 'sat'
    if isinstance(r, ProofTerm):
        judge_proof(ctx, 'omega_hol', r, sysd, 'int', atoms, 'int', names, cls, extra)
        return 'unsat'
    ctx.count('omega_hol:other-result:' + type(r).__name__)
    return 'other'


# ====================================================================== drivers: simplex (rational)
def jars_of(mod, co, names, dense):
    js = [mod.Jar(c, names[i]) for i, c in enumerate(co) if c != 0 or dense]
    if not js:
        js = [mod.Jar(0, n) for n in names[:len(co)]]       # zero row: dense zeros
    return js


def ineqs_of(mod, sysd, names, dense, strict=False):
    out = []
    for co, op, b in rows_of(sysd):
        js = jars_of(mod, co, names, dense)
        if strict:
            bd = mod.Pair(b, {'>': 1, '<': -1}.get(op, 0))
        else:
            bd = b
        out.append((mod.GreaterEq if op in ('>=', '>') else mod.LessEq)(js, bd))
    return out


def sys_class(sysd):
    """-> classifier(violated_row or None) naming the input feature that selects a known weak spot of the tableau
    code: the violated row is a zero row / the system repeats a left-hand side / neither."""
    rows = rows_of(sysd)
    lhs = [tuple(co) for co, _, _ in rows if any(co)]
    rep = len(set(lhs)) < len(lhs)
    zero = any(not any(co) for co, _, _ in rows)

    def cls(i=None):
        if i is not None:
            if not any(rows[i][0]):
                return 'zero-row'
            return 'repeated-lhs' if rep else 'plain'
        return 'repeated-lhs' if rep else 'zero-row' if zero else 'plain'
    return cls


def real_terms(sysd, names, one_style, ty='real'):
    from kernel.term import Var, Real, Int, RealType, IntType, less_eq, less, greater_eq, greater
    T, N = (RealType, Real) if ty == 'real' else (IntType, Int)
    mk = {'>=': greater_eq, '<=': less_eq, '>': greater, '<': less}
    xs = [Var(n, T) for n in names]
    out = []
    for co, op, b in rows_of(sysd):
        s = None
        for c, x in zip(co, xs):
            if c == 0:
                continue
            t = x if (c == 1 and one_style == 'bare') else N(c) * x
            s = t if s is None else s + t
        out.append(mk[op](T)(N(0) if s is None else s, N(b)))
    return out, xs


def internal_names(M, tms, xs):
    """The macros answer SAT with a mapping keyed by the internal variable names that M.term_to_ineq gives to the
    user's variables; that function returns the renaming, which is read here (result: internal name per variable of
    the system, None for a variable that does not occur; None altogether if the renaming cannot be read)."""
    try:
        _, _, back = M.term_to_ineq(tms)
        mine = {S.tm_shadow(x): i for i, x in enumerate(xs)}
        out = [None] * len(xs)
        for k, v in back.items():
            sv = S.tm_shadow(v)
            if sv in mine:
                out[mine[sv]] = S.tm_shadow(k)[1]
        return out
    except Exception:
        return None


def drive_simplex(ctx, sysd, opts):
    from prover import simplex as M
    from kernel.proofterm import ProofTerm
    hook_simplex(ctx, M, 'simplex')
    names = opts['names'][:sysd['nv']]
    cls = sys_class(sysd)
    extra = {'drv': 'simplex', 'opts': opts}
    unsat_exc = (M.UNSATException, M.AssertLowerException, M.AssertUpperException)
    out = []
    # --- core
    ST.reset()
    try:
        s = M.Simplex()
        s.add_ineqs(*ineqs_of(M, sysd, names, opts.get('dense')))
        s.handle_assertion()
        ans = 'SAT'
    except unsat_exc:
        ans = 'UNSAT'
    except BudgetExceeded:
        ans = 'budget'
        ctx.count('simplex_core:budget-exceeded')
    except Exception as e:
        ans = 'reject'
        reject(ctx, 'simplex_core', e)
    if ans == 'SAT':
        ctx.count('simplex_core:SAT-judged')
        judge_witness(ctx, 'simplex.Simplex', sysd, [s.mapping.get(n, 0) for n in names], 'real', cls, dict(extra, part='core'))
    elif ans == 'UNSAT':
        ctx.count('simplex_core:UNSAT-judged')
        judge_unsat(ctx, 'simplex.Simplex', sysd, 'real', cls, dict(extra, part='core'))
    out.append(ans)
    # --- HOL wrapper
    xs_atoms = [('var', n, S.REAL) for n in names]
    ST.reset()
    try:
        with contextlib.redirect_stdout(io.StringIO()):
            w = M.SimplexHOLWrapper()
            w.add_ineqs(ineqs_of(M, sysd, names, False))
            r = w.handle_assertion()
        if isinstance(r, ProofTerm):
            ctx.count('simplex_wrapper:UNSAT-judged')
            judge_proof(ctx, 'simplex_wrapper', r, sysd, 'real', xs_atoms, 'real', names, cls, dict(extra, part='wrapper'))
            out.append('UNSAT')
        elif isinstance(r, dict):
            ctx.count('simplex_wrapper:SAT-judged')
            judge_witness(ctx, 'SimplexHOLWrapper', sysd, [r.get(n, 0) for n in names], 'real', cls, dict(extra, part='wrapper'))
            out.append('SAT')
        else:
            ctx.count('simplex_wrapper:other-result')
    except BudgetExceeded:
        ctx.count('simplex_wrapper:budget-exceeded')
    except Exception as e:
        reject(ctx, 'simplex_wrapper', e)
    # --- macro on HOL terms
    tms, xs = real_terms(sysd, names, opts.get('one', 'bare'))
    ST.reset()
    try:
        with contextlib.redirect_stdout(io.StringIO()):
            r = M.SimplexMacro().get_proof_term(args=tms)
        if isinstance(r, ProofTerm):
            ctx.count('simplex_macro:UNSAT-judged')
            judge_proof(ctx, 'SimplexMacro', r, sysd, 'real', xs_atoms, 'real', names, cls, dict(extra, part='macro'))
            out.append('UNSAT')
        elif isinstance(r, dict):
            inames = internal_names(M, tms, xs)
            if inames is None:
                ctx.count('simplex_macro:SAT-not-judged(internal names unreadable)')
            else:
                ctx.count('simplex_macro:SAT-judged')
                judge_witness(ctx, 'SimplexMacro', sysd, [r.get(n, 0) if n else 0 for n in inames], 'real', cls,
                              dict(extra, part='macro'))
            out.append('SAT')
        else:
            ctx.count('simplex_macro:other-result')
    except BudgetExceeded:
        ctx.count('simplex_macro:budget-exceeded')
    except Exception as e:
        reject(ctx, 'simplex_macro', e)
    return out


def drive_intsimplex(ctx, sysd, opts):
    from prover import simplex as M
    from kernel.proofterm import ProofTerm
    hook_simplex(ctx, M, 'simplex')
    names = opts['names'][:sysd['nv']]
    cls = sys_class(sysd)
    extra = {'drv': 'intsimplex', 'opts': opts}
    out = []
    # --- branch and bound on the tableau
    ST.reset(max_pivots=3000, max_ha=150)
    try:
        s = M.Simplex()
        s.add_ineqs(*ineqs_of(M, sysd, names, opts.get('dense')))
        r = M.branch_and_bound(s, [], [])
    except BudgetExceeded:
        r = None
    except Exception as e:
        reject(ctx, 'bb', e)
        r = None
    if ST.over:
        ctx.count('bb:budget-exceeded')
    elif isinstance(r, dict):
        ctx.count('bb:SAT-judged')
        judge_witness(ctx, 'simplex.branch_and_bound', sysd, [r.get(n, 0) for n in names], 'int', cls, dict(extra, part='bb'))
        out.append('SAT')
    elif isinstance(r, M.IntSimplexTree):
        ctx.count('bb:UNSAT-judged')
        sw = sorted(set(ST.swallowed))
        mc = 'swallowed-exception:' + '+'.join(sw) if sw else cls(None)
        judge_unsat(ctx, 'simplex.branch_and_bound', sysd, 'int', mc, dict(extra, part='bb'), what='no-integer-solution')
        out.append('UNSAT')
    # --- macro
    tms, xs = real_terms(sysd, names, 'explicit', ty='int')
    atoms = [('var', n, S.INT) for n in names]
    ST.reset(max_pivots=3000, max_ha=150)
    try:
        with contextlib.redirect_stdout(io.StringIO()):
            r = M.IntegerSimplexMacro().get_proof_term(args=tms)
        if ST.over:
            ctx.count('int_macro:budget-exceeded')
        elif isinstance(r, ProofTerm):
            ctx.count('int_macro:UNSAT-judged')
            judge_proof(ctx, 'IntegerSimplexMacro', r, sysd, 'int', atoms, 'int', names, cls, dict(extra, part='macro'))
            out.append('UNSAT')
        else:
            ctx.count('int_macro:other-result:' + type(r).__name__)
    except BudgetExceeded:
        ctx.count('int_macro:budget-exceeded')
    except Exception as e:
        reject(ctx, 'int_macro', e)
    return out


def judge_delta_witness(ctx, entry, sysd, pairs, cls, extra):
    rows = rows_of(sysd)
    iv = L.delta_interval(rows, pairs)
    if iv is not None:
        d = L.pick_delta(iv)
        assign = [Fraction(p[0]) + Fraction(p[1]) * d for p in pairs]
        if L.first_violated(rows, assign) is None:
            ctx.count(entry + ':SAT-witness-ok')
            return True
        ctx.count(entry + ':delta-interval-selfcheck-failed')      # my own computation is off: not judged
        return None
    st, w = truth_of(ctx, sysd, 'real')
    sub = {'sat': 'system-is-satisfiable', 'unsat': 'system-is-unsatisfiable', 'unknown': 'system-status-unknown'}[st]
    if callable(cls):       # the violated row, for the classifier: first row no delta can satisfy together with the others
        bad_row = next((i for i, r in enumerate(rows) if L.delta_interval([r], pairs) is None), None)
        cls = cls(bad_row)
    ctx.violation('%s:SAT-witness-violates-constraint/%s' % (entry, cls),
                  '%s answered SAT with %s (x + y*delta) but no delta > 0 makes every row true [%s]' % (
                      entry, [(fr(p[0]), fr(p[1])) for p in pairs], sub),
                  dict(extra, sys=pub(sysd), pairs=[[fr(p[0]), fr(p[1])] for p in pairs]))
    return False


def drive_strict(ctx, sysd, opts):
    from prover import simplex_strict as M
    from kernel.proofterm import ProofTerm
    hook_simplex(ctx, M, 'strict')
    names = opts['names'][:sysd['nv']]
    cls = sys_class(sysd)
    extra = {'drv': 'strict', 'opts': opts}
    unsat_exc = (M.UNSATException, M.AssertLowerException, M.AssertUpperException)
    out = []
    zero = M.Pair(0, 0)

    def pr(v):
        return (v.x, v.y) if isinstance(v, M.Pair) else (v, 0)
    ST.reset()
    try:
        s = M.Simplex()
        s.add_ineqs(*ineqs_of(M, sysd, names, opts.get('dense'), strict=True))
        s.handle_assertion()
        ans = 'SAT'
    except unsat_exc:
        ans = 'UNSAT'
    except BudgetExceeded:
        ans = 'budget'
        ctx.count('strict_core:budget-exceeded')
    except Exception as e:
        ans = 'reject'
        reject(ctx, 'strict_core', e)
    if ans == 'SAT':
        ctx.count('strict_core:SAT-judged')
        judge_delta_witness(ctx, 'simplex_strict.Simplex', sysd, [pr(s.mapping.get(n, zero)) for n in names], cls, dict(extra, part='core'))
    elif ans == 'UNSAT':
        ctx.count('strict_core:UNSAT-judged')
        judge_unsat(ctx, 'simplex_strict.Simplex', sysd, 'real', cls, dict(extra, part='core'))
    out.append(ans)
    tms, xs = real_terms(sysd, names, opts.get('one', 'bare'))
    atoms = [('var', n, S.REAL) for n in names]
    ST.reset()
    try:
        with contextlib.redirect_stdout(io.StringIO()):
            r = M.StrictSimplexMacro().get_proof_term(args=tms)
        if isinstance(r, ProofTerm):
            ctx.count('strict_macro:UNSAT-judged')
            has_strict = any(op in ('<', '>') for _, op, _ in rows_of(sysd))
            judge_proof(ctx, 'StrictSimplexMacro', r, sysd, 'real', atoms, 'real', names,
                        cls, dict(extra, part='macro', has_strict=has_strict))
            out.append('UNSAT')
        elif isinstance(r, dict):
            inames = internal_names(M, tms, xs)
            if inames is None:
                ctx.count('strict_macro:SAT-not-judged(internal names unreadable)')
            else:
                ctx.count('strict_macro:SAT-judged')
                judge_delta_witness(ctx, 'StrictSimplexMacro', sysd, [pr(r.get(n, zero)) if n else (0, 0) for n in inames],
                                    cls, dict(extra, part='macro'))
            out.append('SAT')
        else:
            ctx.count('strict_macro:other-result')
    except BudgetExceeded:
        ctx.count('strict_macro:budget-exceeded')
    except Exception as e:
        reject(ctx, 'strict_macro', e)
    return out


DRIVERS = {'omega_matrix': drive_omega_matrix, 'omega_hol': drive_omega_hol, 'simplex': drive_simplex,
           'intsimplex': drive_intsimplex, 'strict': drive_strict}


# ====================================================================== calibration against the repo's own tests
OMEGA_TOPLEVEL = [
    ([[2, 3, 6], [-1, -4, 7]], {0: -9, 1: 4}),
    ([[2, 3, 4], [-3, -4, 7]], {0: 34, 1: -24}),
    ([[2, 3, 4], [-3, -4, 7], [4, 5, -10]], {1: -8, 0: 13}),
    ([[2, 3, 4], [-3, -4, 7], [4, -5, -10]], {1: -1, 0: 2}),
    ([[1, 0, -1], [0, 1, -1], [-1, 0, 1]], {0: 1, 1: 1}),
    ([[1, 2, 3, 4], [2, 1, 4, 3], [5, 6, 7, -8], [-3, 2, -1, 6]], {0: 0, 1: 2, 2: 0}),
    ([[1, 2, 3, 4], [2, -2, 3, -10], [2, 3, -5, 6], [-3, -2, 1, 7]], {2: 2, 1: 0, 0: 2}),
    ([[-9, -11, -8, 9, 11], [15, 0, 8, -7, 8], [4, 3, 11, -2, -13]], {0: 8, 1: -6, 2: 0, 3: 0}),
    ([[-13, -8, -14, 15, 8], [-10, 9, 15, -13, 9], [-15, -14, -3, 2, 5]], {0: 0, 1: 0, 2: 0, 3: 0}),
    ([[2, -1, -5, 14, -7]], {0: 4, 1: 0, 2: 0, 3: 0})]
OMEGA_CONTR = [
    (0, 1, 0, 1, 0, 1, 0, -1, 0, 0, 1), (0, -1, 0, -1, 0, 0, -1, 0, 0, 1, 1), (0, -1, -1, 0, 0, 0, -1, 1, 1, 0, 0),
    (0, 0, 0, 0, 0, 0, 1, 0, -2, 0, 0), (0, 0, 1, 0, -1, 0, -1, 0, 0, -1, -1), (-2, 0, 0, 0, 0, 1, -1, 0, 0, 1, 0),
    (1, -1, 0, 1, 0, -1, -1, 0, 1, 0, 0), (0, -2, 0, 0, -1, 0, 0, 0, 0, 2, 0), (0, 0, 0, 0, 1, 0, 2, 1, 0, 0, -1),
    (1, 0, 1, 1, 0, 0, 0, 0, 0, 0, 0), (0, 0, 0, 0, 0, 0, 0, 1, -2, -1, 1), (0, -1, 0, 0, 0, 0, -1, -2, -1, -1, 0),
    (0, 0, -1, -1, 0, -1, -1, 0, 1, 0, -1), (0, 0, -1, 1, 0, 1, 0, -1, 0, 0, -1), (0, 0, 0, -1, 0, 1, 0, -1, 0, 0, 0),
    (-1, 0, 1, 1, 0, 1, 0, 0, 1, 0, 1), (1, 0, 0, 0, -1, 0, 0, 0, 0, 0, -1), (0, 0, 0, 1, 0, -1, 0, 0, 0, -1, 0),
    (1, 0, 0, 0, -3, 0, 0, 0, 0, 0, 1), (-1, 0, 1, 0, 0, -1, 1, 1, 0, 0, -1)]
OMEGA_REALCOMB = [(1, [2, 3, -2], [5, -4, 7], [23, 0, 13]), (0, [3, -1, 6], [-2, 1, 3], [0, 1, 21])]
OMEGA_GCD = [([5, 0, -8], [1, 0, -2]), ([5, 0, 8], [1, 0, 1]), ([2, 4, 6, 5], [1, 2, 3, 2]), ([2, 4, 6, -5], [1, 2, 3, -3]),
             ([7, 0], [1, 0]), ([3, 6, -3], [1, 2, -1])]
OMEGA_TERMS = [((3, 2, 0, -2), 'x y z'), ((0, 1, 0, 0), 'x y z'), ((0, 0, 0, 6), 'x y z')]
STRICT_TESTS = [("x_1 < 9", "x_1 >= 10"), ("x_1 >= 10", "x_1 + -1 * x_2 <= 0", "x_2 < 9"),
                ("x_1 + -1 * x_2 <= 0", "x_3 + -1 * x_1 <= 0", "x_4 >= 10", "x_4 + -1 * x_3 <= 0", "x_2 < 9"),
                ("x_1 + -1 * x_2 <= 0", "x_3 >= 10", "x_3 + -1 * x_1 <= 0", "x_2 < 9")]
INT_SIMPLEX_FORM = [("x + 3 * y > 4", "1 * x + 3 * y >= 5"), ("x + 3 * y > -x + 3 * y", "2 * x >= 1"),
                    ("x - 2 * y + 4 * z - 3 < x + 5 * z - 4", "-2 * y + -1 * z <= -2"),
                    ("x - y + z >= 6 * y", "1 * x + -7 * y + 1 * z >= 0"), ("x + y <= x + y", "(0::int) <= 0"),
                    ("x + 6 * z >= x + 6 * z", "(0::int) >= 0"), ("x + -2 * y >= x + -2 * y - 4", "(4::int) >= 0")]


def calibrate(ctx, drv):
    """My reading of rows / terms / bounds must agree with every datum of the repo's own tests.
    Returns a list of disagreements (empty = calibrated)."""
    bad = []
    # (1) omega rows: expected witnesses of testTopLevel satisfy the rows; testContradiction is unsat
    for m, w in OMEGA_TOPLEVEL:
        a = [w.get(i, 0) for i in range(len(m[0]) - 1)]
        if L.first_violated(L.from_omega(m), a) is not None:
            bad.append('omega_test.testTopLevel witness %s does not satisfy %s under my row reading' % (w, m))
    st, _ = L.z3_solve(L.from_omega([list(r) for r in OMEGA_CONTR]), 10, 'int')
    if st != 'unsat':
        bad.append('omega_test.testContradiction system is %s under my row reading' % st)
    # (2) real shadow: res = d*f1 + c*f2 with c = f1[i]/g, d = -f2[i]/g > 0  (a consequence of both rows)
    for i, f1, f2, res in OMEGA_REALCOMB:
        g = gcd(f1[i], -f2[i])
        c, d = f1[i] // g, -f2[i] // g
        if [c * n + d * m for m, n in zip(f1, f2)] != res or c <= 0 or d <= 0:
            bad.append('omega_test.testCombineRealFactoid %s' % (res,))
    # (3) gcd tightening data: same integer solutions inside the box
    for r, res in OMEGA_GCD:
        nv = len(r) - 1
        import itertools
        for pt in itertools.product(range(-6, 7), repeat=nv):
            if (L.first_violated(L.from_omega([r]), pt) is None) != (L.first_violated(L.from_omega([res]), pt) is None):
                bad.append('omega_test.testHOLGCD %s vs %s differ at %s' % (r, res, pt))
                break
        if normalise_matrix([r]) != [res]:
            bad.append('omega_test.testHOLGCD: my normalise_matrix(%s) != %s' % (r, res))
    if drv in ('omega_hol', 'omega_matrix'):
        from prover import omega
        from kernel.term import Var, Int, IntType
        for row, vs in OMEGA_TERMS:
            names = vs.split()
            sysd = {'nv': 3, 'rows': [[list(row[:-1]), '>=', -row[-1]]]}
            tms, xs = int_terms(sysd, names, 'omega')
            try:
                f = omega.term_to_factoid(xs, tms[0])
                if tuple(f.coeff) != tuple(row):
                    bad.append('omega_test.testTermToFactoid: my term for %s reads back as %s' % (row, f.coeff))
                k = L.constraint(S.tm_shadow(omega.factoid_to_term(xs, omega.Factoid(row))))
                if k != L.constraint_of_row((list(row[:-1]), '>=', -row[-1]), [S.tm_shadow(x) for x in xs], 'int'):
                    bad.append('factoid_to_term(%s) parses to a different constraint' % (row,))
            except Exception as e:
                bad.append('omega term calibration raised %s' % type(e).__name__)
    if drv in ('simplex', 'intsimplex', 'strict'):
        from syntax.parser import parse_term
        from logic import context
        # (4) simplex_strict_test: the four tableaux are unsatisfiable over the reals under my reading
        context.set_context('real', vars={"x_1": "real", "x_2": "real", "x_3": "real", "x_4": "real"})
        nm = ['x_1', 'x_2', 'x_3', 'x_4']
        for tab in STRICT_TESTS:
            rows = []
            try:
                for t in tab:
                    atoms_, c, strict, ty = L.constraint(S.tm_shadow(parse_term(t)))
                    d = {a[1]: v for a, v in atoms_}
                    co = [d.get(n, Fraction(0)) for n in nm]
                    if any(v.denominator != 1 for v in co) or c.denominator != 1:
                        raise L.NotLinear('fraction')
                    rows.append(([int(v) for v in co], '>' if strict else '>=', int(-c)))
                st, _ = L.z3_solve(rows, 4, 'real')
                if st != 'unsat':
                    bad.append('simplex_strict_test tableau %s is %s under my reading' % (tab, st))
            except Exception as e:
                bad.append('simplex_strict_test tableau %s: %s' % (tab, type(e).__name__))
        # (5) Pair(b, +-1) is how the repo encodes strict bounds (x > b  ~  x >= b + delta)
        from prover import simplex_strict as MS
        try:
            tabl, _, _ = MS.term_to_ineq([parse_term("x_1 > 0"), parse_term("x_2 < 1"), parse_term("x_1 >= 2")])
            got = [(type(t).__name__, (t.lower_bound if hasattr(t, 'lower_bound') else t.upper_bound)) for t in tabl]
            want = [('GreaterEq', MS.Pair(0, 1)), ('LessEq', MS.Pair(1, -1)), ('GreaterEq', MS.Pair(2, 0))]
            if got != want:
                bad.append('simplex_strict.term_to_ineq encodes strict bounds as %s' % (got,))
        except Exception as e:
            bad.append('strict bound calibration raised %s' % type(e).__name__)
        # (6) integer_test.testSimplexFormConv: both sides are the same constraint under my integer reading
        context.set_context('int', vars={"x": "int", "y": "int", "z": "int"})
        for a, b in INT_SIMPLEX_FORM:
            try:
                if L.constraint(S.tm_shadow(parse_term(a))) != L.constraint(S.tm_shadow(parse_term(b))):
                    bad.append('integer_test.testSimplexFormConv: %s vs %s differ under my parser' % (a, b))
            except Exception as e:
                bad.append('int simplex form calibration raised %s on %s' % (type(e).__name__, a))
        context.set_context('real')
    return bad


# ====================================================================== shard
NAME_STYLES = {'plain': ['u', 'v', 'w', 'y', 'z'], 'xk': ['x0', 'x1', 'x2', 'x3', 'x4'],
               'collide': ['x_1', 'x_2', 'x_3', 'x_4', 'x_5']}


def gen_case(rng, drv):
    if drv == 'omega_matrix':
        sysd = gen_system(rng)
        opts = {'normalise': rng.random() < 0.6}
    elif drv == 'omega_hol':
        form = rng.choice(['omega', 'omega', 'rel'])
        sysd = gen_system(rng, ops=('>=', '<=', '>', '<') if form == 'rel' else ('>=', '<='), maxv=4, maxr=6)
        if rng.random() < 0.6:       # gcd-normalised rows (the domain on which proofs get reconstructed)
            nm = normalise_matrix(L.to_omega(rows_of(sysd)))
            if nm:
                sysd = dict(sysd, rows=[[r[:-1], '>=', -r[-1]] for r in nm], shape=sysd['shape'] + '+norm')
        opts = {'form': form, 'names': NAME_STYLES[rng.choice(['plain', 'xk'])]}
    elif drv == 'simplex':
        sysd = gen_system(rng, shapes=['random', 'planted', 'bounds', 'bounds', 'equalities', 'slab', 'nonunit', 'unbounded', 'multi'])
        opts = {'names': NAME_STYLES[rng.choice(['plain', 'plain', 'xk', 'xk', 'collide'])], 'dense': rng.random() < 0.2,
                'one': rng.choice(['bare', 'explicit'])}
    elif drv == 'intsimplex':
        sysd = gen_system(rng, maxv=4, maxr=7, shapes=['random', 'planted', 'bounds', 'bounds', 'equalities', 'slab', 'multi', 'multi'])
        opts = {'names': NAME_STYLES[rng.choice(['plain', 'plain', 'xk', 'xk', 'collide'])], 'dense': rng.random() < 0.2}
    else:
        sysd = gen_system(rng, ops=('>=', '<=', '>', '<'), maxr=7,
                          shapes=['random', 'planted', 'bounds', 'bounds', 'equalities', 'slab', 'nonunit', 'multi'])
        opts = {'names': NAME_STYLES[rng.choice(['plain', 'plain', 'xk', 'xk', 'collide'])], 'dense': rng.random() < 0.2,
                'one': rng.choice(['bare', 'explicit'])}
    return sysd, opts


CASE_CPU_S = 6.0     # per-case CPU-time watchdog (ITIMER_VIRTUAL: process CPU time, not wall clock); firing = inconclusive


def _watchdog(signum, frame):
    ST.over = True
    ST.fired += 1
    raise BudgetExceeded('cpu watchdog')


def run_case(ctx, drv, sysd, opts, sample=False):
    import signal
    signal.signal(signal.SIGVTALRM, _watchdog)
    signal.setitimer(signal.ITIMER_VIRTUAL, CASE_CPU_S, CASE_CPU_S)     # periodic: every sub-drive of the case gets cut
    try:
        res = DRIVERS[drv](ctx, sysd, opts)
    except BudgetExceeded:
        ctx.count(drv + ':case-watchdog:budget-exceeded')
        ctx.case((drv, json.dumps(sysd['rows'])), nontrivial=False)
        return
    finally:
        # the periodic timer may fire while it is being disarmed (or while the except clause above runs): a firing
        # that lands here belongs to the case that just ended and must not escape as an exception
        for _ in range(3):
            try:
                signal.setitimer(signal.ITIMER_VIRTUAL, 0)
                break
            except BudgetExceeded:
                continue
        if ST.fired:
            ctx.count('watchdog-fired', ST.fired)
            ST.fired = 0
    if drv == 'omega_matrix':
        if res is None:
            ctx.case((drv, json.dumps(sysd['rows'])), nontrivial=False)
            return
        verdict, msys = res
        key = (drv, json.dumps(msys['rows']))
        nontriv = verdict in ('sat', 'unsat') and len(msys['rows']) >= 2
        smp = {'matrix': [r[0] + [-r[2]] for r in msys['rows']], 'answer': verdict} if sample else None
    else:
        key = (drv, json.dumps(sysd['rows']), json.dumps(opts, sort_keys=True))
        vs = res if isinstance(res, list) else [res]
        nontriv = any(v in ('SAT', 'UNSAT', 'sat', 'unsat') for v in vs) and len(sysd['rows']) >= 2
        smp = {'rows': sysd['rows'], 'answers': vs} if sample else None
    ctx.case(key, nontrivial=nontriv, sample=smp)


def run_shard(ctx, spec):
    if 'replay' in spec:
        return replay(ctx, spec['replay'])
    drv = spec['drv']
    # imports (and theory loading) first, then calibration
    if drv.startswith('omega'):
        from prover import omega      # noqa
    else:
        from prover import simplex, simplex_strict      # noqa
        from logic import context
        context.set_context('real')
    bad = calibrate(ctx, drv)
    if bad:
        ctx.count('calibration_failed')
        for b in bad[:5]:
            ctx.note('calibration: ' + b)
        return
    ctx.count('calibration_ok')
    t0 = time.time()
    for k in range(spec['n']):
        sysd, opts = gen_case(ctx.rng, drv)
        ctx.count('shape:' + sysd['shape'])
        run_case(ctx, drv, sysd, opts, sample=(k < 2 and spec['i'] == 0))
        fired = ctx.counters.get('watchdog-fired', 0)
        if fired >= 3 and fired * 100 > k + 1:       # >= 3 firings and > 1 % of the cases so far: give up (inconclusive)
            ctx.count('shard-aborted-by-watchdog')
            ctx.note('%s/%d aborted after %d systems: the per-case CPU watchdog fired %d times' % (drv, spec['i'], k + 1, fired))
            return
    if spec['i'] == 0:
        ctx.note('shard %s/0: %d systems in %.1f s (reporting only)' % (drv, spec['n'], time.time() - t0))
    if drv in ('simplex', 'strict'):
        # the rational tableau must terminate: a pivot budget firing is inconclusive, never 'held' (DESIGN 0.4)
        over = sum(v for k, v in ctx.counters.items() if k.endswith(':budget-exceeded'))
        if over <= max(1, spec['n'] // 200):
            ctx.count('rational-simplex-shards-terminating')
        else:
            ctx.note('%s/%d: pivot budget (400 pivots on <= 8 rows) exceeded on %d of %d systems' % (drv, spec['i'], over, spec['n']))


def replay(ctx, rec):
    w = rec['witness']
    drv = w['drv']
    if drv.startswith('omega'):
        from prover import omega      # noqa
    else:
        from prover import simplex, simplex_strict      # noqa
        from logic import context
        context.set_context('real')
    sysd = dict(w.get('sys0') or w['sys'])
    opts = dict(w['opts'])
    if drv == 'omega_matrix':
        # the recorded system is the matrix actually passed (already normalised if that option was on)
        sysd = {'nv': len(w['matrix'][0]) - 1, 'rows': [[r[:-1], '>=', -r[-1]] for r in w['matrix']], 'planted': None,
                'shape': 'replay', 'zero': False}
        opts = {'normalise': False}
    sysd.setdefault('shape', 'replay')
    run_case(ctx, drv, sysd, opts, sample=True)
