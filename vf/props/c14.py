"""C14 - every suggested proof step is applicable and does what the suggestion says.

Event: one entry r of the real `state.search_method(goal_id, fact_ids)` paired with the effect of the real
`server.method.apply_method(copy.copy(state), r + parameters)`.  Parameters are supplied the way the front end
(app/src/components/proof/ProofArea.vue) does it: every parameter that the method DECLARES in `sig` and that the
suggestion leaves open is filled BEFORE the call; a `ParameterQueryException` is answered (only `names`, whose value
is free) and the call repeated.

Oracle (all comparisons on vf.shadow sequents, alpha-normalised; no repo equality involved):
  * outcome must be success or ParameterQueryException; any other exception is "fails outright" - a violation unless
    the harness had to invent a TERM parameter (`s`, `param_*`), which is only counted;
  * on success: new open sub-goals (multiset of sorry sequents after, minus those before other than the selected
    goal) must be among the advertised `_goal`; `_goal == []` (or a display text "(solves)") => none; each advertised
    goal not left open must be provable by a line visible from the goal (prop equal, hyps included) or by the
    `trivial` pattern A1 --> .. --> An --> Ai (re-implemented on shadows); each advertised `_fact` must be the prop
    of a new line that is not a sorry; a suggestion that advertises only facts may leave nothing but the goal itself.
"""
import copy, itertools, json
from collections import Counter
from vf import shadow as S, libreplay

ID = 'C14'
LEVEL = 'exploration'
RULE = ('case = one suggestion returned by ProofState.search_method for (proof state, goal line, ordered fact lines), applied to a '
        'copy of the state with every declared-and-open parameter filled; states = sampled prefixes of recorded library proofs '
        '(all 42 theories) with every open goal line and fact subsets of size <= 2 among the visible lines (always including the '
        'recorded selection), plus generated states built from hint theorems of logic/nat/set/list/real (goal = instance of the '
        'conclusion / of the rewritten side, facts = permuted subsets of the premises with distractors, quantified copies of the '
        'theorem as facts, exists/forall goals and facts, non-linear instances), each continued for up to 2 further steps from the '
        'result of a successful suggestion (generated editing sequences, previous fact selection re-used), plus a directed family in '
        'theory hoare: goals Valid P c Q / Sem c s t over generated concrete commands (Skip/Assign/Seq/Cond/While), stated without and '
        'under 1-2 assumptions (unrelated equations, Valid/Entail facts, the goal itself), directly, after an introduction step and as '
        'conjuncts split by conjI, searched with no fact and with every single / some pairs of the assumption lines; distinct = hash of (state, goal, facts, method, theorem, sym, parameters); '
        'non-trivial = the suggestion was applied and judged')
ASSUMPTIONS = ['front-end protocol read from app/src/components/proof/ProofArea.vue: sig parameters missing from the suggestion are '
               'queried before /api/apply-method is called; a query answer is merged into the step and the call repeated',
               'Z3 stubbed (z3wrapper.check_z3 = False) as in server.monitor; Z3Method.search returns [] so it is never suggested',
               'an application that needed an invented term parameter (s, param_*) is never counted as failing outright',
               'visibility of earlier lines re-implemented from ItemID.can_depend_on; trivial pattern re-implemented on shadows',
               'an exception raised by search_method itself returns no suggestion: counted (search_raised:*) and noted, not judged']
REQUIRED = {'quick': {'searches': 900, 'suggestions_applied': 2600, 'applied_ok': 2500, 'goal_adverts_checked': 1000,
                      'fact_adverts_checked': 800, 'solving_adverts_checked': 110, 'asked_for_parameters': 450,
                      'gen_states': 200, 'gen_followup_states': 60, 'lib_states': 150, 'searches_with_2_facts': 130,
                      'advertised_goal_closed_by_existing_line': 60, 'ok:induction': 400, 'ok:apply_backward_step': 350,
                      'hoare_states': 24, 'hoare_goals_under_assumptions': 14, 'hoare_goals_without_assumptions': 3,
                      'hoare_searches_with_facts': 10, 'hoare_derived_states': 4, 'ok:vcg': 2},
            'thorough': {'searches': 12000, 'suggestions_applied': 40000, 'applied_ok': 30000, 'goal_adverts_checked': 15000,
                         'fact_adverts_checked': 8000, 'solving_adverts_checked': 1500, 'asked_for_parameters': 3000,
                         'gen_states': 2500, 'gen_followup_states': 1000, 'lib_states': 2500, 'searches_with_2_facts': 1500,
                         'advertised_goal_closed_by_existing_line': 600, 'ok:induction': 1500, 'ok:apply_backward_step': 3000,
                         'hoare_states': 120, 'hoare_goals_under_assumptions': 70, 'hoare_goals_without_assumptions': 20,
                         'hoare_searches_with_facts': 50, 'hoare_derived_states': 20, 'ok:vcg': 20}}
SHARD_TIMEOUT = {'quick': 900, 'thorough': 7200}

GEN_THEORIES = ['logic', 'nat', 'set', 'list', 'real', 'function']
TERM_PARAMS = ('s',)
HOARE_METHODS = ('vcg', 'eval_Sem')


def shards(tier, seed):
    if tier == 'quick':
        return ([{'kind': 'lib', 'i': i, 'parts': 12, 'units': 14, 'searches': 200, 'per_thm': 8} for i in range(12)] +
                [{'kind': 'gen', 'i': i, 'theories': ths, 'states': 56} for i, ths in
                 enumerate([['logic', 'nat'], ['set', 'list'], ['logic', 'function', 'set'], ['nat', 'real']])] +   # + follow-up states
                [{'kind': 'hoare', 'i': 0, 'states': 36}])
    return ([{'kind': 'lib', 'i': i, 'parts': 32, 'units': 150, 'searches': 2500, 'per_thm': 24} for i in range(32)] +
            [{'kind': 'gen', 'i': i, 'theories': [GEN_THEORIES[i % len(GEN_THEORIES)]], 'states': 350} for i in range(12)] +
            [{'kind': 'hoare', 'i': i, 'states': 150} for i in range(2)])


# ------------------------------------------------------------------ shadows of sequents, state walking
_memo_tm, _memo_ty = {}, {}
_keep = []


def A(t):
    """alpha-normal shadow of a repo term (memo by identity; objects kept alive so ids are not recycled)"""
    k = id(t)
    r = _memo_tm.get(k)
    if r is None:
        r = S.alpha(S.tm_shadow(t))
        _memo_tm[k] = r
        _keep.append(t)
        if len(_keep) > 200000:
            _memo_tm.clear()
            del _keep[:]
    return r


def astr(p):
    """print an alpha-normal shadow (abstractions carry no name there)"""
    def back(x, d=0):
        if x[0] == 'comb':
            return ('comb', back(x[1], d), back(x[2], d))
        if x[0] == 'abs' and len(x) == 3:
            return ('abs', 'v%d' % d, x[1], back(x[2], d + 1))
        return x
    try:
        return S.tm_str(back(p))
    except Exception:
        return repr(p)[:300]


def seq(th):
    return (frozenset(A(h) for h in th.hyps), A(th.prop))


def all_items(prf, out=None):
    if out is None:
        out = []
    for it in prf.items:
        out.append(it)
        if it.subproof is not None:
            all_items(it.subproof, out)
    return out


def visible_items(state, gid):
    """lines a goal at id `gid` (tuple) may depend on: same rule as ItemID.can_depend_on"""
    res = []
    prf = state.prf
    for n in gid:
        if prf is None:
            break
        res.extend(prf.items[:n])
        if n >= len(prf.items):
            break
        prf = prf.items[n].subproof
    return res


def strip_forall_prefix(p):
    """alpha-shadow: ('comb', ('const','all',T), ('abs', T, body)) -> body (bounds stay loose)"""
    n = 0
    while p[0] == 'comb' and p[1][0] == 'const' and p[1][1] == 'all' and p[2][0] == 'abs':
        p = p[2][-1]
        n += 1
    return n, p


def strip_implies(p):
    As = []
    while p[0] == 'comb' and p[1][0] == 'comb' and p[1][1][0] == 'const' and p[1][1][1] == 'implies':
        As.append(p[1][2])
        p = p[2]
    return As, p


def is_trivial(p):
    """!xs. A1 --> .. --> An --> C with C among the Ai"""
    _, body = strip_forall_prefix(p)
    As, C = strip_implies(body)
    return C in As


def binder_prefix(t, cname):
    """names and type shadows of the leading `cname` binders of a repo term (read on the raw shadow)"""
    s = S.tm_shadow(t)
    out = []
    while s[0] == 'comb' and s[1][0] == 'const' and s[1][1] == cname and s[2][0] == 'abs':
        out.append((s[2][1], s[2][2]))
        s = s[2][3]
    return out


def used_names(state):
    names = set(v.name for v in state.vars)
    for it in all_items(state.prf):
        if it.rule == 'variable' and isinstance(it.args, tuple):
            names.add(it.args[0])
        if it.th is not None:
            for t in list(it.th.hyps) + [it.th.prop]:
                for a in S.atoms(S.tm_shadow(t), ('var', 'svar')):
                    names.add(a[1])
    return names


def fresh_names(wanted, used):
    out = []
    used = set(used)
    for nm in wanted:
        base = nm if (nm and nm[0].isalpha()) else 'x'
        base = base.rstrip('0123456789') or 'x'
        cand, k = base, 0
        while cand in used:
            k += 1
            cand = base + str(k)
        used.add(cand)
        out.append(cand)
    return out


def sugg_key(r):
    return {k: v for k, v in r.items() if k not in ('_goal', '_fact', 'display')}


def flat_text(x):
    if isinstance(x, (list, tuple)):
        return ''.join(flat_text(y) for y in x)
    if isinstance(x, dict):
        return ''.join(flat_text(v) for v in x.values())
    return str(x)


# ------------------------------------------------------------------ filling parameters
def candidates_for(state, gid, r, meth, pname):
    """-> (list of values, invented?) for a parameter the method declares and the suggestion leaves open"""
    from kernel import theory
    gitem = state.get_proof_item(gid)
    if pname == 'names':
        if r['method_name'] == 'exists_elim' and r.get('fact_ids'):
            fact = state.get_proof_item(_iid(r['fact_ids'][0]))
            pre = binder_prefix(fact.th.prop, 'exists')
        else:
            pre = binder_prefix(gitem.th.prop, 'all')
        nms = fresh_names([n for n, _ in pre], used_names(state))
        return [', '.join(nms)], False
    if pname == 'var' and r['method_name'] == 'induction':
        th = theory.get_theorem(r['theorem'])
        vT = S.ty_shadow(th.concl.arg.T)
        seen, cands = set(), []
        for a in S.atoms(S.tm_shadow(gitem.th.prop), ('var',)):
            if a[2] == vT and a[1] not in seen:
                seen.add(a[1])
                cands.append(a[1])
        return cands[:3], False
    if pname == 's':
        if r['method_name'] == 'forall_elim' and r.get('fact_ids'):
            pre = binder_prefix(state.get_proof_item(_iid(r['fact_ids'][0])).th.prop, 'all')
        else:
            pre = binder_prefix(gitem.th.prop, 'exists')
        if not pre:
            return [], True
        T = pre[0][1]
        vs = [nm for nm, vT in sorted(state.get_vars(gid).items()) if S.ty_shadow(vT) == T and nm.isidentifier()]
        return vs[:2], True
    return None, False


def _iid(x):
    from kernel.proof import ItemID
    return ItemID(x)


# ------------------------------------------------------------------ the judge
class Stats:
    term_failures = []
    ok_states = None     # when a list: (json-able step, resulting state) of every successful application (generated workload)


def apply_once(state, step):
    """-> ('ok', new_state) | ('ask', params) | ('fail', exception)"""
    from server import method
    from kernel import theory
    st = copy.copy(state)
    try:
        method.apply_method(st, step)
    except theory.ParameterQueryException as e:
        return 'ask', list(e.params)
    except RecursionError as e:
        return 'fail', e
    except Exception as e:
        return 'fail', e
    return 'ok', st


def judge(ctx, state, gid, r, wit, forced=None):
    """apply suggestion r (goal id tuple gid) and judge.  wit: base witness dict (copied per violation)."""
    from server import method
    mname = r['method_name']
    meth = method.global_methods[mname]
    ctx.count('suggestions')
    ctx.count('sugg:' + mname)

    # ---- parameters declared in sig and left open by the suggestion
    open_params = [p for p in meth.sig if p not in r]
    choices, invented = [{}], False
    for p in open_params:
        if forced is not None and p in forced:
            vals, inv = [forced[p]], p in TERM_PARAMS
        else:
            vals, inv = candidates_for(state, gid, r, meth, p)
        if vals is None:
            ctx.count('open_parameter_not_suppliable:%s.%s' % (mname, p))
            return
        if not vals:
            ctx.count('no_value_available:%s.%s' % (mname, p))
            return
        invented = invented or inv
        choices = [dict(c, **{p: v}) for c in choices for v in vals][:3]
    for supplied in choices:
        judge_application(ctx, state, gid, r, dict(supplied), invented, wit)
    # ---- front-end protocol: only sig parameters of the suggestion are forwarded
    extra = [k for k in r if k not in meth.sig and k not in ('method_name', 'goal_id', 'fact_ids', '_goal', '_fact', 'display')]
    if extra and not open_params:
        step = {'method_name': mname, 'goal_id': r['goal_id'], 'fact_ids': list(r.get('fact_ids', []))}
        for p in meth.sig:
            step[p] = r[p]
        ctx.count('frontend_protocol_variants')
        out, res = apply_once(state, step)
        if out == 'fail':
            report_failure(ctx, mname, res, False, r, {}, dict(wit, frontend_step=True), ' (step as forwarded by the front end: sig keys only)')


def report_failure(ctx, mname, exc, invented, r, supplied, wit, extra='', gitem=None):
    en = type(exc).__name__
    if invented:
        ctx.count('invented_term_application_failed:%s:%s' % (mname, en))
        if len(Stats.term_failures) < 5:
            Stats.term_failures.append(1)
            ctx.note('application with an invented term failed (not judged): %s %s supplied=%s: %s %s' % (
                mname, wit.get('where'), supplied, en, str(exc)[:160]))
        return
    ctx.count('applied_failed_outright')
    w = dict(wit, suggestion=sugg_key(r), supplied=supplied, exception=en, message=str(exc)[:300])
    mech = '%s:fails-outright:%s' % (mname, en)
    if mname in HOARE_METHODS and gitem is not None and gitem.th is not None:
        # the program-logic methods work on the bare statement: name what the suggestion overlooked (read off the state,
        # so a replay gets the same key)
        feats = []
        if len(gitem.th.hyps) > 0:
            feats.append('goal-under-assumptions')
        if r.get('fact_ids'):
            feats.append('with-selected-facts')
        if feats:
            mech = '%s:suggested-for-%s-but-not-applicable:%s' % (mname, '-'.join(feats), en)
            extra += ' (goal line carries %d hypotheses, %d facts selected)' % (len(gitem.th.hyps), len(r.get('fact_ids') or []))
    ctx.violation(mech,
                  'suggestion %s at %s fails outright with %s: %s%s' % (json.dumps(sugg_key(r), default=str), wit.get('where'), en,
                                                                       str(exc)[:200], extra), w)


def judge_application(ctx, state, gid, r, supplied, invented, wit):
    mname = r['method_name']
    gitem = state.get_proof_item(_iid(gid))
    goal_seq = seq(gitem.th)
    before_items = all_items(state.prf)
    before_open = Counter(seq(it.th) for it in before_items if it.rule == 'sorry')
    before_proved = Counter(seq(it.th) for it in before_items if it.rule != 'sorry' and it.th is not None)
    visible = [seq(it.th) for it in visible_items(state, gid) if it.th is not None]

    step = dict(r)
    step.update(supplied)
    asked_rounds = 0
    while True:
        out, res = apply_once(state, step)
        if out != 'ask':
            break
        ctx.count('asked_for_parameters')
        ctx.count('asked:%s' % mname)
        if not res:
            ctx.violation('%s:asks-for-no-parameter' % mname, 'ParameterQueryException with an empty parameter list', dict(wit, suggestion=sugg_key(r)))
            return
        if any(p in step for p in res):
            ctx.violation('%s:asks-again-for-a-supplied-parameter' % mname, 'asked for %s although the step already contains it' % res,
                          dict(wit, suggestion=sugg_key(r), supplied=supplied))
            return
        asked_rounds += 1
        if res == ['names'] and asked_rounds <= 2:
            vals, _ = candidates_for(state, gid, r, None, 'names')
            step['names'] = vals[0]
            supplied = dict(supplied, names=vals[0])
            ctx.count('answered_names_query')
            continue
        # term parameters: asking is all the statement requires
        ctx.count('asked_for_term_parameters')
        ctx.case(('ask', wit.get('state_key'), gid, tuple(r.get('fact_ids', ())), mname, r.get('theorem'), r.get('sym')), nontrivial=True)
        return
    ctx.count('suggestions_applied')
    key = (wit.get('state_key'), gid, tuple(r.get('fact_ids', ())), mname, r.get('theorem'), r.get('sym'), tuple(sorted(supplied.items())))
    if out == 'fail':
        report_failure(ctx, mname, res, invented, r, supplied, wit, gitem=gitem)
        ctx.case(key, nontrivial=True)
        return
    st = res
    if Stats.ok_states is not None and len(Stats.ok_states) < 40:
        Stats.ok_states.append(({k: v for k, v in step.items() if k not in ('_goal', '_fact', 'display')}, st))
    ctx.count('applied_ok')
    ctx.count('ok:' + mname)
    sample = None
    if ctx.evaluations < 3:
        sample = {'where': wit.get('where'), 'goal': str(gitem.th), 'suggestion': {k: (v if isinstance(v, str) else [str(t) for t in v] if isinstance(v, list) else str(v))
                                                                                   for k, v in r.items() if k != 'display'},
                  'supplied': supplied, 'outcome': 'applied'}
    ctx.case(key, nontrivial=True, sample=sample)

    after_items = all_items(st.prf)
    try:
        after_open = Counter(seq(it.th) for it in after_items if it.rule == 'sorry')
        after_proved = Counter(seq(it.th) for it in after_items if it.rule != 'sorry' and it.th is not None)
    except AttributeError:
        ctx.count('state_after_has_sorry_without_statement')
        return
    b = Counter(before_open)
    b[goal_seq] -= 1
    leftover = after_open - b          # new open sub-goals (the goal itself if it is still there)
    w = dict(wit, suggestion=sugg_key(r), supplied=supplied)

    def show(sq):
        return astr(sq[1]) if isinstance(sq, tuple) and len(sq) == 2 and isinstance(sq[0], frozenset) else astr(sq)

    solves_display = '(solves)' in flat_text(r.get('display', ''))
    if '_goal' in r or solves_display:
        adv = set(A(t) for t in r.get('_goal', []))
        if not adv:
            ctx.count('solving_adverts_checked')
            if leftover:
                ctx.violation('%s:solving-suggestion-leaves-goal' % mname, 'advertised as solving at %s but leaves %s' % (
                    wit.get('where'), '; '.join(show(s) for s in leftover)), w)
                return
        else:
            ctx.count('goal_adverts_checked')
            for sq in leftover:
                if sq[1] not in adv:
                    ctx.violation('%s:leaves-unadvertised-subgoal' % mname, 'at %s advertised goals [%s] but left open: %s' % (
                        wit.get('where'), '; '.join(astr(a) for a in adv), show(sq)), w)
                    return
            left_props = set(sq[1] for sq in leftover)
            for a in adv:
                if a in left_props:
                    ctx.count('advertised_goal_left_open')
                    continue
                if any(v[1] == a and v[0] <= goal_seq[0] for v in visible):
                    ctx.count('advertised_goal_closed_by_existing_line')
                elif is_trivial(a):
                    ctx.count('advertised_goal_closed_trivially')
                else:
                    ctx.violation('%s:advertised-subgoal-neither-open-nor-closed' % mname, 'at %s advertised goal %s is not left open and no visible '
                                  'line or trivial step closes it' % (wit.get('where'), astr(a)), w)
                    return
    elif '_fact' in r:
        # forward step: nothing but the goal itself may be left
        for sq in leftover:
            if sq != goal_seq:
                ctx.violation('%s:leaves-unadvertised-subgoal' % mname, 'forward suggestion at %s left a new open goal %s' % (wit.get('where'), show(sq)), w)
                return
    if '_fact' in r:
        ctx.count('fact_adverts_checked')
        new_proved = after_proved - before_proved
        new_props = set(sq[1] for sq in new_proved)
        for t in r['_fact']:
            if A(t) not in new_props:
                ctx.violation('%s:advertised-fact-missing' % mname, 'at %s advertised fact %s is not the statement of a new proved line (new lines: %s)' % (
                    wit.get('where'), astr(A(t)), '; '.join(astr(p) for p in list(new_props)[:4])), w)
                return
    if '_goal' not in r and '_fact' not in r and not solves_display:
        ctx.count('applied_without_advert:' + mname)


# ------------------------------------------------------------------ exploring one state
def explore_state(ctx, state, wit, budget, rng, must=None, max_goals=3, n_single=2, n_pair=2, cost=1.0, extra_sel=None):
    """search + judge on one state.  must: (goal_id str, fact_ids list) of the recorded selection.  budget and the
    return value are in cost units: one search = cost * (number of permutations of the facts)."""
    used = 0
    sorries = [it for it in all_items(state.prf) if it.rule == 'sorry' and it.th is not None]
    if not sorries:
        return 0
    goals = []
    if must is not None:
        for it in sorries:
            if str(it.id) == str(must[0]):
                goals.append(it)
    rest = [it for it in sorries if it not in goals]
    rng.shuffle(rest)
    goals.extend(rest[:max(0, max_goals - len(goals))])
    for git in goals:
        gid = git.id.id
        vis = [it for it in visible_items(state, gid) if it.th is not None]
        sels = [[]]
        if must is not None and str(git.id) == str(must[0]) and must[1]:
            try:
                if len(must[1]) <= 3 and all(state.get_proof_item(_iid(f)).th is not None and git.id.can_depend_on(_iid(f)) for f in must[1]):
                    sels.append([str(f) for f in must[1]])
            except Exception:
                pass
        ids = [str(it.id) for it in vis]
        if extra_sel and all(f in ids for f in extra_sel) and list(extra_sel) not in sels:
            sels.append(list(extra_sel))      # the selection of the previous step again (nested case analyses etc.)
        # prefer the nearest lines (as a user would) but keep some far ones
        near = ids[-6:]
        for _ in range(n_single):
            if ids:
                c = [rng.choice(near if rng.random() < 0.7 else ids)]
                if c not in sels:
                    sels.append(c)
        for _ in range(n_pair):
            if len(ids) >= 2:
                c = rng.sample(near if (len(near) >= 2 and rng.random() < 0.7) else ids, 2)
                if c not in sels and list(reversed(c)) not in sels:
                    sels.append(c)
        for prevs in sels:
            if used >= budget:
                return used
            used += cost * (1, 1, 2, 6)[len(prevs)]
            search_and_judge(ctx, state, gid, prevs, wit)
    return used


def search_and_judge(ctx, state, gid, prevs, wit, only=None, forced=None):
    ctx.count('searches')
    ctx.count('searches_with_%d_facts' % len(prevs))
    gs = '.'.join(str(i) for i in gid)
    try:
        results = state.search_method(gs, list(prevs))
    except RecursionError:
        ctx.count('search_raised:RecursionError')
        return
    except Exception as e:
        ctx.count('search_raised:' + type(e).__name__)
        ctx.note('search_method raised %s at %s goal %s facts %s: %s' % (type(e).__name__, wit.get('where'), gs, prevs, str(e)[:160]))
        return
    if results:
        ctx.count('searches_with_results')
    w = dict(wit, goal_id=gs, fact_ids=list(prevs))
    w['where'] = '%s goal %s facts %s' % (wit.get('where'), gs, list(prevs))
    for r in results:
        if only is not None:
            if any(r.get(k) != only.get(k) for k in ('method_name', 'theorem', 'sym', 'fact_ids')):
                continue
        try:
            judge(ctx, state, gid, r, w, forced=forced)
        except S.ShadowError:
            ctx.count('shadow_error')


# ------------------------------------------------------------------ library workload
def run_lib(ctx, spec):
    """budget in logical cost units: one search costs max(0.02, 0.0003 * number of hint theorems of the theory) per
    permutation of the selected facts (search_method tries every hint theorem on every permutation)"""
    from logic import basic
    from kernel import theory
    libreplay.prepare()
    bins = libreplay.partition(spec['parts'])
    names = bins[spec['i']]
    W = sum(libreplay.theory_weight(n) for n in names) or 1
    rng = ctx.rng
    for name in names:
        share = libreplay.theory_weight(name) / W
        budget_t = max(0.6, spec['units'] * share)
        max_searches = max(10, int(spec['searches'] * share))
        try:
            raw = basic.load_json_data(name)
            n_thm = sum(1 for it in raw['content'] if it.get('ty') == 'thm' and it.get('steps'))
            if n_thm == 0:
                continue
            cost = None
            used_t = 0.0
            s0 = ctx.counters['searches']
            # the selection probability needs the cost, which needs the loaded theory: first pass decides lazily
            sel = random_selector(rng)
            for item in libreplay.iter_theorems(name, None, 1.0, want_proof=False):
                if cost is None:
                    hints = sum(1 for nm in theory.thy.get_data('theorems')
                                if any(a.startswith('hint_') for a in theory.thy.get_attributes(nm)))
                    cost = max(0.02, 0.0003 * hints)
                    per_thm_units = spec['per_thm'] * cost
                    sel.p = min(1.0, 1.6 * min(budget_t, max_searches * cost) / (per_thm_units * n_thm))
                if used_t >= budget_t or ctx.counters['searches'] - s0 >= max_searches:
                    break
                if not sel.take():
                    continue
                used_t += lib_theorem(ctx, name, item, min(per_thm_units, budget_t - used_t), rng, cost=cost)
                ctx.count('lib_theorems')
            ctx.count('lib_theories')
        except Exception as e:
            ctx.count('lib_theory_error:' + type(e).__name__)
            ctx.note('theory %s: %s %s' % (name, type(e).__name__, str(e)[:200]))


class random_selector:
    def __init__(self, rng):
        self.rng, self.p = rng, 1.0

    def take(self):
        return self.rng.random() < self.p


def lib_theorem(ctx, thy_name, item, budget, rng, only_prefix=None, replay=None, cost=1.0):
    """replay the recorded steps of one theorem; explore sampled prefixes.  Returns cost units used."""
    used = [0]
    n = len(item.steps)
    if only_prefix is None:
        ks = set(rng.sample(range(n), min(n, max(1, int(budget / cost) // 3))))
    else:
        ks = {only_prefix}

    def before(state, k, step):
        if k not in ks or used[0] >= budget:
            return
        wit = {'kind': 'lib', 'theory': thy_name, 'theorem': item.name, 'prefix': k,
               'where': '%s.%s after %d recorded steps' % (thy_name, item.name, k), 'state_key': (thy_name, item.name, k)}
        ctx.count('lib_states')
        if replay is not None:
            search_and_judge(ctx, state, tuple(int(x) for x in replay['goal_id'].split('.')), replay['fact_ids'], wit,
                             only=replay['suggestion'], forced=replay.get('supplied'))
            used[0] += 1
            return
        must = (step.get('goal_id'), list(step.get('fact_ids') or []))
        used[0] += explore_state(ctx, state, wit, budget - used[0], rng, must=must, cost=cost)
    try:
        libreplay.replay_steps(item, before_step=before)
    except Exception as e:
        ctx.count('lib_replay_error:' + type(e).__name__)
    return used[0]


# ------------------------------------------------------------------ generated workload
def hint_table():
    from kernel import theory
    tab = {}
    for nm in theory.thy.get_data('theorems'):
        for a in theory.thy.get_attributes(nm):
            tab.setdefault(a, []).append(nm)
    return tab


def instantiate(th, rng, ground_types):
    """theorem with schematic (type) variables -> proposition over ordinary variables"""
    from kernel.type import TyInst, TVar
    from kernel.term import Inst, Var
    prop = th.prop
    tyinst = TyInst()
    for stv in prop.get_stvars():
        tyinst[stv.name] = rng.choice([TVar(stv.name)] * 2 + ground_types)
    prop = prop.subst_type(tyinst)
    inst = Inst()
    svs = prop.get_svars()
    for sv in svs:
        inst[sv.name] = Var(sv.name, sv.T)
    if len(svs) >= 2 and rng.random() < 0.3:
        # non-linear instance: identify two schematic variables of the same type
        a, b = rng.sample(svs, 2)
        if a.T == b.T:
            inst[b.name] = inst[a.name]
    return prop.subst(inst)


def rename(t, suffix, rng, collapse=False):
    """rename every free variable (optionally identify two of the same type)"""
    from kernel.term import Var
    vs = t.get_vars()
    m = {}
    for v in vs:
        m[v.name] = Var(v.name + suffix, v.T)
    if collapse and len(vs) >= 2:
        a, b = rng.sample(vs, 2)
        if a.T == b.T:
            m[b.name] = m[a.name]
    return replace_vars(t, m)


def replace_vars(t, m):
    """simultaneous replacement of free variables by name (abstract all, then instantiate all)"""
    from kernel.term import Lambda
    old = [v for v in t.get_vars() if v.name in m]
    res = t
    for v in old:
        res = Lambda(v, res)
    for v in reversed(old):
        res = res.subst_bound(m[v.name])
    return res


def gen_state(rng, tab, ground_types):
    """-> (vars dict, assumptions list, goal term, description) or None"""
    from kernel import theory
    from kernel.term import Var, Eq, Not, Implies, Forall, Exists, false
    kinds = ['backward', 'backward', 'forward', 'rewrite', 'rewrite', 'rewrite_fact', 'prev', 'prev_rewrite', 'quant', 'resolve', 'induct']
    kind = rng.choice(kinds)
    pools = {'backward': tab.get('hint_backward', []) + tab.get('hint_backward1', []) * 2,
             'forward': tab.get('hint_forward', []),
             'rewrite': tab.get('hint_rewrite', []) + tab.get('hint_rewrite_sym', []),
             'rewrite_fact': tab.get('hint_rewrite', []) + tab.get('hint_rewrite_sym', []),
             'prev': tab.get('hint_backward', []) + tab.get('hint_backward1', []) + tab.get('hint_forward', []),
             'prev_rewrite': tab.get('hint_rewrite', []),
             'quant': tab.get('hint_backward', []) + tab.get('hint_forward', []) + tab.get('hint_rewrite', []),
             'resolve': tab.get('hint_resolve', []),
             'induct': tab.get('hint_rewrite', []) + tab.get('hint_backward', [])}
    pool = pools[kind]
    if not pool:
        return None
    name = rng.choice(pool)
    th = theory.get_theorem(name)
    P = instantiate(th, rng, ground_types)
    As, C = P.strip_implies()
    facts, goal = [], C

    def some(xs, kmax):
        xs = list(xs)
        rng.shuffle(xs)
        return xs[:rng.randint(0, min(kmax, len(xs)))]

    def distract(fs):
        if rng.random() < 0.3 and As:
            fs = fs + [Not(rng.choice(As))]
        elif rng.random() < 0.15:
            fs = fs + [C]
        rng.shuffle(fs)
        return fs

    def eq_sides(c):
        if c.is_equals():
            return c.lhs, c.rhs
        return None

    if kind == 'backward':
        if rng.random() < 0.5:
            facts = distract(As[:rng.randint(0, min(2, len(As)))])     # a prefix (what tactic.rule matches), shuffled
        else:
            facts = distract(some(As, 2))
    elif kind == 'forward':
        facts = distract(list(As[:rng.randint(1, max(1, min(2, len(As))))]) if As else [C])
        goal = rng.choice([false, C])
    elif kind in ('rewrite', 'rewrite_fact'):
        sides = eq_sides(C)
        if sides is None:
            return None
        l, r = sides if 'hint_rewrite' in theory.thy.get_attributes(name) or rng.random() < 0.3 else (sides[1], sides[0])
        z = Var('z0', l.get_type())
        shape = rng.choice(['eqz', 'neq', 'self'])
        tgt = Eq(l, z) if shape == 'eqz' else Not(Eq(z, l)) if shape == 'neq' else Eq(l, r)
        if kind == 'rewrite':
            facts = distract(some(As, 2))
            goal = tgt
        else:
            facts = [tgt] + some(As, 1)
            rng.shuffle(facts)
            goal = false
    elif kind == 'prev':
        vs = P.get_vars()
        keep = [v for v in vs if rng.random() < 0.85]
        Q = Forall(*(keep + [P]))
        P2 = rename(P, '1', rng, collapse=rng.random() < 0.3)
        for v in vs:
            if v not in keep:
                P2 = replace_vars(P2, {v.name + '1': v})
        As2, C2 = P2.strip_implies()
        facts = [Q] + some(As2, 2)
        rng.shuffle(facts)
        goal = rng.choice([C2, C2, false])
    elif kind == 'prev_rewrite':
        sides = eq_sides(C)
        if sides is None:
            return None
        vs = C.get_vars()
        Q = Forall(*(vs + [C]))
        C2 = rename(C, '1', rng)
        z = Var('z0', C2.lhs.get_type())
        if rng.random() < 0.5:
            facts, goal = [Q], Eq(C2.lhs, z)
        else:
            facts, goal = [Q, Eq(C2.lhs, z)], false
        facts = facts + some(As, 1)
        rng.shuffle(facts)
    elif kind == 'quant':
        vs = C.get_vars()
        if not vs:
            return None
        v = rng.choice(vs)
        shape = rng.choice(['exists_goal', 'exists_fact', 'forall_goal', 'forall_fact'])
        if shape == 'exists_goal':
            facts, goal = some(As, 2), Exists(v, C)
        elif shape == 'exists_fact':
            vv = rng.sample(vs, min(len(vs), rng.randint(1, 2)))
            facts, goal = [Exists(*(vv + [C]))] + some(As, 1), rng.choice([false, C])
        elif shape == 'forall_goal':
            facts = []
            goal = Forall(v, Implies(*(As + [C]))) if rng.random() < 0.6 else Implies(*(As[:1] + [Forall(v, C)]))
        else:
            facts, goal = [Forall(v, Implies(*(As + [C])))] + some(As, 1), rng.choice([false, C])
    elif kind == 'resolve':
        if not C.is_not():
            return None
        facts = distract([C.arg])
        goal = rng.choice([false, Var('G0', false.T)])
    elif kind == 'induct':
        facts, goal = some(As, 1), C
    vars = {}
    for t in facts + [goal]:
        for v in t.get_vars():
            if v.name in vars and vars[v.name] != v.T:
                return None
            vars[v.name] = v.T
    return vars, facts, goal, '%s:%s' % (kind, name)


def run_gen(ctx, spec):
    from logic import basic, context
    from server import server
    from kernel.term import Implies
    from kernel.type import TConst, BoolType
    libreplay.prepare()
    rng = ctx.rng
    per = max(1, spec['states'] // len(spec['theories']))
    for thy in spec['theories']:
        basic.load_theory(thy)
        tab = hint_table()
        from kernel import theory
        ground = [BoolType]
        if theory.thy.has_type_sig('nat'):
            ground.append(TConst('nat'))
        made = 0
        tries = 0
        while made < per and tries < per * 6:
            tries += 1
            try:
                g = gen_state(rng, tab, ground)
            except Exception as e:
                ctx.count('gen_build_error:' + type(e).__name__)
                continue
            if g is None:
                continue
            vars, facts, goal, desc = g
            try:
                context.set_context(None, vars=vars)
                prop = Implies(*(facts + [goal]))
                state = server.parse_init_state(prop)
            except Exception as e:
                ctx.count('gen_state_error:' + type(e).__name__)
                continue
            made += 1
            ctx.count('gen_states')
            ctx.count('gen_kind:' + desc.split(':')[0])
            sprop = S.tm_shadow(prop)
            wit = {'kind': 'gen', 'theory': thy, 'desc': desc, 'where': 'generated state in %s (%s): %s' % (thy, desc, safe_str(prop)),
                   'vars': {k: S.jsonable(S.ty_shadow(T)) for k, T in vars.items()}, 'prop': S.jsonable(sprop),
                   'state_key': ('gen', S.alpha(sprop))}
            n_assume = len(prop.strip_implies()[0])   # parse_init_state also strips the antecedents of an implicational goal
            if state.prf.items[n_assume].rule != 'sorry':
                ctx.count('gen_state_without_goal_line')
                continue
            explore_gen_state(ctx, state, wit, n_assume, rng)


def safe_str(t):
    try:
        return str(t)
    except Exception:
        return S.tm_str(S.tm_shadow(t))


def explore_gen_state(ctx, state, wit, nfacts, rng, follow=2):
    gid = (nfacts,)
    sels = [[]] + [[str(i)] for i in range(nfacts)]
    pairs = [[str(i), str(j)] for i in range(nfacts) for j in range(i + 1, nfacts)]
    rng.shuffle(pairs)
    sels += pairs[:2]
    if nfacts >= 3 and rng.random() < 0.3:
        sels.append([str(i) for i in rng.sample(range(nfacts), 3)])
    Stats.ok_states = []
    for prevs in sels:
        if rng.random() < 0.5:
            prevs = list(reversed(prevs))
        search_and_judge(ctx, state, gid, prevs, wit)
    # generated editing sequences: continue from the result of a successful suggestion
    path = []
    for depth in range(follow):
        cands = [(stp, st) for stp, st in Stats.ok_states if st.prf.get_sorrys()]
        if not cands or rng.random() < 0.35:
            break
        stp, st = rng.choice(cands)
        path = path + [stp]
        w2 = dict(wit, path=path, where=wit['where'] + ' then ' + ' then '.join(
            '%s %s on %s%s' % (p['method_name'], p.get('theorem', ''), p['goal_id'], (' using ' + ','.join(p['fact_ids'])) if p.get('fact_ids') else '')
            for p in path), state_key=(wit['state_key'], json.dumps(path, sort_keys=True, default=str)))
        ctx.count('gen_followup_states')
        Stats.ok_states = []
        last = [p['fact_ids'] for p in path if p.get('fact_ids')]
        explore_state(ctx, st, w2, 6, rng, max_goals=2, n_single=2, n_pair=1, extra_sel=last[-1] if last else None)
    Stats.ok_states = None


# ------------------------------------------------------------------ directed family: program-logic goals under assumptions
HOARE_VARS = {'P': '(nat => nat) => bool', 'Q': '(nat => nat) => bool', 'A': 'nat', 'B': 'nat'}
_ST = '%s::nat=>nat. '


def hoare_cmd(rng, depth, loops=True):
    """text of a CONCRETE command over states nat => nat (constructors only: the generators of conditions recurse on them)"""
    exprs = ['(1::nat)', '(2::nat)', 's 0 + 1', 's 1', 's 0 + s 1', 's 1 * 2']
    conds = ['s 0 = 0', '~(s 0 = 3)', 's 0 = s 1', '~(s 1 = 0)']
    invs = ['true', 's 0 = s 1', '~(s 1 = 7)']

    def assign():
        return 'Assign (%d::nat) (%s%s)' % (rng.randint(0, 2), _ST, rng.choice(exprs))
    if depth <= 0:
        return rng.choice(['(Skip::(nat=>nat) com)', assign(), assign()])
    k = rng.choice(['seq', 'seq', 'cond', 'while' if loops else 'seq', 'atom'])
    if k == 'atom':
        return hoare_cmd(rng, 0)
    if k == 'seq':
        return 'Seq (%s) (%s)' % (hoare_cmd(rng, depth - 1, loops), hoare_cmd(rng, depth - 1, loops))
    if k == 'cond':
        return 'Cond (%s%s) (%s) (%s)' % (_ST, rng.choice(conds), hoare_cmd(rng, depth - 1, loops), hoare_cmd(rng, depth - 1, loops))
    return 'While (%s%s) (%s%s) (%s)' % (_ST, rng.choice(conds), _ST, rng.choice(invs), hoare_cmd(rng, depth - 1, False))


def hoare_valid(rng, depth=None):
    pre = rng.choice(['P', 'P', '%strue' % _ST, '%ss 0 = 0' % _ST])
    post = rng.choice(['Q', 'Q', '%ss 1 = 2' % _ST, '%s~(s 0 = s 1)' % _ST])
    return 'Valid (%s) (%s) (%s)' % (pre, hoare_cmd(rng, rng.randint(0, 2) if depth is None else depth), post)


def hoare_sem(rng):
    """(command, initial state, final state) of a Sem goal; the final state is the computed one or, sometimes, the initial one
    (then whatever is suggested must still apply)"""
    from imperative import imp
    from syntax import parser
    c = parser.parse_term(hoare_cmd(rng, rng.randint(0, 2), loops=False))
    st = parser.parse_term('%%x::nat. (%d::nat)' % rng.randint(0, 1))
    if rng.random() < 0.8:
        end = imp.eval_Sem(c, st).prop.arg       # input construction only: the judge never looks at it
    else:
        end = st
    return c, st, end


def gen_hoare_state(rng, idx):
    """-> (goal kind, assumption shape, statement form, assumption terms, goal term); needs the context of theory hoare"""
    from syntax import parser
    kind = rng.choice(['valid'] * 4 + ['sem'])
    if kind == 'valid':
        goal = parser.parse_term(hoare_valid(rng))
    else:
        c, st, end = hoare_sem(rng)
        Sem = parser.parse_term('Sem (Skip::(nat=>nat) com) (%x::nat. (0::nat)) (%x::nat. (0::nat))').head
        goal = Sem(c, st, end)
    shapes = ['none', 'eq', 'valid', 'none', 'eq2', 'entail', 'same', 'eq+valid']
    assume = shapes[idx % len(shapes)]        # round robin: every shape is present whatever the seed
    texts = {'none': [], 'eq': ['A = B'], 'eq2': ['A = B', 'B = A'], 'valid': [hoare_valid(rng, 0)], 'entail': ['Entail P Q'],
             'eq+valid': ['A = B', hoare_valid(rng, 0)]}
    As = [goal] if assume == 'same' else [parser.parse_term(t) for t in texts[assume]]
    form = rng.choice(['direct', 'direct', 'intro', 'conj']) if As or rng.random() < 0.5 else 'direct'
    return kind, assume, form, As, goal


def run_hoare(ctx, spec):
    """Goals of the program logic (theory hoare: methods vcg / eval_Sem are registered by imperative.imp) standing under
    assumptions.  The states are judged by the ordinary judge: every suggestion must apply or ask."""
    from logic import basic, context
    from server import server, method
    from syntax import parser
    from kernel import theory
    from kernel.term import Implies, And, Forall, Var, Eq
    from kernel.type import TConst
    libreplay.prepare()
    rng = ctx.rng
    basic.load_theory('hoare')
    seen = set()
    made = tries = 0
    while made < spec['states'] and tries < spec['states'] * 5:
        tries += 1
        try:
            context.set_context(None, vars=dict(HOARE_VARS))
            kind, assume, form, As, goal = gen_hoare_state(rng, made)
            path = []
            if form == 'direct':
                prop = Implies(*(As + [goal]))
            elif form == 'intro':
                # !n. n = A --> As --> goal : the goal gets its assumptions from an introduction step
                n = Var('n', TConst('nat'))
                prop = Forall(n, Implies(*([Eq(n, Var('A', TConst('nat')))] + As + [goal])))
                path = [{'method_name': 'introduction', 'goal_id': '0', 'fact_ids': [], 'names': 'n'}]
            else:
                # As --> goal & goal2 : split by conjI, both conjuncts stand under the assumptions
                goal2 = parser.parse_term(hoare_valid(rng, rng.randint(0, 1)))
                prop = Implies(*(As + [And(goal, goal2)]))
                path = [{'method_name': 'apply_backward_step', 'goal_id': str(len(As)), 'fact_ids': [], 'theorem': 'conjI'}]
            sprop = S.tm_shadow(prop)
            skey = S.alpha(sprop)
            if skey in seen:
                continue
            seen.add(skey)
            state = server.parse_init_state(prop)
            vars = dict(context.ctxt.vars)
            for stp in path:
                method.apply_method(state, dict(stp))
        except Exception as e:
            ctx.count('hoare_build_error:' + type(e).__name__)
            if ctx.counters['hoare_build_error:' + type(e).__name__] <= 2:
                ctx.note('hoare family: could not build a state: %s %s' % (type(e).__name__, str(e)[:160]))
            continue
        made += 1
        ctx.count('hoare_states')
        ctx.count('hoare_shape:%s/%s/%s' % (kind, assume, form))
        if path:
            ctx.count('hoare_derived_states')
        desc = 'hoare:%s/%s/%s' % (kind, assume, form)
        wit = {'kind': 'gen', 'theory': 'hoare', 'desc': desc, 'family': 'hoare',
               'where': 'generated state in hoare (%s): %s' % (desc, safe_str(prop)) + ''.join(
                   ' then %s %s on %s' % (p['method_name'], p.get('theorem', ''), p['goal_id']) for p in path),
               'vars': {k: S.jsonable(S.ty_shadow(T)) for k, T in vars.items()}, 'prop': S.jsonable(sprop), 'path': path,
               'state_key': ('hoare', skey, len(path))}
        # every open goal, no fact / every single visible line / some pairs (both orders are drawn at random)
        for git in [it for it in all_items(state.prf) if it.rule == 'sorry' and it.th is not None]:
            gid = git.id.id
            if len(git.th.hyps) > 0:
                ctx.count('hoare_goals_under_assumptions')
            else:
                ctx.count('hoare_goals_without_assumptions')
            ids = [str(it.id) for it in visible_items(state, gid) if it.th is not None]
            sels = [[]] + [[i] for i in ids[-3:]]
            pairs = [[a, b] for a in ids[-3:] for b in ids[-3:] if a != b]
            rng.shuffle(pairs)
            sels += pairs[:1]
            for prevs in sels:
                if prevs:
                    ctx.count('hoare_searches_with_facts')
                search_and_judge(ctx, state, gid, prevs, wit)


# ------------------------------------------------------------------ entry
def run_replay(ctx, w):
    from logic import basic, context
    from server import server
    libreplay.prepare()
    if w['kind'] == 'lib':
        for item in libreplay.iter_theorems(w['theory'], want_proof=False):
            if item.name == w['theorem']:
                lib_theorem(ctx, w['theory'], item, 10, ctx.rng, only_prefix=w['prefix'], replay=w)
                break
        else:
            ctx.note('replay: theorem %s not found in %s' % (w['theorem'], w['theory']))
        return
    basic.load_theory(w['theory'])
    vars = {k: S.to_repo_type(S.from_json(v)) for k, v in w['vars'].items()}
    context.set_context(None, vars=vars)
    state = server.parse_init_state(S.to_repo_term(S.from_json(w['prop'])))
    from server import method
    for stp in w.get('path', []):
        method.apply_method(state, dict(stp))
    wit = {k: w[k] for k in ('kind', 'theory', 'desc', 'where', 'vars', 'prop', 'path') if k in w}
    wit['where'] = w.get('where', '').rsplit(' goal ', 1)[0]
    wit['state_key'] = ('gen', 'replay')
    search_and_judge(ctx, state, tuple(int(x) for x in w['goal_id'].split('.')), w['fact_ids'], wit,
                     only=w['suggestion'], forced=w.get('supplied'))


def run_shard(ctx, spec):
    if 'replay' in spec:
        run_replay(ctx, spec['replay']['witness'])
        ctx.case('replay')
        return
    if spec['kind'] == 'lib':
        run_lib(ctx, spec)
    elif spec['kind'] == 'hoare':
        run_hoare(ctx, spec)
    else:
        run_gen(ctx, spec)
