"""C04 - every proof macro's expansion checks and proves what its evaluation claims.

Monitor: instance-level wrapper on eval(args, prevs) of every object in theory.global_macros, so the call is
seen from wherever it is made (ProofTerm construction, the checker, methods' search).  For a sampled,
de-duplicated (macro, args, premises) the monitor itself asks the real checker to EXPAND the macro
(one-step proof whose premises are placeholders, check_level=0) in the same theory and context, before
control returns, and compares the sequent the expansion establishes with the one eval reported.
"""
from vf import shadow as S, libreplay, gen as G

ID = 'C04'
LEVEL = 'exploration'
RULE = ('case = one (macro, arguments, premise sequents) tuple observed at macro.eval while replaying recorded library proofs, '
        'one mutation of such a tuple (premise dropped / permuted / duplicated) that eval still accepts, or one generated tuple '
        'for imp_conj / imp_disj / the veriT clause macros; for each, the expansion produced by the real macro.expand is checked '
        'by theory.check_proof(check_level=0) and compared with the evaluated sequent; distinct = hash of the tuple on shadows; '
        'non-trivial = the macro has an expansion (level >= 1)')
ASSUMPTIONS = ['an expansion that raises (NotImplementedError, TacticException, ConvException, AssertionError ...) counts as '
               '"no expansion produced"; only an expansion that is produced and then rejected by the checker, or that proves '
               'another sequent / needs extra hypotheses, is a violation',
               'premises are represented by placeholder lines stating the premise sequents (gaps allowed for them)',
               'Z3 is stubbed during library replay as in server/monitor.py (the validity of z3 steps is C06)']
REQUIRED = {'quick': {'arith_offers': 3000, 'arith_accepted:nat_const_ineq': 5, 'evals_observed': 1500, 'expansions_checked': 1200, 'expansions_agree': 1000, 'macros_expanded_min': 1},
            'thorough': {'arith_offers': 100000, 'arith_accepted:nat_const_ineq': 100, 'evals_observed': 30000, 'expansions_checked': 15000, 'expansions_agree': 12000, 'macros_expanded_min': 1}}
SHARD_TIMEOUT = {'quick': 1500, 'thorough': 7200}


def shards(tier, seed):
    q = tier == 'quick'
    return ([{'kind': 'lib', 'i': i, 'parts': 13 if q else 40, 'frac': 0.07 if q else 1.0, 'budget': 260 if q else 2500} for i in range(13 if q else 40)] +
            [{'kind': 'gen', 'i': i, 'count': 300 if q else 4000} for i in range(2 if q else 6)] +
            [{'kind': 'hist', 'i': 0, 'count': 120 if q else 1500}] +
            [{'kind': 'arith', 'i': i, 'count': 500 if q else 5000} for i in range(1 if q else 4)])


class Mon:
    ctx = None
    depth = 0
    installed = False
    seen = set()
    budget = 0
    origin = 'lib'
    mutate = True
    rng = None


def key_of(a):
    from kernel.term import Term, Inst
    from kernel.type import Type, TyInst
    from kernel.thm import Thm
    if isinstance(a, Term):
        return S.alpha(S.tm_shadow(a))
    if isinstance(a, Thm):
        hy, pr = S.thm_shadow(a)
        return ('thm', tuple(sorted((S.alpha(h) for h in hy), key=repr)), S.alpha(pr))
    if isinstance(a, Type):
        return S.ty_shadow(a)
    if isinstance(a, Inst):
        return ('inst', tuple(sorted((k, key_of(v)) for k, v in a.items())), tuple(sorted((k, key_of(v)) for k, v in a.tyinst.items())))
    if isinstance(a, TyInst):
        return ('tyinst', tuple(sorted((k, key_of(v)) for k, v in a.items())))
    if isinstance(a, (tuple, list)):
        return tuple(key_of(x) for x in a)
    if isinstance(a, dict):
        return tuple(sorted((k, key_of(v)) for k, v in a.items()))
    return a


def expansion_check(ctx, name, macro, args, prev_ths, eval_th, origin):
    """ask the real checker to expand the macro on this very tuple"""
    from kernel import theory
    from kernel.proof import Proof, ProofItem
    from kernel.theory import CheckProofException
    if macro.level is None or macro.level <= 0:
        ctx.count('skipped_trusted_or_unlevelled')
        return
    if not theory.has_macro(name):
        ctx.count('skipped_macro_not_available_in_theory')
        return
    prf = Proof()
    for i, pth in enumerate(prev_ths):
        prf.items.append(ProofItem(i, 'sorry', th=pth))
    k = len(prev_ths)
    prf.items.append(ProofItem(k, name, args=args, prevs=list(range(k))))
    wit = {'macro': name, 'args': str(args)[:600], 'prevs': [str(t)[:300] for t in prev_ths], 'eval': str(eval_th)[:400], 'origin': origin,
           'theory_size': len(theory.thy.get_data('theorems'))}
    try:
        res = theory.thy.check_proof(prf, check_level=0)
    except CheckProofException as e:
        msg = getattr(e, 'str', '')
        ctx.count('expansions_checked')
        ctx.count('expanded:' + name)
        ctx.violation('%s:expansion-rejected-by-checker' % name, 'eval(%s) accepted %s but the checker rejects its expansion: %s' % (
            name, str(eval_th)[:200], msg[:200]), wit)
        return
    except NotImplementedError:
        ctx.count('no_expansion:NotImplementedError')
        return
    except Exception as e:
        ctx.count('no_expansion:' + type(e).__name__)
        ctx.count('no_expansion_for:' + name)
        return
    ctx.count('expansions_checked')
    ctx.count('expanded:' + name)
    eh, ep = S.thm_shadow(eval_th)
    rh, rp = S.thm_shadow(res)
    if not S.aeq(ep, rp):
        ctx.violation('%s:expansion-proves-another-conclusion' % name, 'eval(%s) reports %s, the expansion proves %s' % (
            name, S.tm_str(ep)[:200], S.tm_str(rp)[:200]), wit)
        return
    extra = {S.alpha(h) for h in rh} - {S.alpha(h) for h in eh}
    if extra:
        ctx.violation('%s:expansion-needs-additional-hypotheses' % name, 'the expansion of %s needs hypotheses that eval did not report: %s' % (
            name, [S.tm_str(h)[:120] for h in rh if S.alpha(h) in extra][:2]), wit)
        return
    ctx.count('expansions_agree')


def install(ctx):
    from kernel import theory
    Mon.ctx = ctx
    if Mon.installed:
        return
    for name, macro in list(theory.global_macros.items()):
        wrap(name, macro)
    Mon.installed = True


def wrap(name, macro):
    orig = macro.eval

    def wrapper(args, prevs, *a, **kw):
        if Mon.depth > 0:
            return orig(args, prevs, *a, **kw)
        c = Mon.ctx
        c.count('evals_observed')
        Mon.depth += 1
        try:
            try:
                th = orig(args, prevs, *a, **kw)
            except Exception as e:
                c.count('eval_rejected')
                raise
            try:
                prev_list = list(prevs) if prevs is not None else []
                k = (name, key_of(args), key_of(prev_list))
                from vf.core import h64
                hk = h64(k)
                fresh = hk not in Mon.seen
                if fresh:
                    Mon.seen.add(hk)
                if fresh and Mon.budget > 0 and th is not None:
                    Mon.budget -= 1
                    expansion_check(c, name, macro, args, prev_list, th, Mon.origin)
                    c.case(k, nontrivial=(macro.level or 0) >= 1)
                    if Mon.mutate and len(prev_list) >= 1 and Mon.rng.random() < 0.25:
                        mutated(c, name, macro, orig, args, prev_list)
                    if Mon.mutate and Mon.rng.random() < 0.35:
                        retyped(c, name, macro, orig, args, prev_list)
            except S.ShadowError:
                c.count('shadow_error')
            return th
        finally:
            Mon.depth -= 1
    macro.eval = wrapper


def mutated(ctx, name, macro, orig, args, prev_list):
    """premise dropped / permuted / duplicated: if eval still accepts, its expansion must still check"""
    rng = Mon.rng
    kind = rng.choice(['drop', 'swap', 'dup', 'addhyp', 'addhyp'])
    pl = list(prev_list)
    if kind == 'addhyp':
        # one premise gets a hypothesis of its own (a fact proved under an extra assumption): what the macro
        # evaluates to must carry it, because its expansion will
        from kernel.thm import Thm
        from kernel.term import Var
        from kernel.type import BoolType
        j = rng.randrange(len(pl))
        pl[j] = Thm(pl[j].prop, *(tuple(pl[j].hyps) + (Var('vf_extra_hyp', BoolType),)))
    elif kind == 'drop':
        pl.pop(rng.randrange(len(pl)))
    elif kind == 'swap' and len(pl) >= 2:
        i, j = rng.sample(range(len(pl)), 2)
        pl[i], pl[j] = pl[j], pl[i]
    elif kind == 'dup':
        pl.append(rng.choice(pl))
    else:
        return
    ctx.count('mutations_tried')
    try:
        th = orig(args, pl)
    except Exception:
        ctx.count('mutation_rejected_by_eval')
        return
    if th is None:
        return
    ctx.count('mutation_accepted_by_eval')
    expansion_check(ctx, name, macro, args, pl, th, 'mutation:' + kind)


def retype_shadow(s, Tf, Tt):
    """the same term at another numeric type: every occurrence of the type Tf becomes Tt, except inside numerals
    (of_nat applied to a binary numeral keeps its nat argument)"""
    def ty(T):
        if T == Tf:
            return Tt
        if T[0] == 'tc':
            return ('tc', T[1], tuple(ty(a) for a in T[2]))
        return T

    def rec(t):
        k = t[0]
        if k in ('var', 'svar', 'const'):
            return (k, t[1], ty(t[2]))
        if k == 'comb':
            f, a = t[1], t[2]
            if f[0] == 'const' and f[1] == 'of_nat' and f[2][0] == 'tc' and f[2][1] == 'fun' and f[2][2][0] == S.NAT:
                from vf import arith as A_
                if A_.binary(a) is not None:
                    return ('comb', ('const', 'of_nat', S.fun(S.NAT, ty(f[2][2][1]))), a)
            return ('comb', rec(f), rec(a))
        if k == 'abs':
            return ('abs', t[1], ty(t[2]), rec(t[3]))
        return t
    return rec(s)


def retyped(ctx, name, macro, orig, args, prev_list):
    """the same arguments at another numeric type (nat / int / real): a macro written for one of them must either
    refuse, or expand to a proof of what it evaluated to"""
    from kernel.term import Term
    from kernel import theory
    if not isinstance(args, Term):
        return
    s = S.tm_shadow(args)
    present = [T for T in (S.NAT, S.INT, S.REAL) if any(T == x or T in S.type_parts(x) for x in S.term_types(s))] \
        if hasattr(S, 'type_parts') else [T for T in (S.NAT, S.INT, S.REAL) if repr(T) in repr(s)]
    if not present:
        return
    rng = Mon.rng
    Tf = rng.choice(present)
    Tt = rng.choice([T for T in (S.NAT, S.INT, S.REAL) if T != Tf])
    s2 = retype_shadow(s, Tf, Tt)
    if s2 == s:
        return
    try:
        S.typeof(s2)
        t2 = S.to_repo_term(s2)
        theory.thy.check_term(t2)          # filter only: every constant at an instance of its declared type
    except Exception:
        ctx.count('retype_not_well_formed')
        return
    ctx.count('retype_tried')
    try:
        th = orig(t2, prev_list)
    except Exception:
        ctx.count('retype_rejected_by_eval')
        return
    if th is None:
        return
    ctx.count('retype_accepted_by_eval')
    ctx.count('retype_accepted_by_eval:' + name)
    expansion_check(ctx, name, macro, t2, prev_list, th, 'mutation:retype')


# ------------------------------------------------------------------ workloads
def run_lib(ctx, spec):
    libreplay.prepare()
    import smt.veriT.verit_macro   # noqa: registers the verit macros
    install(ctx)
    Mon.origin = 'lib'
    Mon.rng = ctx.rng
    Mon.budget = spec['budget']
    bins = libreplay.partition(spec['parts'])
    for name in bins[spec['i']]:
        try:
            for item in libreplay.iter_theorems(name, ctx.rng, spec['frac'], want_proof=False):
                if Mon.budget <= 0:
                    break
                try:
                    libreplay.replay_steps(item)
                    ctx.count('lib_theorems_replayed')
                except Exception as e:
                    ctx.count('lib_replay_error:' + type(e).__name__)
        except Exception as e:
            ctx.count('lib_theory_error:' + type(e).__name__)


def run_gen(ctx, spec):
    """generated tuples for the propositional macros of logic.py and data/proplogic"""
    from logic import basic
    libreplay.prepare()
    install(ctx)
    basic.load_theory('sat')
    from kernel import theory
    from kernel.thm import Thm
    rng = ctx.rng
    Mon.origin = 'gen'
    Mon.rng = rng
    Mon.budget = 10 ** 9
    B = S.BOOL
    atoms = [('var', n, B) for n in 'ABCDE']

    def nest(op, ms):
        ms = list(ms)
        while len(ms) > 1:
            i = rng.randrange(len(ms) - 1)
            ms[i:i + 2] = [S.mk_comb(('const', op, S.funs(B, B, B)), ms[i], ms[i + 1])]
        return ms[0]
    imp = ('const', 'implies', S.funs(B, B, B))
    for k in range(spec['count']):
        which = rng.choice(['imp_conj', 'imp_disj'])
        ms = rng.sample(atoms, rng.choice([2, 3, 4]))
        extra = [rng.choice(atoms) for _ in range(rng.choice([0, 1]))]
        if which == 'imp_conj':
            # A1 & .. & An --> (subset / superset / permutation)
            lhs = nest('conj', ms + [rng.choice(ms)] * rng.choice([0, 1]))
            rhs_ms = rng.sample(ms, rng.randint(1, len(ms))) + (extra if rng.random() < 0.3 else [])
            rhs = nest('conj', rhs_ms)
        else:
            lhs_ms = rng.sample(ms, rng.randint(1, len(ms))) + (extra if rng.random() < 0.3 else [])
            lhs = nest('disj', lhs_ms)
            rhs = nest('disj', ms + [rng.choice(ms)] * rng.choice([0, 1]))
        goal = S.mk_comb(imp, lhs, rhs)
        macro = theory.global_macros[which]
        try:
            macro.eval(S.to_repo_term(goal), [])
        except Exception:
            ctx.count('gen_eval_rejected:' + which)

    directed_apply_theorem(ctx, rng, spec['count'])


def directed_apply_theorem(ctx, rng, count):
    """apply_theorem_for with a PARTIAL instantiation and no premises: a function-typed schematic variable becomes an
    abstraction that ignores (or uses) its argument, other schematic variables are instantiated or left open.  What is
    left open must be generalised in the evaluated sequent exactly as in the expansion - also when the variable
    vanishes from the statement after beta-normalisation.  The eval wrapper runs the expansion check."""
    from kernel import theory
    from kernel.term import Inst, Var, Lambda
    from kernel.type import TVar, STVar, TyInst
    from logic import basic
    basic.load_theory('set')
    macro = theory.global_macros['apply_theorem_for']
    thms = theory.thy.get_data('theorems')
    names = []
    for name in sorted(thms):
        try:
            th = theory.get_theorem(name)
        except Exception:
            continue
        svs = th.prop.get_svars()
        if any(v.T.is_fun() for v in svs) and 2 <= len(svs) <= 5 and th.prop.size() <= 60:
            names.append(name)
    ctx.count('apply_theorem_directed_theorems', len(names))
    for k in range(count):
        name = rng.choice(names)
        th = theory.get_theorem(name)
        svs = th.prop.get_svars()
        tyinst = TyInst()
        for tv in th.prop.get_stvars():
            tyinst[tv.name] = TVar(tv.name)
        inst = Inst()
        inst.tyinst = tyinst
        shape = []
        for v in svs:
            T = v.T.subst(tyinst)
            r = rng.random()
            if T.is_fun() and r < 0.8:
                doms, rng_T = T.strip_type()
                xs = [Var('vfx%d' % i, d) for i, d in enumerate(doms)]
                if rng.random() < 0.6:
                    body = Var('vf_q', rng_T)                              # ignores every argument
                    shape.append('const-fun')
                else:
                    body = Var('vf_g', T)(*xs)                              # uses them
                    shape.append('eta-fun')
                inst[v.name] = Lambda(*(xs + [body]))
            elif not T.is_fun() and r < 0.3:
                inst[v.name] = Var('vf_' + v.name, T)
                shape.append('var')
            else:
                shape.append('open')
        ctx.count('apply_theorem_directed_calls')
        try:
            macro.eval((name, inst), [])
            ctx.count('apply_theorem_directed_evaluated')
            if 'const-fun' in shape and 'open' in shape:
                ctx.count('apply_theorem_directed_const_fun_with_open_variable')
        except Exception as e:
            ctx.count('apply_theorem_directed_eval_rejected:' + type(e).__name__)


ARITH_MACROS = ['nat_const_ineq', 'nat_const_less', 'nat_const_less_eq', 'nat_norm', 'int_eq_comparison', 'int_eq_macro',
                'omega_norm_int_ineq', 'real_eq_comparison', 'real_norm', 'fun_upd_eval']


def run_arith(ctx, spec):
    """generated goals for the arithmetic macros that HAVE an expansion, each offered goals at nat, int and real
    (a macro written for one numeric type must refuse the others or expand to what it evaluated to)"""
    from logic import basic
    from vf import arith as A
    from vf.props import c05
    libreplay.prepare()
    install(ctx)
    basic.load_theory('real')
    import data.function     # noqa
    from kernel import theory
    rng = ctx.rng
    Mon.origin = 'arith'
    Mon.rng = rng
    Mon.mutate = False
    Mon.budget = 10 ** 9
    B = S.BOOL
    macros = [m for m in ARITH_MACROS if m in theory.global_macros]
    for k in range(spec['count']):
        T = rng.choice([S.NAT, S.INT, S.REAL])
        shape = rng.choice(['num-rel', 'num-rel', 'expr-rel', 'comm', 'fun_upd'])
        try:
            if shape == 'num-rel':
                a, b = c05.gen_num(rng, T, hostile=False, small=True), c05.gen_num(rng, T, hostile=False, small=True)
            else:
                a, b = c05.gen_expr(rng, T, rng.choice([1, 2])), c05.gen_expr(rng, T, rng.choice([0, 1]))
        except Exception:
            continue
        if shape == 'comm':
            x, y = ('var', 'x', T), ('var', 'y', T)
            op = rng.choice(['plus', 'times'])
            goal = A.rel('equals', T, A.binop(op, T, A.binop(op, T, x, a), y), A.binop(op, T, y, A.binop(op, T, a, x)))
        elif shape == 'fun_upd':
            f = ('var', 'f', S.fun(T, T))
            upd = S.mk_comb(('const', 'fun_upd', S.funs(S.fun(T, T), T, T, S.fun(T, T))), f, a, b)
            k2 = a if rng.random() < 0.5 else c05.gen_num(rng, T, hostile=False, small=True)
            lhs = ('comb', upd, k2)
            goal = A.rel('equals', T, lhs, b if k2 == a else ('comb', f, k2))
        else:
            r = rng.choice(['less', 'less_eq', 'equals', 'nequals', 'greater', 'greater_eq'])
            goal = A.neg_p(A.rel('equals', T, a, b)) if r == 'nequals' else A.rel(r, T, a, b)
        try:
            S.typeof(goal)
            g = S.to_repo_term(goal)
        except Exception:
            ctx.count('arith_goal_not_built')
            continue
        for m in macros:
            ctx.count('arith_offers')
            try:
                theory.global_macros[m].eval(g, [])
                ctx.count('arith_accepted:' + m)
                ctx.count('arith_accepted_at:%s:%s' % (m, T[1]))
            except Exception:
                ctx.count('arith_refused')


def run_hist(ctx, spec):
    """W-HIST for the auto macro (memo tables keyed by the goal only): the same goals are evaluated and expanded
    in their own theory, then again after the process has moved to an EARLIER theory, with the memo as found
    and with an empty memo"""
    from logic import basic, auto, context
    from kernel import theory
    from syntax import parser
    import io, contextlib
    libreplay.prepare()
    import integral.inequality   # noqa: registers the inequality solvers used by auto
    install(ctx)
    rng = ctx.rng
    Mon.origin = 'hist'
    Mon.rng = rng
    Mon.mutate = False
    Mon.budget = 10 ** 9
    macro = theory.global_macros['auto']
    texts = ["sqrt 2 >= 1", "~((1::real) = 2)", "x Mem real_closed_interval 0 1 --> 1 - x ^ (2::nat) >= 0",
             "x Mem real_open_interval 0 1 --> 1 - x ^ (2::nat) > 0", "x Mem real_closed_interval 0 (sqrt 2) --> 2 - x ^ (2::nat) >= 0",
             "x Mem real_closed_interval 0 (pi / 2) --> sqrt 2 * cos x >= 0", "(0::real) < 2", "(3::real) + 4 = 7",
             "x Mem real_closed_interval 1 2 --> x > 0", "x Mem real_closed_interval 1 2 --> x ^ (2::nat) + 1 > 0",
             "x Mem real_open_interval 0 1 --> x + 1 > 0", "(2::real) * 3 = 6", "x Mem real_closed_interval 0 1 --> x + 2 >= 0",
             "x Mem real_closed_interval 2 3 --> x - 1 > 0", "x Mem real_closed_interval 0 1 --> exp x > 0"]
    goals = []
    context.set_context('interval_arith', vars={'x': 'real'})
    for t in texts:
        try:
            with contextlib.redirect_stdout(io.StringIO()):
                goals.append(parser.parse_term(t))
        except Exception as e:
            ctx.count('hist_goal_parse_error')

    def run(g):
        try:
            th = macro.eval(g, [])
            return ('ok', S.alpha(S.tm_shadow(th.prop)))
        except Exception as e:
            return ('exc', type(e).__name__)
    # phase 1: in the goals' own theory (fills the memo; expansions are checked by the wrapper)
    for g in goals:
        r = run(g)
        ctx.count('hist_phase1_' + r[0])
    # phase 1b: the same sub-terms normalised WITH a premise and then WITHOUT one (and the other way round): a
    # result obtained under a premise must not be served to a premise-free call
    from kernel.thm import Thm
    from kernel.term import Var
    context.set_context('realintegral', vars={'x': 'real', 'y': 'real'})
    cond_texts = ["x > 0", "x >= 0", "y > 0"]
    t_texts = ["x ^ (1 / 2) * x ^ (1 / 2)", "sqrt x * sqrt x", "x ^ (3 / 2) * x ^ (1 / 2)", "abs x", "sqrt (x ^ (2::nat))",
               "x ^ (1 / 3) * x ^ (2 / 3)", "y ^ (1 / 2) * y ^ (1 / 2)", "log (exp x)", "x / x"]
    def P(txt):
        with contextlib.redirect_stdout(io.StringIO()):
            return parser.parse_term(txt)
    for tt in t_texts:
        try:
            t = P(tt)
        except Exception:
            ctx.count('hist_goal_parse_error')
            continue
        from kernel.term import Eq, Real
        seqs = []
        # 'cond': the premise is an assumption (c |- c); 'cond0': the premise is a proved fact without hypotheses
        # (|- c), as a line of a proof state or a `sorry` premise is - a result obtained from it does not show the
        # dependence in its hypotheses, so nothing about the result says that it may not be reused
        for order in (('free', 'cond', 'free'), ('cond', 'free', 'cond'), ('free', 'cond0', 'free'), ('cond0', 'free', 'cond0')):
            goal_fixed = rng.choice([None, None, Eq(t, P("x")), Eq(P("sqrt x"), P("x ^ (1 / 2)"))])
            for kind in order:
                goal = goal_fixed if goal_fixed is not None else \
                    rng.choice([Eq(t + Real(0), t), Eq(t, t), Eq(t * Real(1), t), Eq(t + Real(0), P("x")), Eq(t, P("x"))])
                prem = []
                if kind == 'cond':
                    c = P(rng.choice(cond_texts))
                    prem = [Thm(c, c)]
                elif kind == 'cond0':
                    c = P(rng.choice(cond_texts))
                    prem = [Thm(c)]
                try:
                    macro.eval(goal, prem)
                    ctx.count('hist_premise_calls_ok:' + kind)
                except Exception as e:
                    ctx.count('hist_premise_calls_rejected:' + kind)
                ctx.case(('hist-premise', kind, key_of(goal)), nontrivial=True)
    ctx.count('hist_norm_record_entries', len(auto.norm_record))
    ctx.count('hist_solve_record_entries', len(auto.solve_record))
    # phase 2: an earlier theory, memo as found vs empty memo
    for thy_name in ('real', 'interval_arith'):
        context.set_context(thy_name, vars={'x': 'real'})
        for g in goals:
            Mon.seen.clear()
            warm = run(g)
            saved = (auto.norm_record, auto.solve_record)
            auto.norm_record, auto.solve_record = dict(), dict()
            try:
                Mon.seen.clear()
                cold = run(g)
            finally:
                auto.norm_record, auto.solve_record = saved
            ctx.count('hist_differentials')
            if warm[0] != cold[0]:
                ctx.count('hist_%s_warm_%s_cold_%s' % (thy_name, warm[0], cold[0]))
            ctx.case(('hist', thy_name, key_of(g)), nontrivial=True)


def run_shard(ctx, spec):
    import warnings
    warnings.simplefilter('ignore')
    if 'replay' in spec:
        ctx.note('replay: re-run the shard kind %s with the recorded seed (the tuple depends on the theory reached during replay)' % spec['replay']['witness'].get('origin'))
        ctx.case('replay')
        return
    if spec['kind'] == 'lib':
        run_lib(ctx, spec)
    elif spec['kind'] == 'gen':
        run_gen(ctx, spec)
    elif spec['kind'] == 'arith':
        run_arith(ctx, spec)
    else:
        run_hist(ctx, spec)
    n = len([k for k in ctx.counters if k.startswith('expanded:')])
    ctx.count('distinct_macros_expanded_in_shard', n)
    if n >= 1:
        ctx.count('macros_expanded_min')


def coverage_extra(counters, tier):
    return {'distinct_macros_expanded': sorted(k[9:] for k in counters if k.startswith('expanded:')),
            'macros_without_expansion_seen': sorted(k[17:] for k in counters if k.startswith('no_expansion_for:'))}
