"""C02 - the proof checker accepts only well-founded, fully justified, gap-free proofs.

Monitors: event log of Theory._check_proof_item (enter/exit, via the class attribute, so
sub-proofs and macro expansions are seen) and of Proof.find_item (which object a citation
was resolved to); offline oracles L1..L5 over the log of every ACCEPTED proof, plus the
checked_extend result (installed theorems vs. reported axioms).
"""
import copy, itertools
from vf import shadow as S, holmodel as H

ID = 'C02'
LEVEL = 'exploration'
RULE = ('case = one proof object (ids, citations, stated sequents, nesting, placeholders chosen by the generator) '
        'checked by the real theory.check_proof under no_gaps in {True,False}, or one (stated theorem, proof) pair '
        'given to checked_extend; exhaustive for all proofs of <= 2 items (quick) / <= 3 items (thorough) over the '
        'rule pool, random for larger nested ones; distinct = hash of the proof spec; non-trivial = >= 2 items and '
        'at least one citation or placeholder')
ASSUMPTIONS = ['citation resolution is observed through Proof.find_item; if the checker stops calling it the run is inconclusive',
               'reference yield of assume / implies_intr / implies_elim / identity substitution computed on shadows',
               'propositional validity by truth table (vf.holmodel)']
REQUIRED = {'quick': {'exhaustive_two_items_three_ids_parts_done': 3, 'hist_rechecks': 800, 'hist_recheck:True/fresh:True': 200, 'accepted': 500, 'rejected': 500, 'L1_citations_checked': 300, 'L2_yields_checked': 300,
                      'ext_cases': 100, 'ext_admitted_as_proved': 5, 'gaps_reports_checked': 100, 'exhaustive_nested_done': 1, 'stated_family_done': 1, 'stated_family_cases': 800,
                      'L6_item_yields_checked:variable': 100, 'L6_items_with_stated_sequent:variable': 20, 'L6_items_with_stated_sequent:subproof': 10,
                      'L6_items_with_stated_sequent:theorem': 10, 'stated_ext_cases': 50},
            'thorough': {'exhaustive_two_items_three_ids_parts_done': 3, 'hist_rechecks': 30000, 'hist_recheck:True/fresh:True': 8000, 'accepted': 5000, 'rejected': 5000, 'L1_citations_checked': 3000, 'L2_yields_checked': 3000,
                         'ext_cases': 1000, 'ext_admitted_as_proved': 50, 'gaps_reports_checked': 1000, 'exhaustive_nested_done': 1, 'stated_family_done': 1, 'stated_family_cases': 800,
                         'L6_item_yields_checked:variable': 100, 'L6_items_with_stated_sequent:variable': 20, 'L6_items_with_stated_sequent:subproof': 10,
                         'L6_items_with_stated_sequent:theorem': 10, 'stated_ext_cases': 50}}
SHARD_TIMEOUT = {'quick': 600, 'thorough': 7200}

BOOL = S.BOOL
A = ('var', 'A', BOOL)
Bv = ('var', 'B', BOOL)
IMP = ('const', 'implies', S.funs(BOOL, BOOL, BOOL))
FALSE = ('const', 'false', BOOL)


def imp(a, b):
    return S.mk_comb(IMP, a, b)


FORM = {'A': A, 'B': Bv, 'A->B': imp(A, Bv), 'B->A': imp(Bv, A), 'false': FALSE}
# claims: name -> (hyps, prop) in formula names
CLAIMS = {'|-B': ((), 'B'), 'A|-B': (('A',), 'B'), 'A,A->B|-B': (('A', 'A->B'), 'B'), '|-A->B': ((), 'A->B'),
          'A|-A': (('A',), 'A'), '|-false': ((), 'false'), 'A->B|-A->B': (('A->B',), 'A->B'), '|-A': ((), 'A'),
          'B,A|-A': (('B', 'A'), 'A')}

# extra statements used only by the directed 'stated' family (kept out of CLAIMS so the random workloads are unchanged)
BB = S.funs(BOOL, BOOL)
Fv = ('var', 'f', BB)
TRUE = ('const', 'true', BOOL)


def var_decl(v):
    """the declaration proposition _VAR(v) on shadows, built without Thm.mk_VAR"""
    return S.mk_comb(('const', '_VAR', S.funs(v[2], BOOL)), v)


VARS = {'A': A, 'B': Bv, 'f': Fv}
FORM_X = {'_VAR A': var_decl(A), '_VAR B': var_decl(Bv), '_VAR f': var_decl(Fv), 'true': TRUE}
CLAIMS_X = {'|-_VAR A': ((), '_VAR A'), '|-_VAR B': ((), '_VAR B'), '|-_VAR f': ((), '_VAR f'), 'A|-_VAR A': (('A',), '_VAR A'),
            'A|-_VAR B': (('A',), '_VAR B'), '|-true': ((), 'true'), 'A|-true': (('A',), 'true'), 'B|-B': (('B',), 'B'),
            'A,B|-B': (('A', 'B'), 'B')}


def shards(tier, seed):
    if tier == 'quick':
        return ([{'kind': 'exh', 'n': 1, 'part': 0, 'parts': 1}, {'kind': 'exh', 'n': 2, 'part': 0, 'parts': 1}, {'kind': 'nested'}, {'kind': 'stated'}] +
                [{'kind': 'exh2w', 'part': p_, 'parts': 3} for p_ in range(3)] +
                [{'kind': 'exh3_sample', 'count': 2500, 'i': i} for i in range(6)] +
                [{'kind': 'random', 'count': 700, 'i': i} for i in range(6)] +
                [{'kind': 'ext', 'count': 400, 'i': i} for i in range(2)] +
                [{'kind': 'hist', 'count': 1500, 'i': i} for i in range(2)])
    return ([{'kind': 'exh', 'n': 1, 'part': 0, 'parts': 1}, {'kind': 'exh', 'n': 2, 'part': 0, 'parts': 1}, {'kind': 'nested'}, {'kind': 'stated'}] +
            [{'kind': 'exh2w', 'part': p_, 'parts': 3} for p_ in range(3)] +
            [{'kind': 'exh', 'n': 3, 'part': p, 'parts': 32} for p in range(32)] +
            [{'kind': 'random', 'count': 15000, 'i': i} for i in range(12)] +
            [{'kind': 'ext', 'count': 6000, 'i': i} for i in range(4)] +
            [{'kind': 'hist', 'count': 20000, 'i': i} for i in range(4)])


# ------------------------------------------------------------------ building proofs from specs
def mk_thm(claim):
    from kernel.thm import Thm
    hy, pr = CLAIMS[claim] if claim in CLAIMS else CLAIMS_X[claim]
    form = lambda n: FORM[n] if n in FORM else FORM_X[n]
    return Thm(S.to_repo_term(form(pr)), *[S.to_repo_term(form(h)) for h in hy])


def mk_item(sp):
    from kernel.proof import ProofItem, Proof
    from kernel.term import Inst
    rule = sp['rule']
    args = None
    if rule in ('assume', 'implies_intr'):
        args = S.to_repo_term(FORM[sp['arg']])
    elif rule == 'substitution':
        args = Inst()
    elif rule == 'vf_gap':
        args = S.to_repo_term(FORM[sp['arg']])
    elif rule == 'theorem':
        args = sp['arg']
    elif rule == 'variable':
        v = VARS[sp['arg']]
        args = (v[1], S.to_repo_type(v[2]))
    th = mk_thm(sp['th']) if sp.get('th') else None
    it = ProofItem(tuple(sp['id']), rule, args=args, prevs=[tuple(p) for p in sp.get('prevs', [])], th=th)
    if sp.get('sub') is not None:
        it.subproof = Proof()
        it.subproof.items = [mk_item(s) for s in sp['sub']]
    return it


def mk_proof(spec):
    from kernel.proof import Proof
    prf = Proof()
    prf.items = [mk_item(s) for s in spec]
    return prf


def install_gap_macro():
    from kernel import theory
    from kernel.macro import Macro
    from kernel.proofterm import ProofTerm
    from kernel.thm import Thm
    from kernel.term import Term
    if 'vf_gap' in theory.global_macros:
        return

    class VfGapMacro(Macro):
        """harness macro: claims |- args; its expansion is a placeholder."""
        def __init__(self):
            self.level = 1
            self.sig = Term
            self.limit = None

        def eval(self, args, prevs):
            return Thm(args)

        def get_proof_term(self, args, prevs):
            return ProofTerm.sorry(Thm(args))
    theory.global_macros['vf_gap'] = VfGapMacro()


# ------------------------------------------------------------------ the monitor
class Log:
    def __init__(self):
        self.events = []     # dicts
        self.stack = []
        self.active = False
        self.find_calls = 0


LOG = Log()


def install_monitors():
    from kernel.theory import Theory
    from kernel.proof import Proof
    if getattr(Theory, '_vf_c02', False):
        return
    orig_item = Theory._check_proof_item
    orig_find = Proof.find_item

    def item_wrapper(self, prf, seq, rpt, no_gaps, compute_only, check_level):
        if not LOG.active:
            return orig_item(self, prf, seq, rpt, no_gaps, compute_only, check_level)
        ev = {'obj': seq, 'rule': seq.rule, 'id': seq.id.id, 'prevs': [p.id for p in seq.prevs],
              'stated': S.thm_shadow(seq.th) if seq.th is not None else None,
              'parent': LOG.stack[-1] if LOG.stack else None, 'enter': len(LOG.events), 'ok': None,
              'resolved': [], 'no_gaps': no_gaps, 'compute_only': compute_only}
        LOG.events.append(ev)
        LOG.stack.append(ev)
        try:
            r = orig_item(self, prf, seq, rpt, no_gaps, compute_only, check_level)
            ev['ok'] = True
            ev['exit'] = len(LOG.events)
            ev['final'] = S.thm_shadow(seq.th) if seq.th is not None else None
            return r
        except BaseException:
            ev['ok'] = False
            raise
        finally:
            LOG.stack.pop()

    def find_wrapper(self, id):
        r = orig_find(self, id)
        if LOG.active and LOG.stack:
            LOG.find_calls += 1
            LOG.stack[-1]['resolved'].append((id.id, r))
        return r
    Theory._check_proof_item = item_wrapper
    Proof.find_item = find_wrapper
    Theory._vf_c02 = True


def ancestors(ev):
    out = []
    while ev is not None:
        out.append(ev)
        ev = ev['parent']
    return out


CITING = ('implies_elim', 'implies_intr', 'substitution')


def ref_yield(ev, prem):
    """what the rule really yields, on shadows: (hyps frozenset(alpha), prop alpha) or None."""
    rule = ev['rule']
    obj = ev['obj']
    if rule == 'assume':
        a = S.alpha(S.tm_shadow(obj.args))
        return frozenset([a]), a
    if rule == 'substitution':
        if len(prem) != 1:
            return None
        return prem[0]
    if rule == 'implies_intr':
        if len(prem) != 1:
            return None
        a = S.alpha(S.tm_shadow(obj.args))
        return frozenset(h for h in prem[0][0] if h != a), S.alpha(imp(a, prem[0][1]))
    if rule == 'implies_elim':
        if len(prem) != 2:
            return None
        p = prem[0][1]
        h, args = S.strip_comb(p)
        if not (h == IMP and len(args) == 2 and args[0] == prem[1][1]):
            return None
        return prem[0][0] | prem[1][0], args[1]
    return 'n/a'


def seq_key(sh):
    return frozenset(S.alpha(h) for h in sh[0]), S.alpha(sh[1])


NONCITING = ('variable', 'theorem', 'subproof', 'vf_gap', 'assume')


def item_yield(ev, events):
    """L6 reference: what a non-citing ('bookkeeping') item really produces, as (hyps, prop) on alpha-normal shadows;
    None = produces no sequent; 'n/a' = no reference."""
    rule, obj = ev['rule'], ev['obj']
    if rule == 'variable':
        nm, T = obj.args
        return frozenset(), S.alpha(var_decl(('var', nm, S.ty_shadow(T))))
    if rule == 'assume':
        a = S.alpha(S.tm_shadow(obj.args))
        return frozenset([a]), a
    if rule == 'vf_gap':
        return frozenset(), S.alpha(S.tm_shadow(obj.args))
    if rule == 'theorem':
        from kernel import theory
        try:
            return seq_key(S.thm_shadow(theory.thy.get_theorem(obj.args)))
        except Exception:
            return None
    if rule == 'subproof':
        kids = [e for e in events if e['parent'] is ev]
        if not kids or not kids[-1]['ok'] or kids[-1].get('final') is None:
            return None
        return seq_key(kids[-1]['final'])
    return 'n/a'


def judge_items(ctx, events):
    """L6: every accepted non-citing item (declaration, assumption, theorem copy, block, trusted macro) records exactly
    what its rule produces - up to extra hypotheses - whatever sequent the proof text stated for it."""
    viol = []
    for ev in events:
        if not ev['ok'] or ev['rule'] not in NONCITING:
            continue
        if ev['compute_only'] and ev['stated'] is not None:
            continue
        y = item_yield(ev, events)
        if y == 'n/a':
            continue
        ctx.count('L6_item_yields_checked')
        ctx.count('L6_item_yields_checked:' + ev['rule'])
        if ev['stated'] is not None:
            ctx.count('L6_items_with_stated_sequent:' + ev['rule'])
        fin = seq_key(ev['final']) if ev.get('final') is not None else None
        if fin is None:
            continue
        if y is None:
            viol.append(('L6:%s-item-records-a-sequent-though-it-produces-none' % ev['rule'],
                         'item id=%s rule %s was accepted with recorded sequent %s |- %s but the rule produces no sequent here'
                         % (ev['id'], ev['rule'], ', '.join(S.tm_str(h) for h in ev['final'][0]), S.tm_str(ev['final'][1]))))
        elif not (y[1] == fin[1] and y[0] <= fin[0]):
            viol.append(('L6:stated-sequent-of-%s-item-accepted-unchecked' % ev['rule'],
                         'item id=%s rule %s was accepted with recorded sequent %s |- %s, which is not what the rule produces (%s)'
                         % (ev['id'], ev['rule'], ', '.join(S.tm_str(h) for h in ev['final'][0]), S.tm_str(ev['final'][1]),
                            'stated in the proof text' if ev['stated'] is not None else 'filled in by the checker')))
    return viol


def judge(ctx, spec, mode, result, rpt, events, find_calls):
    """oracles over the log of an accepted proof.  result: Thm or None."""
    viol = judge_items(ctx, events)
    by_obj = {}
    for ev in events:
        by_obj.setdefault(id(ev['obj']), []).append(ev)
    no_gaps = mode['no_gaps']
    sorry_entered = [ev for ev in events if ev['rule'] == 'sorry' and ev['ok']]
    # L3
    if no_gaps and sorry_entered:
        viol.append(('L3:placeholder-accepted-with-gaps-disallowed', 'sorry item %s passed under no_gaps=True' % (sorry_entered[0]['id'],)))
    # L4
    if not no_gaps and rpt is not None:
        ctx.count('gaps_reports_checked')
        want = sorted(repr(seq_key(ev['stated'])) for ev in sorry_entered if ev['stated'] is not None)
        got = sorted(repr(seq_key(S.thm_shadow(g))) for g in rpt.gaps)
        if want != got:
            viol.append(('L4:reported-gaps-differ-from-placeholders', 'entered %d placeholders, report lists %d' % (len(want), len(got))))
    for ev in events:
        if not ev['ok'] or ev['rule'] not in CITING:
            continue
        # which objects were the citations resolved to?
        res_objs = []
        unobs = False
        for p in ev['prevs']:
            hits = [r for (q, r) in ev['resolved'] if q == p]
            if not hits:
                unobs = True
                break
            res_objs.append(hits[0])
        if unobs:
            ctx.count('L1_unobservable')
            continue
        ok_prem = True
        for p, R in zip(ev['prevs'], res_objs):
            ctx.count('L1_citations_checked')
            revs = [e for e in by_obj.get(id(R), []) if e['ok'] and e['exit'] <= ev['enter']]
            if not revs:
                viol.append(('L1:cites-step-not-verified-earlier', 'item id=%s (%s) cites %s resolved to an item that had not been verified before it'
                             % (ev['id'], ev['rule'], p)))
                ok_prem = False
                continue
            r0 = revs[-1]
            if r0['rule'] == '':
                viol.append(('L1:cites-unjustified-empty-step', 'item id=%s cites %s, an empty-rule item carrying a statement' % (ev['id'], p)))
                ok_prem = False
            if r0['parent'] is not None and not any(r0['parent'] is a for a in ancestors(ev)):
                viol.append(('L1:cites-into-closed-block', 'item id=%s cites %s inside a block that is closed' % (ev['id'], p)))
                ok_prem = False
        # L2
        if ev['final'] is None:
            continue
        prem = []
        for R in res_objs:
            if R.th is None:
                prem = None
                break
            prem.append(seq_key(S.thm_shadow(R.th)))
        if prem is None:
            continue
        y = ref_yield(ev, prem)
        if y == 'n/a':
            continue
        ctx.count('L2_yields_checked')
        fin = seq_key(ev['final'])
        if y is None:
            viol.append(('L2:step-accepted-though-rule-inapplicable', 'item id=%s rule %s accepted on premises it does not apply to' % (ev['id'], ev['rule'])))
        elif not (y[1] == fin[1] and y[0] <= fin[0]):
            viol.append(('L2:stated-sequent-stronger-than-yield', 'item id=%s rule %s: recorded sequent is not implied by what the rule yields' % (ev['id'], ev['rule'])))
    for ev in events:
        if ev['ok'] and ev['rule'] == 'assume' and ev['final'] is not None:
            ctx.count('L2_yields_checked')
            y = ref_yield(ev, [])
            fin = seq_key(ev['final'])
            if not (y[1] == fin[1] and y[0] <= fin[0]):
                viol.append(('L2:stated-sequent-stronger-than-yield', 'item id=%s assume: recorded sequent stronger than A |- A' % (ev['id'],)))
    # L5 semantic end-to-end
    if result is not None and not sorry_entered:
        sh = S.thm_shadow(result)
        st, w = H.refute(sh[0], sh[1], ctx.rng, max_size=1)
        ctx.count('L5_final_sequents_evaluated')
        if st == 'refuted':
            viol.append(('L5:invalid-sequent-accepted-gap-free', 'accepted without any placeholder but returned %s |- %s, refuted by %s'
                         % (', '.join(S.tm_str(h) for h in sh[0]), S.tm_str(sh[1]), w['valuation'])))
    return viol


def run_check(ctx, spec, mode):
    """one real check_proof run under the monitor -> (accepted?, violations)"""
    from kernel import theory
    from kernel.report import ProofReport
    prf = mk_proof(spec)
    rpt = ProofReport()
    LOG.events, LOG.stack, LOG.find_calls = [], [], 0
    LOG.active = True
    try:
        res = theory.thy.check_proof(prf, rpt, no_gaps=mode['no_gaps'])
        accepted = True
    except Exception as e:
        accepted = False
        ctx.count('rej:' + type(e).__name__)
    finally:
        LOG.active = False
    if not accepted:
        ctx.count('rejected')
        return False, []
    ctx.count('accepted')
    ctx.count('events_logged', len(LOG.events))
    return True, judge(ctx, spec, mode, res, rpt, LOG.events, LOG.find_calls)


def report(ctx, spec, mode, viol, kind):
    for mech, desc in viol:
        ctx.violation(mech, desc + ' [no_gaps=%s]' % mode['no_gaps'], {'kind': kind, 'spec': spec, 'mode': mode})


# ------------------------------------------------------------------ workloads
def item_options(n, ids):
    """per-item options for the exhaustive space (ids: list of id tuples available for citation)"""
    out = []
    for st in (None, '|-B'):
        out.append({'rule': 'assume', 'arg': 'A', 'th': st})
    out.append({'rule': 'assume', 'arg': 'A->B', 'th': None})
    for p in ids:
        for q in ids:
            for st in (None, '|-B'):
                out.append({'rule': 'implies_elim', 'prevs': [p, q], 'th': st})
        for st in (None, '|-B'):
            out.append({'rule': 'substitution', 'prevs': [p], 'th': st})
    out.append({'rule': 'sorry', 'th': '|-B'})
    out.append({'rule': '', 'th': None})
    out.append({'rule': '', 'th': '|-B'})
    out.append({'rule': 'vf_gap', 'arg': 'B', 'th': None})
    return out


def exh_specs(n):
    ids = [(i,) for i in range(n)]
    opts = item_options(n, ids)
    for idmap in itertools.product(range(n), repeat=n):
        for combo in itertools.product(opts, repeat=n):
            yield [dict(c, id=(idmap[i],)) for i, c in enumerate(combo)]


def exh2_wide_specs():
    """all proofs of TWO items whose ids and citations range over three values: ids that do not agree with positions
    (an item at position 0 carrying id 2 and citing the item after it, ...)"""
    ids = [(i,) for i in range(3)]
    opts = item_options(3, ids)
    for idmap in itertools.product(range(3), repeat=2):
        for combo in itertools.product(opts, repeat=2):
            yield [dict(c, id=(idmap[i],)) for i, c in enumerate(combo)]


def nested_specs():
    """systematic visibility space: two blocks and a top-level item; the citing items (identity substitution) cite
    every id present in the tree, from inside the second block and from the top level"""
    ids = [(0,), (0, 0), (0, 1), (1,), (1, 0), (1, 1), (2,)]
    for cite_inner in ids:
        for cite_inner2 in ids:
            for cite_top in ids:
                for first_rule in ('assume', 'sorry'):
                    blk0 = [{'rule': 'assume', 'arg': 'A', 'id': (0, 0)} if first_rule == 'assume' else {'rule': 'sorry', 'th': '|-B', 'id': (0, 0)},
                            {'rule': 'substitution', 'prevs': [(0, 0)], 'id': (0, 1)}]
                    blk1 = [{'rule': 'substitution', 'prevs': [cite_inner], 'id': (1, 0)},
                            {'rule': 'substitution', 'prevs': [cite_inner2], 'id': (1, 1)}]
                    yield [{'rule': 'subproof', 'sub': blk0, 'id': (0,)}, {'rule': 'subproof', 'sub': blk1, 'id': (1,)},
                           {'rule': 'substitution', 'prevs': [cite_top], 'id': (2,)}]


def stated_producers():
    """non-citing items x what the proof text states for them: nothing, what the rule produces, that plus a spare
    hypothesis, and foreign sequents (other propositions, falsity, the declaration of ANOTHER variable, ...)"""
    foreign = ['|-B', '|-A', '|-A->B', '|-false', 'A|-B', 'A,A->B|-B', 'A|-A', '|-true']
    out = []
    for v in ('A', 'B', 'f'):
        honest = '|-_VAR ' + v
        other = ['|-_VAR B', 'A|-_VAR B'] if v != 'B' else ['|-_VAR A', '|-_VAR f']
        for st in [None, honest] + (['A|-_VAR A'] if v == 'A' else []) + other + foreign:
            out.append(({'rule': 'variable', 'arg': v, 'th': st}, 'none' if st is None else 'own' if st in (honest, 'A|-_VAR A') else 'foreign'))
    for a, own in (('A', ['A|-A', 'B,A|-A']), ('B', ['B|-B', 'A,B|-B'])):
        for st in [None] + own + ['|-' + a, '|-A->B', '|-false', 'A|-B', '|-_VAR ' + a, '|-true']:
            if st == 'A|-B' and a == 'B':
                st = 'A|-A'
            out.append(({'rule': 'assume', 'arg': a, 'th': st}, 'none' if st is None else 'own' if st in own else 'foreign'))
    for st in [None, '|-true', 'A|-true', '|-B', '|-A->B', '|-false', 'A|-A', '|-_VAR A']:
        out.append(({'rule': 'theorem', 'arg': 'trueI', 'th': st}, 'none' if st is None else 'own' if 'true' in st else 'foreign'))
    for st in [None, '|-A->B', '|-false', '|-true']:
        out.append(({'rule': 'theorem', 'arg': 'conjI', 'th': st}, 'none' if st is None else 'foreign'))
    for inner in ({'rule': 'assume', 'arg': 'A'}, {'rule': 'variable', 'arg': 'A'}, {'rule': 'theorem', 'arg': 'trueI'}):
        own = {'assume': ['A|-A', 'B,A|-A'], 'variable': ['|-_VAR A', 'A|-_VAR A'], 'theorem': ['|-true', 'A|-true']}[inner['rule']]
        for st in [None] + own + ['|-A', '|-B', '|-A->B', '|-false', '|-_VAR B']:
            out.append(({'rule': 'subproof', 'sub': [dict(inner, id=(0,))], 'th': st}, 'none' if st is None else 'own' if st in own else 'foreign'))
    for st in (None, '|-B', 'A|-B', '|-A', '|-false'):
        out.append(({'rule': 'vf_gap', 'arg': 'B', 'th': st}, 'none' if st is None else 'own' if st in ('|-B', 'A|-B') else 'foreign'))
    return out


def reid(item, pid):
    """the item placed at id pid (ids of a block inside it follow)"""
    it = dict(item, id=pid)
    if it.get('sub') is not None:
        it['sub'] = [reid(s, pid + (k,)) for k, s in enumerate(it['sub'])]
    return it


def stated_specs():
    """W-STATED: each producer alone, cited by every kind of consumer, after a preamble, as the last line of a block,
    cited inside a block, at depth two, and as the cited conclusion of a block."""
    for p, cls in stated_producers():
        P = lambda pid: reid(p, pid)
        yield 'alone', cls, p, [P((0,))]
        yield 'cited-by-substitution', cls, p, [P((0,)), {'rule': 'substitution', 'prevs': [(0,)], 'id': (1,)}]
        yield 'cited-as-implication', cls, p, [P((0,)), {'rule': 'assume', 'arg': 'A', 'id': (1,)},
                                                {'rule': 'implies_elim', 'prevs': [(0,), (1,)], 'id': (2,)}]
        yield 'cited-as-antecedent', cls, p, [{'rule': 'assume', 'arg': 'A->B', 'id': (0,)}, P((1,)),
                                               {'rule': 'implies_elim', 'prevs': [(0,), (1,)], 'id': (2,)}]
        yield 'cited-by-implies_intr', cls, p, [P((0,)), {'rule': 'implies_intr', 'arg': 'A', 'prevs': [(0,)], 'id': (1,)}]
        yield 'last-of-block', cls, p, [{'rule': 'subproof', 'sub': [P((0, 0))], 'id': (0,)}]
        yield 'block-conclusion-cited', cls, p, [{'rule': 'subproof', 'sub': [P((0, 0))], 'id': (0,)},
                                                  {'rule': 'substitution', 'prevs': [(0,)], 'id': (1,)}]
        yield 'cited-inside-block', cls, p, [{'rule': 'subproof', 'id': (0,), 'sub': [
            P((0, 0)), {'rule': 'assume', 'arg': 'A', 'id': (0, 1)}, {'rule': 'implies_elim', 'prevs': [(0, 0), (0, 1)], 'id': (0, 2)}]}]
        yield 'outer-item-cited-from-block', cls, p, [P((0,)), {'rule': 'subproof', 'id': (1,), 'sub': [
            {'rule': 'substitution', 'prevs': [(0,)], 'id': (1, 0)}]}]
        yield 'depth-two', cls, p, [{'rule': 'subproof', 'id': (0,), 'sub': [
            {'rule': 'subproof', 'id': (0, 0), 'sub': [P((0, 0, 0))]}, {'rule': 'substitution', 'prevs': [(0, 0)], 'id': (0, 1)}]}]


def stated_ext_case(ctx, producer, cls, claim):
    """the stated theorem `claim` with a one-line 'proof' that is a non-citing item stating that very claim"""
    from kernel import theory, extension
    spec = [reid(producer, (0,))]
    prf = mk_proof(spec)
    old = theory.thy
    theory.thy = copy.copy(old)
    name = 'vf_ext_thm'
    LOG.events, LOG.stack = [], []
    LOG.active = True
    try:
        try:
            rep = theory.thy.checked_extend([extension.Theorem(name, mk_thm(claim), prf)])
            ok = True
        except Exception as e:
            ok = False
            ctx.count('stated_ext_refused:' + type(e).__name__)
        finally:
            LOG.active = False
        ctx.count('stated_ext_cases')
        if ok and theory.thy.has_theorem(name) and not any(n == name for n, _ in rep.get_axioms()):
            ctx.count('stated_ext_admitted_as_proved')
            for mech, desc in judge_items(ctx, LOG.events):
                ctx.violation('EXT:' + mech, 'checked_extend installed %s as proved from a one-line proof: %s' % (claim, desc),
                              {'kind': 'stated', 'stated': claim, 'spec': spec, 'via': 'checked_extend'})
    finally:
        theory.thy = old
    ctx.case(('stated-ext', claim, repr(spec)), nontrivial=True)


def rand_spec(rng):
    """random nested proof, mostly sensible, then perturbed"""
    forms = ['A', 'B', 'A->B', 'B->A']

    def block(prefix, depth, visible, budget):
        items = []
        n = rng.randint(1, 5 if depth == 0 else 3)
        for i in range(n):
            if budget[0] <= 0:
                break
            budget[0] -= 1
            pid = prefix + (i,)
            vis = visible + [it['id'] for it in items]
            r = rng.random()
            if r < 0.25 or not vis:
                sp = {'rule': 'assume', 'arg': rng.choice(forms)}
            elif r < 0.45 and len(vis) >= 2:
                sp = {'rule': 'implies_elim', 'prevs': [rng.choice(vis), rng.choice(vis)]}
            elif r < 0.6:
                sp = {'rule': 'implies_intr', 'arg': rng.choice(forms), 'prevs': [rng.choice(vis)]}
            elif r < 0.72:
                sp = {'rule': 'substitution', 'prevs': [rng.choice(vis)]}
            elif r < 0.8:
                sp = {'rule': 'sorry', 'th': rng.choice(list(CLAIMS))}
            elif r < 0.84:
                sp = {'rule': '', 'th': rng.choice([None, None] + list(CLAIMS))}
            elif r < 0.9:
                sp = {'rule': 'vf_gap', 'arg': rng.choice(forms)}
            elif depth < 2:
                sub = block(pid, depth + 1, vis, budget)
                if not sub:
                    sp = {'rule': 'assume', 'arg': rng.choice(forms)}
                else:
                    sp = {'rule': 'subproof', 'sub': sub}
            else:
                sp = {'rule': 'assume', 'arg': rng.choice(forms)}
            sp['id'] = pid
            if sp['rule'] not in ('sorry', '') and rng.random() < 0.25:
                sp['th'] = rng.choice(list(CLAIMS))
            items.append(sp)
        return items

    spec = block((), 0, [], [rng.randint(3, 12)])
    # perturbations
    flat = []

    def walk(items):
        for it in items:
            flat.append(it)
            if it.get('sub'):
                walk(it['sub'])
    walk(spec)
    allids = [it['id'] for it in flat]
    for it in flat:
        r = rng.random()
        if r < 0.08:
            it['id'] = rng.choice(allids)                      # duplicated / swapped id
        elif r < 0.12:
            it['id'] = it['id'][:-1] + (it['id'][-1] + rng.choice([1, 2, -1]),)
            if it['id'][-1] < 0:
                it['id'] = it['id'][:-1] + (0,)
        if it.get('prevs') and rng.random() < 0.2:
            k = rng.randrange(len(it['prevs']))
            it['prevs'][k] = rng.choice(allids)                # forward / closed-block / self citation
    return spec


def is_nontrivial(spec):
    flat = []

    def walk(items):
        for it in items:
            flat.append(it)
            if it.get('sub'):
                walk(it['sub'])
    walk(spec)
    return len(flat) >= 2 and any(it.get('prevs') or it['rule'] in ('sorry', '', 'vf_gap') for it in flat)


def do_spec(ctx, spec, kind, sample=False):
    key = repr(spec)
    took = False
    for mode in ({'no_gaps': True}, {'no_gaps': False}):
        acc, viol = run_check(ctx, spec, mode)
        took = took or acc
        if viol:
            report(ctx, spec, mode, viol, kind)
    ctx.case(key, nontrivial=is_nontrivial(spec), sample={'spec': spec, 'accepted_some_mode': took} if sample else None)


def sensible_spec(rng):
    """a small proof that is usually accepted (no id / citation perturbations)"""
    forms = ['A', 'B', 'A->B', 'B->A']
    items = []
    n = rng.randint(3, 7)
    for i in range(n):
        vis = [it['id'] for it in items]
        r = rng.random()
        if r < 0.45 or len(vis) < 2:
            sp = {'rule': 'assume', 'arg': rng.choice(forms)}
        elif r < 0.75:
            imps = [it for it in items if it['rule'] == 'assume' and '->' in it['arg']]
            if imps:
                f = rng.choice(imps)
                a = f['arg'].split('->')[0]
                prem = [it for it in items if it['rule'] == 'assume' and it['arg'] == a]
                sp = {'rule': 'implies_elim', 'prevs': [f['id'], (rng.choice(prem) if prem else rng.choice(items))['id']]}
            else:
                sp = {'rule': 'implies_elim', 'prevs': [rng.choice(vis), rng.choice(vis)]}
        elif r < 0.9:
            sp = {'rule': 'implies_intr', 'arg': rng.choice(forms), 'prevs': [rng.choice(vis)]}
        else:
            sp = {'rule': 'substitution', 'prevs': [rng.choice(vis)]}
        sp['id'] = (i,)
        items.append(sp)
    return items


def hist_case(ctx, rng, fixed=None):
    """W-HIST: a proof OBJECT is checked, edited the way the proof-state editor edits it (a line replaced by a new
    item, or citations / arguments of a line changed in place) and checked again.  The second verdict must be the
    verdict a fresh object with the same content gets, and the log of the second run goes through the oracles."""
    from kernel import theory
    from kernel.report import ProofReport
    import copy as _copy
    spec = sensible_spec(rng) if rng.random() < 0.7 else rand_spec(rng)
    mode = {'no_gaps': rng.random() < 0.5}
    if fixed is not None:
        spec, mode = fixed['spec'], fixed['mode']
    prf = mk_proof(spec)
    try:
        theory.thy.check_proof(prf, ProofReport(), no_gaps=mode['no_gaps'])
    except Exception:
        ctx.count('hist_first_check_rejected')
        return
    ctx.count('hist_first_check_accepted')
    # the edit
    spec2 = _copy.deepcopy(spec)
    top = [i for i, it in enumerate(spec2) if it['rule'] in ('assume', 'implies_elim', 'implies_intr')]
    if not top:
        return
    k = rng.choice(top)
    it = spec2[k]
    forms = ['A', 'B', 'A->B', 'B->A']
    how = rng.choice(['replace-item', 'replace-item', 'args-in-place', 'prevs-in-place'])
    if fixed is not None:
        spec2, k, how = fixed['edited'], fixed['index'], fixed['how']
        it = spec2[k]
    elif it['rule'] == 'assume' or (how == 'args-in-place' and it['rule'] == 'implies_intr'):
        it['arg'] = rng.choice([f for f in forms if f != it.get('arg')])
        if how == 'prevs-in-place':
            how = 'args-in-place'
    elif it.get('prevs'):
        j = rng.randrange(len(it['prevs']))
        others = [x['id'] for x in spec2[:k] if x['id'] != it['prevs'][j]]
        if not others:
            return
        it['prevs'][j] = rng.choice(others)
        if how == 'args-in-place':
            how = 'prevs-in-place'
    if how == 'replace-item':
        prf.items[k] = mk_item(it)                    # as ProofState.set_line does
    elif how == 'args-in-place':
        prf.items[k].args = mk_item(it).args
    else:
        prf.items[k].prevs = [tuple(p) for p in it['prevs']]
    ctx.count('hist_edits:' + how)
    # second check of the edited object, under the monitors
    rpt = ProofReport()
    LOG.events, LOG.stack, LOG.find_calls = [], [], 0
    LOG.active = True
    try:
        res = theory.thy.check_proof(prf, rpt, no_gaps=mode['no_gaps'])
        again = True
    except Exception:
        again = False
    finally:
        LOG.active = False
    events = LOG.events
    try:
        theory.thy.check_proof(mk_proof(spec2), ProofReport(), no_gaps=mode['no_gaps'])
        fresh = True
    except Exception:
        fresh = False
    ctx.count('hist_rechecks')
    ctx.count('hist_recheck:%s/fresh:%s' % (again, fresh))
    ctx.case(('hist', repr(spec), k, how, repr(it)), nontrivial=True,
             sample={'spec': spec, 'edited_item': it, 'how': how, 'recheck_accepts': again, 'fresh_accepts': fresh} if rng.random() < 0.002 else None)
    wit = {'kind': 'hist', 'spec': spec, 'edited': spec2, 'index': k, 'how': how, 'mode': mode}
    if again and not fresh:
        ctx.violation('history:recheck-of-an-edited-proof-accepts-what-a-fresh-check-rejects',
                      'after a first full check, item %s was edited (%s) to %s; check_proof accepts the edited object but '
                      'rejects a fresh proof with the same content [no_gaps=%s]' % (it['id'], how, it, mode['no_gaps']), wit)
    elif again:
        for mech, desc in judge(ctx, spec2, mode, res, rpt, events, 0):
            ctx.violation('history:' + mech, desc + ' (second check of an edited proof object, edit %s)' % how, wit)


def ext_case(ctx, rng):
    """(stated theorem, proof) through checked_extend on a copy of the theory"""
    from kernel import theory, extension
    from kernel.thm import Thm
    stated = rng.choice(list(CLAIMS))
    r = rng.random()
    if r < 0.3:
        # a correct proof of the stated claim when there is a simple one
        proofs = {'A|-A': [{'rule': 'assume', 'arg': 'A', 'id': (0,)}],
                  'A->B|-A->B': [{'rule': 'assume', 'arg': 'A->B', 'id': (0,)}],
                  'A,A->B|-B': [{'rule': 'assume', 'arg': 'A->B', 'id': (0,)}, {'rule': 'assume', 'arg': 'A', 'id': (1,)},
                                {'rule': 'implies_elim', 'prevs': [(0,), (1,)], 'id': (2,)}],
                  'B,A|-A': [{'rule': 'assume', 'arg': 'A', 'id': (0,)}]}
        stated = rng.choice(list(proofs))
        spec = copy.deepcopy(proofs[stated])
    elif r < 0.5:
        spec = [{'rule': 'sorry', 'th': stated, 'id': (0,)}]
        if rng.random() < 0.5:
            spec.append({'rule': 'substitution', 'prevs': [(0,)], 'id': (1,)})
    elif r < 0.6:
        spec = [{'rule': 'vf_gap', 'arg': CLAIMS[stated][1], 'id': (0,)}]
    elif r < 0.7:
        # circular: the proof cites the very theorem it is meant to prove
        spec = [{'rule': 'theorem', 'arg': 'vf_ext_thm', 'id': (0,)}, {'rule': 'substitution', 'prevs': [(0,)], 'id': (1,)}]
    else:
        spec = rand_spec(rng)
    prf = mk_proof(spec)
    old = theory.thy
    theory.thy = copy.copy(old)
    name = 'vf_ext_thm'
    th = mk_thm(stated)
    LOG.events, LOG.stack = [], []
    LOG.active = True
    try:
        try:
            rep = theory.thy.checked_extend([extension.Theorem(name, th, prf)])
            ok = True
        except Exception as e:
            ok = False
            ctx.count('ext_refused:' + type(e).__name__)
            if theory.thy.has_theorem(name):
                ctx.violation('EXT:refused-extension-leaves-its-theorem-installed',
                              'checked_extend raised %s for %s but the theorem is in the theory afterwards (later proofs can cite it)' % (type(e).__name__, stated),
                              {'kind': 'ext', 'stated': stated, 'spec': spec})
        finally:
            LOG.active = False
        ctx.count('ext_cases')
        if ok:
            installed = theory.thy.has_theorem(name)
            as_axiom = any(n == name for n, _ in rep.get_axioms())
            if installed and not as_axiom:
                ctx.count('ext_admitted_as_proved')
                why = None
                if any(ev['rule'] == 'theorem' and ev['ok'] and ev['obj'].args == name for ev in LOG.events):
                    why = 'its proof cites the theorem being proved'
                elif any(ev['rule'] == 'sorry' and ev['ok'] for ev in LOG.events):
                    why = 'its proof contains a placeholder'
                else:
                    last = prf.items[-1].th if prf.items else None
                    if last is None:
                        why = 'its proof yields no sequent'
                    else:
                        a, b = seq_key(S.thm_shadow(last)), seq_key(S.thm_shadow(th))
                        if not (a[1] == b[1] and a[0] <= b[0]):
                            why = 'its proof concludes a different sequent'
                        else:
                            st, w = H.refute([FORM[h] for h in CLAIMS[stated][0]], FORM[CLAIMS[stated][1]], rng, max_size=1)
                            if st == 'refuted':
                                why = 'the admitted statement is not valid'
                if why:
                    mech = {'its proof cites the theorem being proved': 'EXT:admitted-circular-proof',
                            'its proof contains a placeholder': 'EXT:admitted-with-gap',
                            'its proof yields no sequent': 'EXT:admitted-without-sequent',
                            'its proof concludes a different sequent': 'EXT:admitted-proof-of-other-sequent',
                            'the admitted statement is not valid': 'EXT:admitted-invalid-statement'}[why]
                    ctx.violation(mech, 'checked_extend installed %s as proved although %s' % (stated, why),
                                  {'kind': 'ext', 'stated': stated, 'spec': spec})
    finally:
        theory.thy = old
    ctx.case(('ext', stated, repr(spec)), nontrivial=True)


def run_shard(ctx, spec):
    from logic import basic
    basic.load_theory('logic_base')
    install_gap_macro()
    install_monitors()
    if 'replay' in spec:
        w = spec['replay']['witness']
        sp = fix_spec(w['spec'])
        if w['kind'] == 'hist':
            hist_case(ctx, ctx.rng, fixed={'spec': sp, 'edited': fix_spec(w['edited']), 'index': w['index'], 'how': w['how'], 'mode': w['mode']})
            ctx.case('replay', sample=sp)
            return
        if w['kind'] == 'ext':
            ctx.note('replay of ext cases: re-run the ext shard with the same seed')
        for mode in ({'no_gaps': True}, {'no_gaps': False}):
            acc, viol = run_check(ctx, sp, mode)
            report(ctx, sp, mode, viol, w['kind'])
        ctx.case('replay', sample=sp)
        return
    kind = spec['kind']
    rng = ctx.rng
    if kind == 'exh':
        for k, sp in enumerate(exh_specs(spec['n'])):
            if k % spec['parts'] != spec['part']:
                continue
            do_spec(ctx, sp, 'exh', sample=(k % 5003 == 17))
        ctx.count('exhaustive_n%d_parts_done' % spec['n'])
    elif kind == 'exh2w':
        for k, sp in enumerate(exh2_wide_specs()):
            if k % spec['parts'] != spec['part']:
                continue
            do_spec(ctx, sp, 'exh2w', sample=(k % 5003 == 17))
        ctx.count('exhaustive_two_items_three_ids_parts_done')
    elif kind == 'nested':
        for k, sp in enumerate(nested_specs()):
            do_spec(ctx, sp, 'nested', sample=(k == 5))
        ctx.count('exhaustive_nested_done')
    elif kind == 'stated':
        for k, (shape, cls, p, sp) in enumerate(stated_specs()):
            ctx.count('stated_family_cases')
            ctx.count('stated_family:%s:%s' % (p['rule'], cls))
            ctx.count('stated_family_shape:' + shape)
            before = ctx.counters['accepted']
            do_spec(ctx, sp, 'stated', sample=(k % 401 == 7))
            if ctx.counters['accepted'] > before:
                ctx.count('stated_family_accepted:%s:%s' % (p['rule'], cls))
        for p, cls in stated_producers():
            if p.get('th'):
                stated_ext_case(ctx, p, cls, p['th'])
        ctx.count('stated_family_done')
    elif kind == 'exh3_sample':
        ids = [(i,) for i in range(3)]
        opts = item_options(3, ids)
        for k in range(spec['count']):
            sp = [dict(rng.choice(opts), id=(rng.randrange(3),)) for i in range(3)]
            do_spec(ctx, sp, 'exh3', sample=(k == 0))
    elif kind == 'random':
        for k in range(spec['count']):
            do_spec(ctx, rand_spec(rng), 'random', sample=(k == 0 and spec['i'] < 2))
    elif kind == 'ext':
        for k in range(spec['count']):
            ext_case(ctx, rng)
    elif kind == 'hist':
        for k in range(spec['count']):
            hist_case(ctx, rng)


def fix_spec(sp):
    """JSON lists -> tuples where ids are expected"""
    out = []
    for it in sp:
        it = dict(it)
        it['id'] = tuple(it['id'])
        if 'prevs' in it:
            it['prevs'] = [tuple(p) for p in it['prevs']]
        if it.get('sub') is not None:
            it['sub'] = fix_spec(it['sub'])
        out.append(it)
    return out


def coverage_extra(counters, tier):
    return {'exhaustive': bool(counters.get('exhaustive_n1_parts_done') and counters.get('exhaustive_n2_parts_done')),
            'exhaustive_scope': 'all proofs of <= 2 items (quick) / all 32 partitions of the 3-item space (thorough) over the rule '
                                'pool {assume, implies_elim, identity substitution, sorry, empty rule, gap macro} x ids x citations x stated sequent'}
