"""C06 - goals discharged through Z3 / SymPy are valid HOL statements.

Monitor: acceptance of a one-step proof with rule 'z3' / 'sympy' by the real theory.check_proof.
Oracle: counter-model search under HOL's own semantics - vf.hol3 (three-valued, quantifiers over
infinite types trusted only in the sound direction) for Z3 goals, vf.arith at sampled admissible points
for SymPy goals.  An accepted goal with a definite counter-model is a violation.
"""
from fractions import Fraction
from vf import shadow as S, arith as A, hol3

ID = 'C06'
LEVEL = 'exploration'
RULE = ('case = one generated goal (Z3: first-order formulas with quantifiers over bool/nat/int/real/an uninterpreted type in '
        'positive and negative positions, linear arithmetic, nat subtraction, division, of_nat, if-then-else, min/max/abs, '
        'predicate and function variables; SymPy: real (dis)equalities and inequalities, optionally under an interval-membership '
        'premise, including expressions with division, inverse, fractional powers, sqrt, log/exp) submitted through a one-step '
        'proof to theory.check_proof; distinct = hash of (solver, goal shadow); non-trivial = goal size >= 7')
ASSUMPTIONS = ['a goal is judged invalid only on a definite counter-model: free variables from small ranges, quantifiers over '
               'nat/int/real evaluated on a finite range and used only in the sound direction (three-valued logic)',
               'SymPy goals are evaluated at sampled points with vf.arith (HOL total functions: x/0 = 0, library real power, '
               'sign-preserving sqrt); log of non-positive values is treated as unknown',
               'z3 parameter timeout=3000ms is set from the harness so that a solver run cannot hang the check',
               'closed, function-free quantified sub-sentences whose bounded evaluation is inconclusive are decided by an '
               'independent guard-correct Z3 encoding (vf.hol3.Z3Oracle: nat binders relativised, truncated minus, total '
               'division); its unsat answers are trusted']
REQUIRED = {'quick': {'z3_goal_after_failing_call': 120, 'z3_calls': 800, 'z3_accepted': 60, 'z3_countermodels_found': 300, 'sympy_calls': 400, 'sympy_accepted': 60, 'sympy_memo_differentials': 200,
                      'check_z3_flag_true': 1},
            'thorough': {'z3_goal_after_failing_call': 2000, 'z3_calls': 15000, 'z3_accepted': 1000, 'z3_countermodels_found': 6000, 'sympy_calls': 8000, 'sympy_memo_differentials': 4000,
                         'sympy_accepted': 1000, 'check_z3_flag_true': 1}}
SHARD_TIMEOUT = {'quick': 1200, 'thorough': 7200}

B, NAT, INT, REAL = S.BOOL, S.NAT, S.INT, S.REAL
TA = ('tv', 'a')


def shards(tier, seed):
    n = 12 if tier == 'quick' else 48
    return ([{'kind': 'z3', 'i': i, 'count': 160 if tier == 'quick' else 900} for i in range(n)] +
            [{'kind': 'sympy', 'i': i, 'count': 150 if tier == 'quick' else 900} for i in range(4 if tier == 'quick' else 16)])


def c(n, T):
    return ('const', n, T)


def app(f, *args):
    return S.mk_comb(f, *args)


def conn(n, a, b):
    return app(c(n, S.funs(B, B, B)), a, b)


def neg(a):
    return app(c('neg', S.fun(B, B)), a)


def quant(q, name, T, body):
    return app(c(q, S.fun(S.fun(T, B), B)), ('abs', name, T, body))


# ------------------------------------------------------------------ Z3 goals
FREE = {NAT: [('var', 'n', NAT), ('var', 'm', NAT)], INT: [('var', 'i', INT), ('var', 'j', INT)],
        REAL: [('var', 'x', REAL), ('var', 'y', REAL)], B: [('var', 'p', B), ('var', 'q', B)],
        TA: [('var', 'a', TA), ('var', 'b', TA)]}
PRED = ('var', 'P', S.fun(TA, B))
NFUN = ('var', 'h', S.fun(NAT, NAT))
AFUN = ('var', 'g', S.fun(TA, NAT))


class Z3Gen:
    def __init__(self, rng):
        self.rng = rng
        self.used = []

    def use(self, v):
        if v not in self.used:
            self.used.append(v)
        return v

    def term(self, T, depth, bd):
        rng = self.rng
        bs = [('bound', k) for k, bT in enumerate(bd) if bT == T]
        if depth <= 0 or rng.random() < 0.25:
            r = rng.random()
            if bs and r < 0.55:
                return rng.choice(bs)
            if r < 0.8:
                return self.use(rng.choice(FREE[T]))
            if T in (NAT, INT, REAL):
                return A.num(T, rng.choice([0, 1, 2, 3] + ([-1, -2] if T != NAT else []) + ([Fraction(1, 2)] if T == REAL else [])))
            return self.use(rng.choice(FREE[T]))
        if T == TA:
            return self.term(T, 0, bd)
        ops = ['plus', 'plus', 'minus', 'minus', 'ctimes', 'IF', 'maxmin']
        if T == NAT:
            ops += ['h', 'g']
        if T in (INT, REAL):
            ops += ['uminus', 'abs']
        if T == REAL:
            ops += ['of_nat', 'divide', 'divide']
        op = rng.choice(ops)
        t = lambda d=depth - 1: self.term(T, d, bd)
        if op in ('plus', 'minus'):
            return A.binop(op, T, t(), t())
        if op == 'ctimes':
            return A.binop('times', T, A.num(T, rng.choice([2, 3] + ([-1, -2] if T != NAT else []))), t())
        if op == 'IF':
            return app(c('IF', S.funs(B, T, T, T)), self.atom(depth - 1, bd), t(), t())
        if op == 'maxmin':
            return app(c(rng.choice(['max', 'min']), S.funs(T, T, T)), t(), t())
        if op == 'uminus':
            return app(c('uminus', S.fun(T, T)), t())
        if op == 'abs':
            return app(c('abs', S.fun(T, T)), t())
        if op == 'of_nat':
            return app(c('of_nat', S.fun(NAT, REAL)), self.term(NAT, depth - 1, bd))
        if op == 'divide':
            d = A.num(REAL, rng.choice([0, 2, 3, -2])) if rng.random() < 0.6 else t()
            return A.binop('real_divide', REAL, t(), d)
        if op == 'h':
            return app(self.use(NFUN), self.term(NAT, depth - 1, bd))
        if op == 'g':
            return app(self.use(AFUN), self.term(TA, 0, bd))
        raise AssertionError

    def atom(self, depth, bd):
        rng = self.rng
        r = rng.random()
        if r < 0.1:
            bs = [('bound', k) for k, bT in enumerate(bd) if bT == B]
            return rng.choice(bs) if bs and rng.random() < 0.5 else self.use(rng.choice(FREE[B]))
        if r < 0.2:
            return app(self.use(PRED), self.term(TA, 0, bd))
        if r < 0.28:
            return A.rel('equals', TA, self.term(TA, 0, bd), self.term(TA, 0, bd))
        if r < 0.32:
            # equality between FUNCTIONS (two function variables, possibly the same one): true in some
            # interpretations and false in others - a translation that compares the declarations gets a constant
            FT, a1, a2 = rng.choice([(S.fun(NAT, NAT), NFUN, ('var', 'h2', S.fun(NAT, NAT))), (S.fun(TA, B), PRED, ('var', 'P2', S.fun(TA, B))),
                                     (S.fun(TA, NAT), AFUN, ('var', 'g2', S.fun(TA, NAT)))])
            l_, r_ = rng.choice([(a1, a2), (a1, a2), (a2, a1), (a1, a1)])
            return A.rel('equals', FT, self.use(l_), self.use(r_))
        T = rng.choice([NAT, NAT, NAT, INT, REAL])
        relname = rng.choice(['equals', 'less', 'less_eq', 'greater', 'greater_eq'])
        return A.rel(relname, T, self.term(T, max(depth, 1), bd), self.term(T, max(depth, 0), bd))

    def formula(self, depth, bd, qdepth=2):
        rng = self.rng
        if depth <= 0:
            return self.atom(1, bd)
        r = rng.random()
        if r < 0.15:
            return self.atom(2, bd)
        if r < 0.25:
            return neg(self.formula(depth - 1, bd, qdepth))
        if r < 0.55:
            return conn(rng.choice(['conj', 'disj', 'implies', 'implies']), self.formula(depth - 1, bd, qdepth), self.formula(depth - 1, bd, qdepth))
        if r < 0.6:
            return A.rel('equals', B, self.formula(depth - 1, bd, qdepth), self.formula(depth - 1, bd, qdepth))
        if qdepth > 0:
            T = rng.choice([NAT, NAT, NAT, INT, REAL, B, TA])
            q = rng.choice(['all', 'exists'])
            return quant(q, rng.choice(['k', 'u', 'v', 'n']), T, self.formula(depth - 1, (T,) + bd, qdepth - 1))
        return self.atom(2, bd)


def z3_templates(rng):
    """shapes known to be risky"""
    k = ('bound', 0)
    n, m = FREE[NAT]
    x, y = FREE[REAL]
    z = lambda T: A.num(T, 0)
    pool = [
        conn('implies', quant('all', 'k', NAT, A.rel('greater_eq', NAT, k, z(NAT))), c('false', B)),
        quant('exists', 'k', NAT, A.rel('less', NAT, k, z(NAT))),
        quant('exists', 'k', NAT, A.rel('equals', NAT, A.binop('plus', NAT, k, A.num(NAT, 1)), z(NAT))),
        neg(quant('all', 'k', NAT, A.rel('less_eq', NAT, A.binop('minus', NAT, k, A.num(NAT, 1)), k))),
        quant('exists', 'k', NAT, A.rel('less', NAT, k, n)),
        conn('implies', quant('all', 'k', NAT, A.rel('greater', NAT, A.binop('plus', NAT, k, n), A.num(NAT, 0))), A.rel('greater', NAT, n, z(NAT))),
        A.rel('equals', NAT, A.binop('plus', NAT, A.binop('minus', NAT, n, m), m), n),
        A.rel('greater_eq', NAT, A.binop('minus', NAT, n, m), z(NAT)),
        A.rel('equals', REAL, A.binop('times', REAL, A.binop('real_divide', REAL, x, y), y), x),
        A.rel('equals', REAL, A.binop('real_divide', REAL, x, z(REAL)), z(REAL)),
        A.rel('greater_eq', REAL, app(c('of_nat', S.fun(NAT, REAL)), n), z(REAL)),
        A.rel('greater_eq', NAT, app(NFUN, n), z(NAT)),
        quant('all', 'k', NAT, A.rel('greater_eq', NAT, k, z(NAT))),
        quant('all', 'k', INT, quant('exists', 'u', INT, A.rel('less', INT, ('bound', 0), ('bound', 1)))),
        quant('all', 'k', NAT, quant('exists', 'u', NAT, A.rel('less', NAT, ('bound', 0), ('bound', 1)))),
        conn('implies', A.rel('less', NAT, n, m), quant('exists', 'k', NAT, A.rel('equals', NAT, A.binop('plus', NAT, n, k), m))),
        conn('implies', A.rel('less', INT, FREE[INT][0], FREE[INT][1]), quant('exists', 'k', NAT, A.rel('less', NAT, k, A.num(NAT, 0)))),
    ]
    if rng.random() < 0.4:
        return name_clash_template(rng)
    if rng.random() < 0.15:
        return constructed_template(rng)
    if rng.random() < 0.2:
        return binder_before_variable_template(rng)
    if rng.random() < 0.25:
        return true_lemma_clash_template(rng)
    return rng.choice(pool)


CONSTRUCTED = {}


def constructed_template(rng):
    """goals whose hypotheses are true BY CONSTRUCTION for a function the bounded evaluator cannot certify
    (g := of_nat on all naturals) and whose conclusion is false: a counter-model known by construction"""
    g = ('var', 'gr', S.fun(NAT, REAL))
    on = lambda t: app(c('of_nat', S.fun(NAT, REAL)), t)
    k = rng.choice([1, 2, 3])
    h1 = quant('all', rng.choice(['n', 'k']), NAT, A.rel('equals', REAL, app(g, ('bound', 0)), on(('bound', 0))))
    h2 = A.rel('equals', REAL, app(g, A.num(NAT, 0)), A.num(REAL, 0))
    h3 = A.rel('equals', REAL, app(g, A.num(NAT, k)), A.num(REAL, k))
    goal = conn('implies', h1, conn('implies', h2, conn('implies', h3, c('false', B))))
    CONSTRUCTED[goal] = {'env': {'gr': 'the embedding of nat into real (gr n = of_nat n for every n)'}, 'by_construction': True}
    return goal


def binder_before_variable_template(rng):
    """quantifier bodies in which an INNER binder comes before the only occurrences of the quantified variable
    ((!y. P y) & Q x under ?x): a normaliser that decides 'the bound variable does not occur' with a depth counter it
    never restores drops the quantifier, and two existential premises then share one witness.
    Invalid by construction: Q and R hold of different elements."""
    T = rng.choice([TA, TA, NAT])
    Pv, Qv, Rv = [('var', nm, S.fun(T, B)) for nm in ('P', 'Q4', 'R4')]
    b0 = ('bound', 0)
    inner = lambda: rng.choice([quant('all', 'y', T, app(Pv, ('bound', 0))), quant('exists', 'y', T, app(Pv, ('bound', 0))),
                                quant('all', 'y', T, conn('implies', app(Pv, ('bound', 0)), app(Pv, ('bound', 0))))])
    mk = lambda Xv: quant('exists', rng.choice(['x', 'k', 'u']), T, conn('conj', inner(), app(Xv, b0)))
    concl = quant('exists', 'x', T, conn('conj', app(Qv, b0), app(Rv, b0)))
    prem = conn('conj', mk(Qv), mk(Rv))
    if rng.random() < 0.4:
        goal = conn('implies', mk(Qv), conn('implies', mk(Rv), concl))
    else:
        goal = conn('implies', prem, concl)
    CONSTRUCTED[goal] = {'env': {'P': 'everywhere true', 'Q4': 'true of element 0 only', 'R4': 'true of element 1 only'},
                         'tv_size': 2, 'by_construction': True}
    return goal


def true_lemma_clash_template(rng):
    """a TRUE lemma about of_nat under a nat quantifier, used as a premise, whose bound name is also a free variable of
    the goal (so the binder has to be renamed), with a conclusion that is false for n = 1 (or outright false):
    invalid by construction.  A translation that loses track of the renamed binder turns the lemma into nonsense."""
    nm = rng.choice(['n', 'm'])
    free = ('var', nm, NAT)
    on = lambda t: app(c('of_nat', S.fun(NAT, REAL)), t)
    k = ('bound', 0)
    lemmas = [A.rel('equals', B, A.rel('less', REAL, on(k), A.num(REAL, 1)), A.rel('equals', NAT, k, A.num(NAT, 0))),
              A.rel('equals', B, A.rel('equals', REAL, on(k), A.num(REAL, 0)), A.rel('equals', NAT, k, A.num(NAT, 0))),
              A.rel('greater_eq', REAL, on(k), A.num(REAL, 0)),
              A.rel('greater', REAL, A.binop('plus', REAL, on(k), A.num(REAL, 1)), A.num(REAL, 0)),
              conn('implies', A.rel('greater', NAT, k, A.num(NAT, 0)), A.rel('greater_eq', REAL, on(k), A.num(REAL, 1)))]
    prem = quant('all', nm, NAT, rng.choice(lemmas))
    concl = rng.choice([A.rel('equals', NAT, free, A.num(NAT, 0)), A.rel('equals', NAT, A.binop('plus', NAT, free, A.num(NAT, 1)), A.num(NAT, 1)),
                        A.rel('equals', REAL, A.num(REAL, 1), A.num(REAL, 0)), A.rel('less', REAL, on(free), A.num(REAL, 1))])
    goal = conn('implies', prem, concl)
    if rng.random() < 0.3:
        goal = conn('implies', A.rel('greater_eq', NAT, free, A.num(NAT, 0)), goal)
    CONSTRUCTED[goal] = {'env': {nm: '1'}, 'by_construction': True, 'note': 'the premise is a true statement about all naturals'}
    return goal


def name_clash_template(rng):
    """the translation keys its side tables (nat >= 0 facts, real shadows of of_nat arguments) by variable NAME:
    closed goals in which an outer variable, an inner binder and a shadow name coincide"""
    nm = rng.choice(['n', 'k', 'x', 'm'])
    oT = rng.choice([INT, REAL])
    z = A.num(oT, 0)
    kind = rng.random()
    if kind < 0.5:
        # !nm::oT. (Q nm::nat. body) --> nm >= 0      (false for negative outer values)
        inner_body = rng.choice([A.rel('equals', NAT, ('bound', 0), ('bound', 0)),
                                 A.rel('greater_eq', NAT, A.binop('plus', NAT, ('bound', 0), A.num(NAT, 1)), A.num(NAT, 1)),
                                 A.rel('equals', NAT, app(NFUN, ('bound', 0)), app(NFUN, ('bound', 0)))])
        inner = quant(rng.choice(['all', 'exists']), nm, NAT, inner_body)
        concl = A.rel(rng.choice(['greater_eq', 'greater']), oT, ('bound', 0), z if rng.random() < 0.7 else A.num(oT, -1))
        body = conn('implies', inner, concl) if rng.random() < 0.7 else conn('disj', neg(inner), concl)
        return quant('all', nm, oT, body)
    if kind < 0.8:
        # shadow name r<nm> of (of_nat nm) coincides with an outer real variable
        rn = 'r' + nm
        eq = A.rel(rng.choice(['equals', 'less_eq']), REAL, app(c('of_nat', S.fun(NAT, REAL)), ('bound', 0)), ('bound', 1))
        return quant('all', rn, REAL, quant('all', nm, NAT, eq))
    # same name for nested binders of different types
    inner = quant('all', nm, NAT, A.rel('greater_eq', NAT, ('bound', 0), A.num(NAT, 0)))
    return quant('all', nm, INT, conn('conj', inner, A.rel('greater_eq', INT, ('bound', 0), A.num(INT, 0))))


ORACLE = [None]


def close_over(rng, goal):
    """universally quantify some free first-order variables at the top, keeping names that clash with inner binders
    (inner binder names are drawn from k/u/v/n, free names from n/m/i/j/x/y/a/b): !n. ... (?n. ...) ..."""
    ats = [a for a in S.atoms(goal) if a[2] in (NAT, INT, REAL, B, TA)]
    rng.shuffle(ats)
    for a in ats[:rng.choice([1, 2, 3])]:
        nm = a[1] if rng.random() < 0.5 else rng.choice(['k', 'u', 'v', 'n'])
        goal = quant('all', nm, a[2], S.abstract(goal, a))
    return goal


def random_env(rng, atoms_):
    env = {}
    size = rng.choice([1, 2, 2])
    m = hol3.Model({'a': size}, oracle=ORACLE[0])
    for a in atoms_:
        T = a[2]
        if T == B:
            env[a] = rng.random() < 0.5
        elif T == NAT:
            env[a] = Fraction(rng.choice([0, 0, 1, 2, 3, 5]))
        elif T == INT:
            env[a] = Fraction(rng.choice([0, 1, -1, 2, -3, 4]))
        elif T == REAL:
            env[a] = rng.choice([Fraction(0), Fraction(1), Fraction(-1), Fraction(1, 2), Fraction(-3, 2), Fraction(2), Fraction(5)])
        elif T == TA:
            env[a] = rng.randrange(size)
        elif T == S.fun(TA, B):
            env[a] = {d: rng.random() < 0.5 for d in range(size)}
        elif T == S.fun(NAT, NAT):
            env[a] = {Fraction(d): Fraction(rng.choice([0, 1, 2, 7])) for d in range(0, 40)}
        elif T == S.fun(TA, NAT):
            env[a] = {d: Fraction(rng.choice([0, 1, 3])) for d in range(size)}
        else:
            return None, None
    return env, m


def find_countermodel(rng, goal, tries=30):
    ats = S.atoms(goal)
    for _ in range(tries):
        env, m = random_env(rng, ats)
        if env is None:
            return None
        v = hol3.evb(goal, env, (), m)
        if v is False:
            return {'env': {S.tm_str(a): (str(x) if not isinstance(x, dict) else {str(k): str(w) for k, w in list(x.items())[:8]})
                            for a, x in env.items()}, 'tv_size': m.tv['a']}
    return None


def has_nat_binder(s):
    if s[0] == 'abs':
        return s[2] == NAT or has_nat_binder(s[3])
    if s[0] == 'comb':
        return has_nat_binder(s[1]) or has_nat_binder(s[2])
    return False


def mentions(s, names):
    if s[0] == 'const':
        return s[1] in names
    if s[0] == 'comb':
        return mentions(s[1], names) or mentions(s[2], names)
    if s[0] == 'abs':
        return mentions(s[3], names)
    return False


def classify_z3(goal):
    if goal in CONSTRUCTED:
        return 'z3:of_nat-of-quantified-variable-becomes-a-global-constant'
    if has_nat_binder(goal):
        return 'z3:quantifier-over-nat-not-relativised'
    ats = S.atoms(goal)
    if NFUN in ats or AFUN in ats:
        return 'z3:nat-valued-function'
    if mentions(goal, ('of_nat',)):
        return 'z3:of_nat'
    if mentions(goal, ('minus',)):
        return 'z3:subtraction'
    if mentions(goal, ('real_divide',)):
        return 'z3:division'
    return 'z3:other'


def one_step(rule, goal_t, prem_t=None):
    from kernel.proof import Proof, ProofItem
    prf = Proof()
    if prem_t is not None:
        prf.items.append(ProofItem(0, 'assume', args=prem_t))
        prf.items.append(ProofItem(1, rule, args=goal_t, prevs=[0]))
    else:
        prf.items.append(ProofItem(0, rule, args=goal_t))
    return prf


def run_z3_case(ctx, rng, goal, origin):
    from kernel import theory
    cm = find_countermodel(rng, goal)
    if cm is None and goal in CONSTRUCTED:
        cm = CONSTRUCTED[goal]
        ctx.count('z3_countermodels_by_construction')
    if cm is not None:
        ctx.count('z3_countermodels_found')
    elif rng.random() > 0.3:
        ctx.count('z3_skipped_no_countermodel')
        return
    if cm is not None and origin != 'replay' and rng.random() < 0.3:
        # W-HIST: a call that fails INSIDE the translation after its premises were handed to the solver (a curried
        # function applied to one argument makes the z3 library raise), with the coming goal as its premise; what
        # that call left behind must not help the next one
        NAT = S.NAT
        gf = ('var', 'vfg', S.funs(NAT, NAT, NAT))
        # (a predicate applied to a partially applied function: an equation between the two partial applications
        # would be refused by the wrapper itself before the library is reached)
        setN = ('tc', 'set', (NAT,))
        poison = conn('implies', goal, app(c('member', S.funs(NAT, setN, B)), ('var', 'vfb', NAT),
                                           ('comb', ('var', 'vfs', S.fun(NAT, setN)), ('var', 'vfa', NAT))))
        try:
            theory.thy.check_proof(one_step('z3', S.to_repo_term(poison)), check_level=0)
            ctx.count('z3_failing_call_accepted')
        except Exception as e:
            ctx.count('z3_failing_call_raised:' + type(e).__name__)
        ctx.count('z3_goal_after_failing_call')
    ctx.count('z3_calls')
    try:
        th = theory.thy.check_proof(one_step('z3', S.to_repo_term(goal)), check_level=0)
    except Exception as e:
        ctx.count('z3_rejected')
        return
    ctx.count('z3_accepted')
    hy, pr = S.thm_shadow(th)
    if cm is not None and not hy and S.aeq(pr, goal):
        ctx.violation(classify_z3(goal), 'z3 step accepted %s which is false for %s' % (S.tm_str(goal), cm),
                      {'solver': 'z3', 'goal': S.jsonable(goal), 'countermodel': cm, 'origin': origin})
    else:
        ctx.count('z3_accepted_unrefuted')


# ------------------------------------------------------------------ SymPy goals
def rfun(n, a):
    return app(c(n, S.fun(REAL, REAL)), a)


def rpow(a, e):
    return app(c('power', S.funs(REAL, REAL, REAL)), a, A.num(REAL, e) if not isinstance(e, tuple) else e)


def npow(a, k):
    return app(c('power', S.funs(REAL, NAT, REAL)), a, A.num(NAT, k))


def sympy_goal(rng):
    x, y = ('var', 'x', REAL), ('var', 'y', REAL)
    N = lambda v: A.num(REAL, v)
    bo = lambda op, a, b: A.binop(op, REAL, a, b)
    eq = lambda a, b: A.rel('equals', REAL, a, b)
    r = rng.random()
    if rng.random() < 0.08:
        # constant goals at type nat (truncated subtraction) and int: the solver's arithmetic is real arithmetic
        T = rng.choice([NAT, NAT, INT])
        n_ = lambda v: A.num(T, v)
        a_, b_, c_ = rng.randrange(0, 5), rng.randrange(0, 7), rng.randrange(0, 4)
        lhs = A.binop('minus', T, n_(a_), n_(b_))
        if rng.random() < 0.5:
            lhs = A.binop('plus', T, lhs, n_(c_))
        relname = rng.choice(['less', 'less_eq', 'greater', 'greater_eq', 'equals'])
        rhs = n_(rng.choice([0, 0, 1, a_ - b_ + c_ if T == INT else max(0, c_)]))
        g_ = A.rel(relname, T, lhs, rhs)
        return (neg(g_) if relname == 'equals' and rng.random() < 0.5 else g_), None
    if r < 0.3:
        # equalities with partial-function traps and honest identities
        pool = [eq(bo('real_divide', x, x), N(1)), eq(bo('times', x, bo('real_divide', N(1), x)), N(1)),
                eq(npow(rpow(x, Fraction(1, 2)), 2), x), eq(bo('times', rpow(x, -1), x), N(1)),
                eq(bo('times', rfun('sqrt', N(-4)), rfun('sqrt', N(-4))), N(-4)),
                eq(npow(rfun('sqrt', x), 2), x), eq(rfun('exp', rfun('log', x)), x),
                eq(bo('real_divide', bo('times', x, y), y), x), eq(bo('real_divide', npow(x, 2), x), x),
                eq(bo('plus', x, y), bo('plus', y, x)), eq(bo('times', N(2), x), bo('plus', x, x)),
                eq(bo('minus', bo('real_divide', N(1), N(0)), bo('real_divide', N(1), N(0))), N(0)),
                eq(bo('times', N(0), bo('real_divide', N(1), x)), N(0)),
                eq(rpow(rpow(x, 2), Fraction(1, 2)), x), eq(rpow(x, 0), N(1)),
                eq(bo('real_divide', bo('minus', npow(x, 2), N(1)), bo('minus', x, N(1))), bo('plus', x, N(1))),
                eq(rfun('sqrt', npow(x, 2)), x), eq(rfun('abs', x), x),
                eq(bo('times', rfun('sqrt', N(2)), rfun('sqrt', N(2))), N(2)),
                eq(bo('plus', N(Fraction(1, 3)), N(Fraction(2, 3))), N(1))]
        return rng.choice(pool), None
    if r < 0.55:
        # disequalities
        e1 = npow(bo('plus', x, N(1)), 2)
        e2 = bo('plus', bo('plus', npow(x, 2), bo('times', N(2), x)), N(1))
        pool = [(x, y), (e1, e2), (bo('plus', x, y), bo('plus', y, x)), (N(1), N(2)), (rfun('sqrt', N(2)), N(1)),
                (bo('times', N(2), x), bo('plus', x, x)), (bo('times', rfun('sqrt', N(2)), rfun('sqrt', N(2))), N(2)),
                (bo('real_divide', N(1), N(0)), N(0)), (x, N(0)), (npow(x, 2), N(-1)), (rfun('exp', x), N(0)),
                (bo('plus', npow(x, 2), N(1)), N(0)), (bo('minus', x, x), N(0)), (rfun('sin', x), N(2)),
                (bo('real_divide', x, x), N(1)), (N(Fraction(1, 2)), N(Fraction(2, 4)) if False else bo('real_divide', N(2), N(4)))]
        a, b = rng.choice(pool)
        return neg(eq(a, b) if rng.random() < 0.5 else eq(b, a)), None
    if r < 0.7:
        # constant inequalities
        relname = rng.choice(['less', 'less_eq', 'greater', 'greater_eq'])
        consts = [N(0), N(1), N(-1), N(2), rfun('sqrt', N(2)), rfun('sqrt', N(3)), A.c('pi', REAL), rfun('exp', N(1)),
                  bo('real_divide', N(1), N(0)), rpow(N(-8), Fraction(1, 3)), rfun('sqrt', N(-4)), rpow(N(2), Fraction(1, 2)),
                  bo('real_divide', A.c('pi', REAL), N(2)), rfun('sin', A.c('pi', REAL)), rfun('log', N(2)), rpow(N(0), -1)]
        return A.rel(relname, REAL, rng.choice(consts), rng.choice(consts)), None
    # interval premise
    lo, hi = rng.choice([(0, 1), (-1, 1), (0, 2), (-2, 0), (1, 3), (-1, 0)])
    kind = rng.choice(['real_closed_interval', 'real_open_interval'])
    setT = ('tc', 'set', (REAL,))
    prem = app(c('member', S.funs(REAL, setT, B)), x, app(c(kind, S.funs(REAL, REAL, setT)), N(lo), N(hi)))
    relname = rng.choice(['less', 'less_eq', 'greater', 'greater_eq'])
    bodies = [bo('minus', N(1), npow(x, 2)), bo('real_divide', x, x), bo('times', x, bo('real_divide', N(1), x)),
              bo('real_divide', N(1), x), npow(x, 2), bo('minus', N(2), npow(x, 2)), bo('plus', x, N(1)), rfun('sqrt', x),
              bo('real_divide', N(1), bo('minus', x, N(1))), rfun('abs', x), bo('minus', rfun('exp', x), N(1)),
              bo('real_divide', npow(x, 2), x), rpow(x, Fraction(1, 2)), bo('times', rfun('sqrt', N(2)), rfun('cos', x)),
              bo('minus', x, npow(x, 2)), rfun('sin', x), rfun('log', bo('plus', x, N(2))),
              bo('times', x, bo('minus', N(1), x)), x, bo('minus', x, N(1)), bo('times', bo('plus', x, N(1)), bo('minus', x, N(1))),
              bo('times', x, bo('plus', x, N(2))), bo('minus', npow(x, 2), N(4))]
    goal = A.rel(relname, REAL, rng.choice(bodies), N(rng.choice([0, 0, 1, -1, Fraction(1, 2)])))
    if rng.random() < 0.3:
        goal = neg(eq(rng.choice(bodies), N(rng.choice([0, 0, 1]))))
    if rng.random() < 0.15:
        # the goal speaks (also) about ANOTHER variable, which the premise does not bound
        other = [neg(eq(y, N(rng.choice([0, 1, 2])))), A.rel(relname, REAL, y, N(rng.choice([0, 2, -1]))),
                 A.rel(relname, REAL, bo('plus', x, y), N(0)), neg(eq(bo('times', x, y), N(1))),
                 A.rel(relname, REAL, bo('minus', npow(y, 2), x), N(-2))]
        goal = rng.choice(other)
    return goal, (prem, kind, lo, hi)


def classify_sympy(goal, prem=None):
    if prem and any(a[1] != 'x' for a in S.atoms(goal)):
        return 'sympy:goal-about-a-variable-the-premise-does-not-bound'
    h0, a0 = S.strip_comb(goal)
    if h0[0] == 'const' and h0[1] == 'neg' and len(a0) == 1:
        h0, a0 = S.strip_comb(a0[0])
    try:
        if len(a0) == 2 and S.typeof(a0[0]) in (NAT, INT):
            return 'sympy:nat-or-int-goal-decided-with-real-arithmetic'
    except S.ShadowError:
        pass
    if mentions(goal, ('real_divide', 'real_inverse', 'log', 'sqrt', 'power')):
        return 'sympy:partial-function-simplified-as-in-complex-analysis'
    h, args = S.strip_comb(goal)
    if h[0] == 'const' and h[1] == 'neg':
        return 'sympy:disequality-decided-syntactically'
    return 'sympy:other'


def run_sympy_case(ctx, rng, goal, prem):
    from kernel import theory
    ctx.count('sympy_calls')
    prem_t = S.to_repo_term(prem[0]) if prem else None
    try:
        th = theory.thy.check_proof(one_step('sympy', S.to_repo_term(goal), prem_t), check_level=0)
    except Exception as e:
        ctx.count('sympy_rejected')
        return
    ctx.count('sympy_accepted')
    x, y = ('var', 'x', REAL), ('var', 'y', REAL)
    pts = []
    if prem:
        _, kind, lo, hi = prem
        cand = [Fraction(lo), Fraction(hi), Fraction(lo + hi, 2), Fraction(0), Fraction(1), Fraction(3 * lo + hi, 4), Fraction(1, 3)]
        for v in cand:
            ok = (lo <= v <= hi) if kind == 'real_closed_interval' else (lo < v < hi)
            if ok:
                # the premise bounds x only: any other variable of the goal ranges over all reals
                for vy in (Fraction(0), Fraction(1), Fraction(-2), Fraction(1, 2), Fraction(3)):
                    pts.append({x: v, y: vy})
    else:
        vals = [Fraction(0), Fraction(1), Fraction(-1), Fraction(2), Fraction(-2), Fraction(1, 2), Fraction(-3, 2), Fraction(5)]
        for _ in range(14):
            pts.append({x: rng.choice(vals), y: rng.choice(vals)})
        pts.append({x: Fraction(0), y: Fraction(0)})
        pts.append({x: Fraction(-1), y: Fraction(0)})
    unknown = 0
    for env in pts:
        v = A.truth(goal, env)
        if v is False:
            ctx.violation(classify_sympy(goal, prem), 'sympy step accepted %s%s which is false at %s' % (
                S.tm_str(goal), (' under ' + S.tm_str(prem[0])) if prem else '', {a[1]: str(q) for a, q in env.items()}),
                {'solver': 'sympy', 'goal': S.jsonable(goal), 'prem': S.jsonable(prem[0]) if prem else None,
                 'prem_info': list(prem[1:]) if prem else None, 'point': {a[1]: str(q) for a, q in env.items()}})
            return
        if v is None:
            unknown += 1
    ctx.count('sympy_accepted_unrefuted')
    if unknown:
        ctx.count('sympy_points_unknown', unknown)


def memo_differential(ctx, goal, prem):
    """acceptance with the process-wide solveset memo as found must equal acceptance with an empty memo"""
    from kernel import theory
    from prover import sympywrapper

    def accepted():
        try:
            theory.thy.check_proof(one_step('sympy', S.to_repo_term(goal), S.to_repo_term(prem[0])), check_level=0)
            return True
        except Exception:
            return False
    warm = accepted()
    saved = sympywrapper.solveset_cache
    sympywrapper.solveset_cache = dict()
    try:
        cold = accepted()
    finally:
        sympywrapper.solveset_cache = saved
    ctx.count('sympy_memo_differentials')
    if warm != cold:
        ctx.violation('history:sympy-solveset-memo-changes-the-answer', 'goal %s under %s is %s with the memo left by earlier queries and %s with an empty memo' % (
            S.tm_str(goal), S.tm_str(prem[0]), 'accepted' if warm else 'rejected', 'accepted' if cold else 'rejected'),
            {'solver': 'sympy', 'goal': S.jsonable(goal), 'prem': S.jsonable(prem[0]), 'prem_info': list(prem[1:]), 'history': 'same goal on the interval of the other openness first'})


def setup():
    import warnings
    warnings.simplefilter('ignore')
    from logic import basic
    basic.load_theory('real')
    from prover import z3wrapper, sympywrapper   # noqa
    import z3
    z3.set_param('timeout', 3000)
    from vf import core
    core.freeze()
    ORACLE[0] = hol3.Z3Oracle()
    return z3wrapper


def run_shard(ctx, spec):
    z3w = setup()
    if z3w.check_z3 is True and z3w.z3_loaded:
        ctx.count('check_z3_flag_true')
    rng = ctx.rng
    if 'replay' in spec:
        w = spec['replay']['witness']
        goal = S.from_json(w['goal'])
        if w['solver'] == 'z3':
            run_z3_case(ctx, rng, goal, 'replay')
        else:
            prem = None
            if w.get('prem'):
                prem = (S.from_json(w['prem']),) + tuple(w['prem_info'])
            run_sympy_case(ctx, rng, goal, prem)
        ctx.case('replay', sample=S.tm_str(goal))
        return
    if spec['kind'] == 'z3':
        for k in range(spec['count']):
            if k == spec['count'] - 1:
                ctx.count('oracle_calls', ORACLE[0].calls)
                ctx.count('oracle_decided', ORACLE[0].decided)
            if rng.random() < 0.15:
                goal, origin = z3_templates(rng), 'template'
            else:
                g = Z3Gen(rng)
                goal, origin = g.formula(rng.choice([1, 2, 2, 3]), ()), 'random'
                if rng.random() < 0.35:
                    goal, origin = close_over(rng, goal), 'random-closed'
            run_z3_case(ctx, rng, goal, origin)
            ctx.case(('z3', goal), nontrivial=S.size(goal) >= 7,
                     sample={'solver': 'z3', 'goal': S.tm_str(goal)} if k < 2 and spec['i'] == 0 else None)
    else:
        for k in range(spec['count']):
            goal, prem = sympy_goal(rng)
            run_sympy_case(ctx, rng, goal, prem)
            if prem is not None:
                # W-HIST: the same goal on the interval with the same end points but the other openness, in both
                # orders, and a differential against an empty solveset memo
                other = 'real_open_interval' if prem[1] == 'real_closed_interval' else 'real_closed_interval'
                x = ('var', 'x', REAL)
                setT = ('tc', 'set', (REAL,))
                prem2 = (app(c('member', S.funs(REAL, setT, B)), x, app(c(other, S.funs(REAL, REAL, setT)), A.num(REAL, prem[2]), A.num(REAL, prem[3]))),
                         other, prem[2], prem[3])
                run_sympy_case(ctx, rng, goal, prem2)
                run_sympy_case(ctx, rng, goal, prem)
                memo_differential(ctx, goal, prem)
                memo_differential(ctx, goal, prem2)
            ctx.case(('sympy', goal, prem[0] if prem else None), nontrivial=S.size(goal) >= 7,
                     sample={'solver': 'sympy', 'goal': S.tm_str(goal)} if k < 2 and spec['i'] == 0 else None)
