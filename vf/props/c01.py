"""C01 - every sequent accepted from primitive inferences is valid.

Monitor: theory.check_proof(Proof, no_gaps=True) on generated adversarial scripts of
primitive-rule steps over logic_base; every accepted item's sequent is judged by the
independent type checker and the finite-standard-model evaluator (vf.holmodel).
"""
import json
from vf import shadow as S, holmodel as H, gen as G
from vf.core import h64

ID = 'C01'
LEVEL = 'exploration'
RULE = ('case = one generated proof script (<= 14 primitive-rule steps over logic_base, arguments '
        'biased to be applicable and adversarial) sent through theory.check_proof(no_gaps=True); '
        'distinct = hash of (rules, accepted sequents); non-trivial = accepted, >= 3 steps, at least '
        'one rule other than assume/theorem/reflexive')
ASSUMPTIONS = ['finite standard models with type-variable domains of size <= 3, function spaces <= 256 elements',
               'Some/The interpreted by one fixed choice function satisfying some_AX / the_equality',
               '_VAR interpreted as the constantly true predicate',
               'evaluator calibrated at start-up: every theorem of logic_base must be valid in it']
REQUIRED = {'quick': {'nested_scripts': 100, 'nested_accepted': 20, 'scripts_accepted': 300, 'sequents_judged': 1500, 'rules_all15_seen': 1,
                      'directed_svar_hyp_sequents': 60, 'directed_stv_in_hyp_only': 60, 'directed_stv_substitutions': 150, 'directed_capture_attempts': 60, 'directed_sharing_binders': 100,
                      'open_term_arguments': 40, 'directed_open_compound_attempts': 60, 'open_compound_instances': 100},
            'thorough': {'nested_scripts': 1500, 'nested_accepted': 300, 'scripts_accepted': 5000, 'sequents_judged': 20000, 'rules_all15_seen': 1,
                         'directed_svar_hyp_sequents': 600, 'directed_stv_in_hyp_only': 600, 'directed_stv_substitutions': 1500, 'directed_capture_attempts': 600, 'directed_sharing_binders': 1000,
                         'open_term_arguments': 400, 'directed_open_compound_attempts': 600, 'open_compound_instances': 1000}}

RULES = ['assume', 'implies_intr', 'implies_elim', 'reflexive', 'symmetric', 'transitive',
         'combination', 'equal_intr', 'equal_elim', 'subst_type', 'substitution', 'beta_conv',
         'abstraction', 'forall_intr', 'forall_elim']
BASE_THMS = ['conjI', 'conjD1', 'conjD2', 'disjI1', 'disjI2', 'disjE', 'negI', 'negE', 'trueI', 'falseE',
             'exI', 'eta_conversion', 'exE', 'classical', 'extension', 'if_P', 'if_not_P', 'some_AX',
             'the_equality']


def shards(tier, seed):
    n = 16 if tier == 'quick' else 64
    per = 60 if tier == 'quick' else 1600
    return [{'i': i, 'scripts': per} for i in range(n)]


# ----------------------------------------------------------------- helpers on shadows
def head_is(s, name, nargs):
    h, args = S.strip_comb(s)
    return h[0] == 'const' and h[1] == name and len(args) == nargs


def args_of(s):
    return S.strip_comb(s)[1]


# ----------------------------------------------------------------- serialisation of rule arguments
def ser_arg(rule, a):
    from kernel.term import Term, Inst
    from kernel.type import TyInst
    if a is None:
        return None
    if isinstance(a, Term):
        return {'term': S.jsonable(S.tm_shadow(a))}
    if isinstance(a, Inst):
        return {'inst': {k: S.jsonable(S.tm_shadow(v)) for k, v in a.items()},
                'var_inst': {k: S.jsonable(S.tm_shadow(v)) for k, v in a.var_inst.items()},
                'tyinst': {k: S.jsonable(S.ty_shadow(v)) for k, v in a.tyinst.items()},
                'abs_name_inst': dict(a.abs_name_inst)}
    if isinstance(a, TyInst):
        return {'tyinst': {k: S.jsonable(S.ty_shadow(v)) for k, v in a.items()}}
    if isinstance(a, str):
        return {'str': a}
    raise TypeError(a)


def deser_arg(d):
    from kernel.term import Inst
    from kernel.type import TyInst
    if d is None:
        return None
    if 'term' in d:
        return S.to_repo_term(S.from_json(d['term']))
    if 'inst' in d:
        r = Inst()
        for k, v in d['inst'].items():
            r[k] = S.to_repo_term(S.from_json(v))
        for k, v in d['var_inst'].items():
            r.var_inst[k] = S.to_repo_term(S.from_json(v))
        for k, v in d['tyinst'].items():
            r.tyinst[k] = S.to_repo_type(S.from_json(v))
        r.abs_name_inst.update(d['abs_name_inst'])
        return r
    if 'tyinst' in d:
        r = TyInst()
        for k, v in d['tyinst'].items():
            r[k] = S.to_repo_type(S.from_json(v))
        return r
    if 'str' in d:
        return d['str']
    raise TypeError(d)


def build_proof(steps):
    from kernel.proof import Proof, ProofItem
    prf = Proof()
    for i, st in enumerate(steps):
        prf.items.append(ProofItem(i, st['rule'], args=st['args'], prevs=list(st['prevs'])))
    return prf


# ----------------------------------------------------------------- generation
class ScriptGen:
    def __init__(self, rng, ctx):
        self.rng, self.ctx = rng, ctx
        self.tg = G.TermGen(rng, G.LOGIC_BASE_SIG, G.logic_pool(), p_svar=0.45, p_fresh=0.3,
                            p_redex=0.12, type_clash=True)
        self.steps = []     # dict(rule,args,prevs)
        self.ths = []       # live theorem objects (from the real rule functions)
        self.shs = []       # (hyps, prop) shadows

    def term(self, T, depth=None):
        d = self.rng.choice([1, 2, 2, 3]) if depth is None else depth
        if self.rng.random() < 0.04:
            # adversarial argument: an OPEN term (a loose de Bruijn index, alone or inside a generated term)
            self.ctx.count('open_term_arguments')
            k = self.rng.choice([0, 0, 1])
            r = self.rng.random()
            if r < 0.5:
                return S.to_repo_term(('bound', k))
            if r < 0.8:
                A = self.tg.rand_type()
                return S.to_repo_term(('comb', self.tg.gen(S.fun(A, T), 1), ('bound', k)))
            return S.to_repo_term(('abs', self.rng.choice(self.tg.names), self.tg.rand_type(), ('bound', k + 1)))
        return S.to_repo_term(self.tg.gen(T, d))

    OPEN_FORMS = ['app', 'app', 'app2', 'nested-app', 'redex-inner-abs', 'arg-inner-abs', 'eq', 'eq-right', 'connective', 'bare']

    def open_instance(self, X, A, j, form=None):
        """shadow of an OPEN term of type X whose loose index j (type A, the type of the binder it would be captured
        by) does not stand alone: under applications (one or two deep, once or twice), inside an inner abstraction
        (where it is index j + 1), as an operand of = or of a connective.  'bare' is the plain loose index"""
        rng = self.rng
        form = form or rng.choice(self.OPEN_FORMS)
        L = ('bound', j)
        B_ = S.BOOL
        if form == 'eq' or form == 'eq-right' or form == 'connective':
            if X != B_ or (form == 'connective' and A != B_):
                form = 'app'
        self.ctx.count('open_compound_instances')
        self.ctx.count('open_form:' + form)
        if form == 'bare':
            return L
        if form == 'app':
            return ('comb', ('var', 'fo', S.fun(A, X)), L)
        if form == 'app2':
            return S.mk_comb(('var', 'fo2', S.funs(A, A, X)), L, rng.choice([L, ('var', 'co', A), ('bound', j + 1)]))
        if form == 'nested-app':
            return ('comb', ('var', 'fo', S.fun(A, X)), ('comb', ('var', 'go', S.fun(A, A)), L))
        if form == 'redex-inner-abs':
            # (%v. fo (Bound j+1)) co : the loose index sits under an abstraction of the instance itself
            return ('comb', ('abs', 'v', A, ('comb', ('var', 'fo', S.fun(A, X)), ('bound', j + 1))), ('var', 'co', A))
        if form == 'arg-inner-abs':
            # Fo (%v. go (Bound j+1)) : loose index inside an abstraction that is itself an argument
            return ('comb', ('var', 'Fo', S.fun(S.fun(A, A), X)),
                    ('abs', 'v', A, ('comb', ('var', 'go', S.fun(A, A)), ('bound', j + 1))))
        EQ = ('const', 'equals', S.funs(A, A, B_))
        if form == 'eq':
            return S.mk_comb(EQ, L, ('var', 'co', A))
        if form == 'eq-right':
            return S.mk_comb(EQ, ('var', 'co', A), L)
        # connective over a boolean loose index
        if rng.random() < 0.5:
            return ('comb', ('const', 'neg', S.fun(B_, B_)), L)
        return S.mk_comb(('const', rng.choice(['conj', 'disj', 'implies']), S.funs(B_, B_, B_)), ('var', 'po', B_), L)

    def directed_open_compound(self):
        """|- (%w. t[x]) a = t[x] by beta_conv (x free or schematic in t, possibly under binders of t itself), wrapped
        in k more binders by abstraction / forall_intr: x now stands under k+1 binders on the left and under k on the
        right.  Then the substitution x := <open term with its loose index in argument position / under an inner
        abstraction>.  The rule must refuse it; if it does not, index j is captured by DIFFERENT binders on the two
        sides (or stays loose on the right) and the accepted sequent is refutable / ill-typed"""
        from kernel.term import Inst
        rng = self.rng
        B_ = S.BOOL
        A = rng.choice([B_, B_, ('tv', 'a'), self.tg.rand_type()])
        X = rng.choice([B_, A, A, self.tg.rand_type()])
        kind = rng.choice(['svar', 'svar', 'var'])
        nx = rng.choice(['xo', 'x', 'uo'])
        x = (kind, nx, X)
        shape = rng.choice(['bare', 'app', 'app', 'inner-abs', 'quant', 'eq'])
        d = 0                       # binders of t itself above x
        if shape == 'bare':
            t = x
        elif shape == 'app':
            R = rng.choice([B_, X, A])
            t = ('comb', ('var', 'ho', S.fun(X, R)), x)
        elif shape == 'eq':
            t = S.mk_comb(('const', 'equals', S.funs(X, X, B_)), x, ('var', 'eo', X))
        elif shape == 'inner-abs':
            t = ('abs', 'z', A, S.mk_comb(('var', 'ho2', S.funs(A, X, B_)), ('bound', 0), x))
            d = 1
        else:
            t = ('comb', ('const', 'all', S.fun(S.fun(A, B_), B_)),
                 ('abs', 'z', A, S.mk_comb(('var', 'ho2', S.funs(A, X, B_)), ('bound', 0), x)))
            d = 1
        k = rng.choice([0, 1, 1, 2, 2, 3])
        ys = [('var', 'yo%d' % i, A if rng.random() < 0.85 else self.tg.rand_type()) for i in range(1, k + 1)]
        a = ('var', 'ao', A)
        if ys and ys[0][2] == A and rng.random() < 0.3:
            a = ys[0]
        b = len(self.shs)
        if not self.add('beta_conv', S.to_repo_term(('comb', ('abs', 'w', A, t), a)), []):
            return False
        try:
            t_is_bool = S.typeof(t) == B_
        except S.ShadowError:
            t_is_bool = False
        quant = False
        for y in ys:
            # abstraction keeps an equation; forall_intr ends the run of abstractions
            if not quant and rng.random() < 0.6:
                rule = 'abstraction'
            else:
                rule, quant = 'forall_intr', True
            if not self.add(rule, S.to_repo_term(y), [len(self.shs) - 1]):
                return False
        # index relative to the position of x: d = innermost binder outside t on the right (w on the left)
        j = d + rng.choice([0, 0, 0, 1, 1, 2])
        if rng.random() < 0.1:
            j = rng.randrange(0, d + 1)
        inst = Inst()
        open_t = S.to_repo_term(self.open_instance(X, A, j))
        if kind == 'svar':
            inst[nx] = open_t
        else:
            inst.var_inst[nx] = open_t
        self.ctx.count('directed_open_compound_attempts')
        self.ctx.count('directed_open_compound:depth=%d' % (k + d))
        ok = self.add('substitution', inst, [len(self.shs) - 1])
        if ok:
            self.ctx.count('directed_open_compound_accepted_by_rule')
        return ok

    def directed_capture(self):
        """|- (!y. y = x) --> (!u v. u = v) for a free (or schematic) x, then the substitution x := <loose bound
        variable>: if the rule accepts the open term it is captured by !y and the result is refutable"""
        from kernel.term import Inst
        rng = self.rng
        T = self.tg.rand_type()
        kind = rng.choice(['var', 'svar'])
        nx, ny, nu, nv = rng.sample(['x', 'y', 'u', 'v', 'w', 'k'], 4)
        x = (kind, nx, T)
        EQ = ('const', 'equals', S.funs(T, T, S.BOOL))
        ALL = ('const', 'all', S.fun(S.fun(T, S.BOOL), S.BOOL))
        Hs = ('comb', ALL, ('abs', ny, T, S.mk_comb(EQ, ('bound', 0), x)))
        H = S.to_repo_term(Hs)
        u, v = S.to_repo_term(('var', nu, T)), S.to_repo_term(('var', nv, T))
        b = len(self.shs)
        seq = [('assume', H, []), ('forall_elim', u, [b]), ('forall_elim', v, [b]), ('symmetric', None, [b + 2]),
               ('transitive', None, [b + 1, b + 3]), ('forall_intr', v, [b + 4]), ('forall_intr', u, [b + 5]),
               ('implies_intr', H, [b + 6])]
        for rule, args, prevs in seq:
            if not self.add(rule, args, prevs):
                return False
        inst = Inst()
        if rng.random() < 0.5:
            open_t = S.to_repo_term(rng.choice([('bound', 0), ('bound', 0), ('bound', 1)]))
        else:
            # compound open instance (loose index in argument position / under an inner abstraction): with fo = the
            # identity the captured hypothesis !y. y = fo y is true and the conclusion !u v. u = v is not
            open_t = S.to_repo_term(self.open_instance(T, T, rng.choice([0, 0, 0, 1])))
            self.ctx.count('directed_capture_compound_attempts')
        if kind == 'svar':
            inst[nx] = open_t
        else:
            inst.var_inst[nx] = open_t
        self.ctx.count('directed_capture_attempts')
        ok = self.add('substitution', inst, [len(self.shs) - 1])
        if ok:
            self.ctx.count('directed_capture_accepted_by_rule')
        return ok

    def directed_sharing(self):
        """the kernel itself puts ONE hypothesis object at two binder depths: A |- A ; forall_intr y (y not in A:
        the same object goes under the new binder) ; implies_intr A (the same object again, outside it) ; then a
        binder over a variable of A is introduced by forall_intr / abstraction, which must index both occurrences
        according to their own depth"""
        rng = self.rng
        T = self.tg.rand_type()
        x = ('var', rng.choice(['x', 'a0', 'm']), T)
        self.tg.ctx.append(x) if hasattr(self.tg, 'ctx') and isinstance(self.tg.ctx, list) else None
        if rng.random() < 0.5:
            P = ('var', rng.choice(['p', 'P', 'q1']), S.fun(T, S.BOOL))
            As = ('comb', P, x)
            if rng.random() < 0.4:
                As = ('comb', P, ('comb', ('abs', 'z', T, ('bound', 0)), x))
        else:
            y0 = ('var', 'c9', T)
            As = S.mk_comb(('const', 'equals', S.funs(T, T, S.BOOL)), x, y0)
        A = S.to_repo_term(As, share={})
        b = len(self.shs)
        yv = S.to_repo_term(('var', rng.choice(['y', 'k7']), self.tg.rand_type()))
        if not self.add('assume', A, []):
            return False
        if not self.add('forall_intr', yv, [b]):
            return False
        # the hypothesis OBJECT of the sequent, as implies_intr gets it from a proof state
        if not self.add('implies_intr', self.ths[b + 1].hyps[0], [b + 1]):
            return False
        self.ctx.count('directed_sharing_sequents')
        ok = self.add('forall_intr', S.to_repo_term(x), [b + 2])
        if ok:
            self.ctx.count('directed_sharing_binders')
        if rng.random() < 0.5:
            # the same through `abstraction` on an equation between two copies of the shared sequent's statement
            self.add('reflexive', self.ths[b + 2].prop, [])
            self.add('abstraction', S.to_repo_term(x), [len(self.shs) - 1])
        return ok

    def directed_stv_in_hyp_only(self):
        """A, H2 |- ?C where A = !x y::?'a. x = y mentions the type variable only, H2 = (?a = ?b --> ?C) is the only
        place where the schematic variables ?a ?b :: ?'a occur, and the conclusion mentions neither: a substitution of
        ?a, ?b at a concrete type must instantiate ?'a in A as well, whatever order the sequent is processed in"""
        from kernel.term import Inst
        rng = self.rng
        a = ('stv', rng.choice(['a', 'b']))
        B_ = S.BOOL
        EQ = ('const', 'equals', S.funs(a, a, B_))
        ALL = ('const', 'all', S.fun(S.fun(a, B_), B_))
        A_ = ('comb', ALL, ('abs', 'x', a, ('comb', ALL, ('abs', 'y', a, S.mk_comb(EQ, ('bound', 1), ('bound', 0))))))
        sa, sb, sc = ('svar', 'a', a), ('svar', 'b', a), ('svar', 'C', B_)
        H2 = S.mk_comb(('const', 'implies', S.funs(B_, B_, B_)), S.mk_comb(EQ, sa, sb), sc)
        b0 = len(self.shs)
        seq = [('assume', S.to_repo_term(A_), []), ('forall_elim', S.to_repo_term(sa), [b0]), ('forall_elim', S.to_repo_term(sb), [b0 + 1]),
               ('assume', S.to_repo_term(H2), []), ('implies_elim', None, [b0 + 3, b0 + 2])]
        for rule, args, prevs in seq:
            if not self.add(rule, args, prevs):
                return False
        last = b0 + 4
        if rng.random() < 0.6:
            # the same sequent with its hypotheses collected in the other order (A first, then H2)
            more = [('implies_intr', S.to_repo_term(H2), [b0 + 4]), ('assume', S.to_repo_term(H2), []), ('implies_elim', None, [b0 + 5, b0 + 6])]
            for rule, args, prevs in more:
                if not self.add(rule, args, prevs):
                    return False
            last = b0 + 7
        T0 = rng.choice([B_, S.fun(B_, B_), self.tg.rand_type()])
        inst = Inst()
        inst['a'] = S.to_repo_term(self.tg.gen(T0, 0))
        inst['b'] = S.to_repo_term(self.tg.gen(T0, 0))
        self.ctx.count('directed_stv_in_hyp_only')
        return self.add('substitution', inst, [last])

    def directed_svar_hyp(self):
        """a hypothesis whose schematic type variable occurs ONLY in the types of schematic term variables (?P ?x),
        then subst_type: hypotheses and conclusion must be instantiated alike"""
        from kernel.type import TyInst
        rng = self.rng
        a = ('stv', rng.choice(['a', 'b']))
        P, x = ('svar', rng.choice(['P', 'Q']), S.fun(a, S.BOOL)), ('svar', rng.choice(['x', 'y']), a)
        H = ('comb', P, x)
        if rng.random() < 0.4:
            f = ('svar', 'f', S.fun(a, a))
            H = ('comb', P, ('comb', f, x))
        b = len(self.shs)
        if not self.add('assume', S.to_repo_term(H), []):
            return False
        if rng.random() < 0.5:
            # a conclusion that also mentions the type variable in a constant (so that the rule has work to do there)
            self.add('reflexive', S.to_repo_term(x), [])
        ti = TyInst()
        ti[a[1]] = S.to_repo_type(self.tg.rand_type())
        self.ctx.count('directed_svar_hyp_sequents')
        return self.add('subst_type', ti, [b])

    def directed_stv(self):
        """a sequent whose hypothesis mentions a schematic type variable but none of the schematic term variables
        of the conclusion (assume !u v. body ; forall_elim twice with schematic variables), and then a substitution
        that fixes the type variable through the instances of those variables only"""
        from kernel.term import Inst
        rng = self.rng
        a = ('stv', rng.choice(['a', 'b']))
        body = self.tg.gen(S.BOOL, rng.choice([1, 2]), (a, a))
        if rng.random() < 0.5:
            body = S.mk_comb(('const', 'equals', S.funs(a, a, S.BOOL)), ('bound', 1), ('bound', 0))
        n1, n2 = rng.sample(self.tg.names, 2)
        ALL = ('const', 'all', S.fun(S.fun(a, S.BOOL), S.BOOL))
        H = ('comb', ALL, ('abs', n1, a, ('comb', ALL, ('abs', n2, a, body))))
        if not self.add('assume', S.to_repo_term(H), []):
            return False
        sv = [('svar', nm, a) for nm in rng.sample(['x', 'z', 'w', 'P1'], 2)]
        for v in sv:
            if not self.add('forall_elim', S.to_repo_term(v), [len(self.shs) - 1]):
                return False
        self.ctx.count('directed_stv_sequents')
        T0 = rng.choice([S.BOOL, S.fun(S.BOOL, S.BOOL), self.tg.rand_type()])
        inst = Inst()
        for v in sv:
            if rng.random() < 0.9:
                inst[v[1]] = S.to_repo_term(self.tg.gen(T0, 1))
        ok = self.add('substitution', inst, [len(self.shs) - 1])
        if ok:
            self.ctx.count('directed_stv_substitutions')
        return ok

    def add(self, rule, args, prevs):
        """run the real rule; keep the step if accepted"""
        from kernel.thm import primitive_deriv
        from kernel import theory
        try:
            if rule == 'theorem':
                th = theory.thy.get_theorem(args)
            else:
                f = primitive_deriv[rule][0]
                pths = [self.ths[i] for i in prevs]
                # trial run on a COPY of the argument: Term.subst completes the type instantiation of the Inst it
                # is given in place, and the checker must see the argument as the script states it
                import copy as _copy
                trial = _copy.copy(args) if type(args).__name__ in ('Inst', 'TyInst') else args
                th = f(*pths) if args is None else f(trial, *pths)
            sh = S.thm_shadow(th)
        except Exception as e:
            self.ctx.count('gen_rej:' + rule)
            return False
        self.steps.append({'rule': rule, 'args': args, 'prevs': list(prevs)})
        self.ths.append(th)
        self.shs.append(sh)
        return True

    def pick(self, pred):
        c = [i for i, sh in enumerate(self.shs) if pred(sh)]
        return self.rng.choice(c) if c else None

    def atoms_of(self, i, hyps_first=False):
        hy, pr = self.shs[i]
        acc = []
        for t in (list(hy) + [pr]) if hyps_first else ([pr] + list(hy)):
            S.atoms(t, ('var', 'svar'), acc)
        return acc

    def oriented_assume(self):
        """an assumption that makes some two-premise rule applicable later"""
        rng = self.rng
        if not self.shs:
            return None
        i = rng.randrange(len(self.shs))
        hy, pr = self.shs[i]
        opts = []
        if head_is(pr, 'implies', 2):
            a, b = args_of(pr)
            opts += [a, S.mk_comb(('const', 'implies', S.funs(S.BOOL, S.BOOL, S.BOOL)), b, a)]
        if head_is(pr, 'equals', 2):
            a, b = args_of(pr)
            try:
                T = S.typeof(b)
                z = self.tg.gen(T, 1)
                opts.append(S.mk_comb(('const', 'equals', S.funs(T, T, S.BOOL)), b, z))
                if T == S.BOOL:
                    opts.append(a)
                U = self.tg.rand_type()
                FT = S.fun(T, U)
                f, g = self.tg.gen(FT, 1), self.tg.gen(FT, 1)
                opts.append(S.mk_comb(('const', 'equals', S.funs(FT, FT, S.BOOL)), f, g))
            except S.ShadowError:
                pass
        if not opts:
            return None
        return S.to_repo_term(rng.choice(opts))

    def step(self):
        rng = self.rng
        rule = rng.choice(RULES + ['theorem', 'assume', 'forall_intr', 'abstraction', 'substitution',
                                   'forall_elim', 'implies_elim', 'implies_intr'])
        n = len(self.shs)
        r0 = rng.random()
        if r0 < 0.04:
            return self.directed_stv()
        if r0 < 0.06:
            return self.directed_capture()
        if r0 < 0.09:
            return self.directed_sharing()
        if r0 < 0.11:
            return self.directed_svar_hyp()
        if r0 < 0.13:
            return self.directed_stv_in_hyp_only()
        if r0 < 0.16:
            return self.directed_open_compound()
        if rule == 'assume':
            t = None
            r = rng.random()
            if r < 0.35:
                t = self.oriented_assume()
            if t is None:
                if r > 0.95:
                    t = self.term(self.tg.rand_type())          # maybe not bool
                elif r > 0.9:
                    t = S.to_repo_term(('comb', ('const', 'neg', S.fun(S.BOOL, S.BOOL)), ('bound', 0)))  # open
                else:
                    shape = rng.choice(['any', 'imp', 'eq', 'all', 'eqf'])
                    if shape == 'imp':
                        a, b = self.tg.gen(S.BOOL, 2), self.tg.gen(S.BOOL, 2)
                        t = S.to_repo_term(S.mk_comb(('const', 'implies', S.funs(S.BOOL, S.BOOL, S.BOOL)), a, b))
                    elif shape in ('eq', 'eqf'):
                        T = self.tg.rand_type()
                        if shape == 'eqf' and not (T[0] == 'tc' and T[1] == 'fun'):
                            T = S.fun(T, self.tg.rand_type())
                        a, b = self.tg.gen(T, 2), self.tg.gen(T, 2)
                        t = S.to_repo_term(S.mk_comb(('const', 'equals', S.funs(T, T, S.BOOL)), a, b))
                    elif shape == 'all':
                        T = self.tg.rand_type()
                        body = self.tg.gen(S.BOOL, 2, (T,))
                        t = S.to_repo_term(('comb', ('const', 'all', S.fun(S.fun(T, S.BOOL), S.BOOL)),
                                            ('abs', rng.choice(self.tg.names), T, body)))
                    else:
                        t = self.term(S.BOOL)
            return self.add('assume', t, [])
        if rule == 'theorem':
            return self.add('theorem', rng.choice(BASE_THMS), [])
        if rule == 'reflexive':
            return self.add('reflexive', self.term(self.tg.rand_type()), [])
        if rule == 'beta_conv':
            A, T = self.tg.rand_type(), self.tg.rand_type()
            body = self.tg.gen(T, 2, (A,))
            arg = self.tg.gen(A, 2) if rng.random() > 0.1 else ('bound', 0)
            return self.add('beta_conv', S.to_repo_term(('comb', ('abs', rng.choice(self.tg.names), A, body), arg)), [])
        if n == 0:
            return False
        if rule == 'implies_intr':
            i = rng.randrange(n)
            hy, pr = self.shs[i]
            if hy and rng.random() < 0.8:
                A = self.ths[i].hyps[rng.randrange(len(hy))]
            else:
                A = self.term(S.BOOL)
            return self.add(rule, A, [i])
        if rule == 'implies_elim':
            cands = []
            al = [S.alpha(sh[1]) for sh in self.shs]
            for i, sh in enumerate(self.shs):
                if head_is(sh[1], 'implies', 2):
                    a = S.alpha(args_of(sh[1])[0])
                    for j in range(n):
                        if al[j] == a:
                            cands.append((i, j))
            if cands and rng.random() < 0.95:
                i, j = rng.choice(cands)
            else:
                i, j = rng.randrange(n), rng.randrange(n)
            return self.add(rule, None, [i, j])
        if rule == 'symmetric':
            i = self.pick(lambda sh: head_is(sh[1], 'equals', 2))
            return self.add(rule, None, [i if i is not None else rng.randrange(n)])
        if rule in ('transitive', 'combination', 'equal_intr', 'equal_elim'):
            cands = []
            for i, shi in enumerate(self.shs):
                for j, shj in enumerate(self.shs):
                    pi, pj = shi[1], shj[1]
                    if rule == 'transitive' and head_is(pi, 'equals', 2) and head_is(pj, 'equals', 2) \
                            and S.aeq(args_of(pi)[1], args_of(pj)[0]):
                        cands.append((i, j))
                    elif rule == 'combination' and head_is(pi, 'equals', 2) and head_is(pj, 'equals', 2):
                        try:
                            Tf = S.typeof(args_of(pi)[0])
                            if Tf[0] == 'tc' and Tf[1] == 'fun' and Tf[2][0] == S.typeof(args_of(pj)[0]):
                                cands.append((i, j))
                        except S.ShadowError:
                            pass
                    elif rule == 'equal_intr' and head_is(pi, 'implies', 2) and head_is(pj, 'implies', 2) \
                            and S.aeq(args_of(pi)[0], args_of(pj)[1]) and S.aeq(args_of(pi)[1], args_of(pj)[0]):
                        cands.append((i, j))
                    elif rule == 'equal_elim' and head_is(pi, 'equals', 2) and S.aeq(args_of(pi)[0], pj):
                        cands.append((i, j))
            if cands and rng.random() < 0.95:
                i, j = rng.choice(cands)
            else:
                i, j = rng.randrange(n), rng.randrange(n)
            return self.add(rule, None, [i, j])
        if rule == 'subst_type':
            from kernel.type import TyInst
            i = rng.randrange(n)
            hy, pr = self.shs[i]
            tvs = []
            for t in list(hy) + [pr]:
                for T in S.term_types(t):
                    S.type_vars(T, tvs)
            ti = TyInst()
            for tv in tvs:
                if tv[0] == 'stv' and rng.random() < 0.8:
                    ti[tv[1]] = S.to_repo_type(self.tg.rand_type())
            if rng.random() < 0.2:
                ti['zz'] = S.to_repo_type(self.tg.rand_type())
            return self.add(rule, ti, [i])
        if rule == 'substitution':
            from kernel.term import Inst
            i = rng.randrange(n)
            inst = Inst()
            for a in self.atoms_of(i):
                if a[0] in ('svar', 'var') and rng.random() < 0.06:
                    # an open instance: captured if the variable stands under a binder and the rule lets it through
                    t_open = S.to_repo_term(('bound', rng.choice([0, 0, 1])))
                    if rng.random() < 0.5:
                        t_open = S.to_repo_term(self.open_instance(a[2], rng.choice([a[2], self.tg.rand_type()]), rng.choice([0, 0, 1])))
                    if a[0] == 'svar' and a[1] not in inst:
                        inst[a[1]] = t_open
                    elif a[0] == 'var' and a[1] not in inst.var_inst:
                        inst.var_inst[a[1]] = t_open
                    self.ctx.count('open_term_arguments')
                    continue
                if a[0] == 'svar' and rng.random() < 0.7 and a[1] not in inst:
                    T = a[2] if rng.random() < 0.93 else self.tg.rand_type()
                    if a[2][0] == 'stv' and rng.random() < 0.5:
                        # fix the schematic type variable through the instance (consistently for all variables of that type)
                        if not hasattr(self, '_stv_pick') or self._stv_pick[0] != len(self.steps):
                            self._stv_pick = (len(self.steps), {})
                        T = self._stv_pick[1].setdefault(a[2], self.tg.rand_type())
                    inst[a[1]] = self.term(T)
                elif a[0] == 'var' and rng.random() < 0.25 and a[1] not in inst.var_inst:
                    inst.var_inst[a[1]] = self.term(a[2])
            if rng.random() < 0.15:
                inst.abs_name_inst[rng.choice(self.tg.names)] = rng.choice(self.tg.names)
            return self.add(rule, inst, [i])
        if rule in ('abstraction', 'forall_intr'):
            if rule == 'abstraction':
                i = self.pick(lambda sh: head_is(sh[1], 'equals', 2))
                if i is None:
                    i = rng.randrange(n)
            else:
                i = rng.randrange(n)
            ats = self.atoms_of(i, hyps_first=rng.random() < 0.5)
            r = rng.random()
            if ats and r < 0.85:
                x = S.to_repo_term(rng.choice(ats[:3]) if rng.random() < 0.6 else rng.choice(ats))
            elif r < 0.95:
                x = S.to_repo_term(self.tg.fresh_atom(self.tg.rand_type()) or ('var', 'q', S.BOOL))
            else:
                x = self.term(self.tg.rand_type())
            return self.add(rule, x, [i])
        if rule == 'forall_elim':
            i = self.pick(lambda sh: head_is(sh[1], 'all', 1) and args_of(sh[1])[0][0] == 'abs')
            if i is None:
                return self.add(rule, self.term(self.tg.rand_type()), [rng.randrange(n)])
            T = args_of(self.shs[i][1])[0][2]
            if rng.random() < 0.07:
                T = self.tg.rand_type()
            return self.add(rule, self.term(T), [i])
        return False


def open_instances(inst):
    """names of the variables an Inst maps to an OPEN term (judged on the shadow, not by Term.is_open)"""
    try:
        items = list(inst.items()) + list(inst.var_inst.items())
    except AttributeError:
        return []
    return [k for k, v in items if not S.is_closed(S.tm_shadow(v))]


def classify(rule, step, premise_shs):
    """mechanism key of a refuted rule application (known-findings are keyed by this)."""
    if rule in ('forall_intr', 'abstraction') and step['args'] is not None and premise_shs:
        x = S.tm_shadow(step['args'])
        if x[0] == 'svar' and any(x in S.atoms(h) for h in premise_shs[0][0]):
            return rule + ':schematic-variable-free-in-hypothesis'
        if x[0] == 'var' and any(x in S.atoms(h) for h in premise_shs[0][0]):
            return rule + ':variable-free-in-hypothesis'
    if rule == 'substitution' and open_instances(step['args']):
        return 'substitution:open-instance-accepted:loose-bound-captured-by-enclosing-binder'
    return rule + ':unsound-application'


def judge_proof(ctx, prf, steps, cache, seedinfo):
    """prf was accepted by check_proof: judge every item's sequent."""
    status = []
    for i, (item, st) in enumerate(zip(prf.items, steps)):
        sh = S.thm_shadow(item.th)
        key = (tuple(sorted(map(S.alpha, sh[0]), key=repr)), S.alpha(sh[1]))
        if key in cache:
            res, w = cache[key]
        else:
            res, w = H.refute(sh[0], sh[1], ctx.rng)
            cache[key] = (res, w)
            ctx.count('sequents_judged')
            ctx.count('oracle:' + res)
        status.append(res)
        if res in ('refuted', 'ill_typed'):
            prem = [S.thm_shadow(prf.items[j].th) for j in st['prevs']]
            if any(status[j] in ('refuted', 'ill_typed') for j in st['prevs']):
                ctx.count('downstream_of_bad_premise')
                continue
            mech = classify(st['rule'], st, prem) if res == 'refuted' else st['rule'] + ':accepted-ill-typed-sequent'
            if res == 'ill_typed' and st['rule'] == 'substitution' and open_instances(st['args']):
                mech = 'substitution:open-instance-accepted:ill-typed-or-open-sequent'
            if res == 'refuted' and not sh[0] and sh[1] == ('const', 'false', S.BOOL):
                mech += '+proves-false'
            desc = 'check_proof accepted %s yielding %s |- %s ; %s: %s' % (
                st['rule'], ', '.join(S.tm_str(h, True) for h in sh[0]), S.tm_str(sh[1], True), res, w)
            ctx.violation(mech, desc, {'script': [{'rule': s['rule'], 'args': ser_arg(s['rule'], s['args']),
                                                   'prevs': s['prevs']} for s in steps[:i + 1]],
                                       'item': i, 'oracle': res, 'countermodel': w, **seedinfo})
    return status


def calibrate(ctx):
    from kernel import theory
    bad = []
    n = 0
    for name, th in theory.thy.get_data('theorems').items():
        hy, c = S.thm_shadow(th)
        st, w = H.refute(hy, c, ctx.rng, max_size=2)
        n += 1
        if st in ('refuted', 'ill_typed'):
            bad.append(name)
    ctx.count('calibration_theorems', n)
    return bad


def nested_variant(ctx, steps, flat_prf, cache, seedinfo):
    """the same script as ONE block (rule `subproof`) whose lines carry STATED sequents - the true ones, and for one
    line possibly a false one (hypotheses dropped / the statement of another line / a generalisation): the checker
    must compare every stated sequent with what the rule yields, also inside blocks and with gaps disallowed"""
    from kernel.proof import Proof, ProofItem
    from kernel.thm import Thm
    from kernel import theory
    rng = ctx.rng
    n = len(steps)
    if n < 2:
        return
    true_ths = [it.th for it in flat_prf.items]
    liar = rng.randrange(n) if rng.random() < 0.6 else None
    inner = []
    for k, st in enumerate(steps):
        th = true_ths[k] if rng.random() < 0.5 else None
        if k == liar:
            how = rng.choice(['drop-hyps', 'other-line', 'other-line'])
            if how == 'drop-hyps' and true_ths[k].hyps:
                th = Thm(true_ths[k].prop)
            else:
                j = rng.randrange(n)
                th = Thm(true_ths[j].prop, *true_ths[k].hyps) if j != k else None
            if th is None:
                liar = None
        it = ProofItem((0, k), st['rule'], args=st['args'], prevs=[(0, p) for p in st['prevs']], th=th)
        inner.append(it)
    blk = ProofItem((0,), 'subproof')
    blk.subproof = Proof()
    blk.subproof.items = inner
    if rng.random() < 0.5:
        blk.th = true_ths[-1] if liar != n - 1 or inner[-1].th is None else inner[-1].th
    prf = Proof()
    prf.items = [blk]
    ctx.count('nested_scripts')
    if liar is not None:
        ctx.count('nested_scripts_with_a_false_statement')
    try:
        theory.thy.check_proof(prf, no_gaps=True)
    except Exception as e:
        ctx.count('nested_rejected:' + type(e).__name__)
        return
    ctx.count('nested_accepted')
    for k, it in enumerate(inner + [blk]):
        if it.th is None:
            continue
        sh = S.thm_shadow(it.th)
        key = (tuple(sorted(map(S.alpha, sh[0]), key=repr)), S.alpha(sh[1]))
        if key not in cache:
            cache[key] = H.refute(sh[0], sh[1], ctx.rng)
            ctx.count('sequents_judged')
        res, w = cache[key]
        if res in ('refuted', 'ill_typed'):
            rule = steps[k]['rule'] if k < n else 'subproof'
            ctx.violation('nested:%s:stated-sequent-accepted-though-it-does-not-follow' % rule,
                          'check_proof(no_gaps=True) accepted a block in which line %d (%s) states %s |- %s ; %s: %s' % (
                              k, rule, ', '.join(S.tm_str(h, True) for h in sh[0]), S.tm_str(sh[1], True), res, w),
                          {'script': [{'rule': s_['rule'], 'args': ser_arg(s_['rule'], s_['args']), 'prevs': s_['prevs']} for s_ in steps],
                           'nested': True, 'liar': liar, 'item': k, 'oracle': res, 'countermodel': w, **seedinfo})
            return


def check_script(ctx, steps, cache, seedinfo):
    """send through the real checker; on rejection drop the first unverified item and retry"""
    from kernel import theory
    steps = list(steps)
    for attempt in range(4):
        if not steps:
            return None
        prf = build_proof(steps)
        try:
            theory.thy.check_proof(prf, no_gaps=True)
        except Exception as e:
            ctx.count('checker_rejected:' + type(e).__name__)
            bad = next((i for i, it in enumerate(prf.items) if it.th is None), len(steps) - 1)
            drop = {bad}
            new, remap = [], {}
            for i, st in enumerate(steps):
                if i in drop or any(p in drop for p in st['prevs']):
                    drop.add(i)
                    continue
                remap[i] = len(new)
                new.append({'rule': st['rule'], 'args': st['args'], 'prevs': [remap[p] for p in st['prevs']]})
            steps = new
            continue
        ctx.count('scripts_accepted')
        for st in steps:
            ctx.count('rule_ok:' + st['rule'])
        st_ = judge_proof(ctx, prf, steps, cache, seedinfo)
        if not any(x in ('refuted', 'ill_typed') for x in st_) and ctx.rng.random() < 0.5:
            nested_variant(ctx, steps, prf, cache, seedinfo)
        return prf, steps
    return None


def run_shard(ctx, spec):
    from logic import basic
    from kernel import theory
    if 'replay' in spec:
        return replay(ctx, spec['replay'])
    basic.load_theory('logic_base')
    bad = calibrate(ctx)
    if bad:
        ctx.note('evaluator calibration failed on %s: refusing to judge' % bad[:5])
        ctx.count('calibration_failed')
        return
    cache = {}
    seen_rules = set()
    for k in range(spec['scripts']):
        g = ScriptGen(ctx.rng, ctx)
        nsteps = ctx.rng.choice([5, 8, 10, 14])
        tries = 0
        while len(g.steps) < nsteps and tries < nsteps * 4:
            tries += 1
            g.step()
        r = check_script(ctx, g.steps, cache, {'shard': spec['i'], 'script_no': k})
        if r is None:
            ctx.case(('rejected', k, spec['i']), nontrivial=False)
            continue
        prf, steps = r
        rules = [s['rule'] for s in steps]
        seen_rules.update(rules)
        key = (tuple(rules), tuple(S.alpha(S.tm_shadow(it.th.prop)) for it in prf.items))
        nontriv = len(steps) >= 3 and any(x not in ('assume', 'theorem', 'reflexive') for x in rules)
        ctx.case(key, nontrivial=nontriv,
                 sample=[str(it) for it in prf.items][:8] if k < 1 and spec['i'] < 3 else None)
    if all(r in seen_rules for r in RULES):
        ctx.count('rules_all15_seen')


def replay(ctx, rec):
    from logic import basic
    from kernel import theory
    basic.load_theory('logic_base')
    w = rec['witness']
    steps = [{'rule': s['rule'], 'args': deser_arg(s['args']), 'prevs': s['prevs']} for s in w['script']]
    prf = build_proof(steps)
    try:
        theory.thy.check_proof(prf, no_gaps=True)
    except Exception as e:
        ctx.note('replay: script now rejected (%s) - not reproduced' % type(e).__name__)
        ctx.case('replay', sample='rejected')
        return
    judge_proof(ctx, prf, steps, {}, {})
    ctx.case('replay', sample=[str(it) for it in prf.items])
