"""C15 - SAT solving and CNF/Tseitin encoding give correct verdicts with valid certificates.

Monitors
  * prover.sat.solve_cnf(cnf): result judged by exhaustive truth tables (bit-parallel brute force),
    returned assignment substituted into every clause, returned resolution trace replayed with
    textbook set resolution (pivot = a genuinely complementary literal), last clause empty.
  * sys.monitoring PY_RETURN hooks on the closures unit_propagate / analyze_conflict / backtrack of
    solve_cnf, reading the solver's local state (assigns, cnf, level, proofs) from the frames:
    trail invariants, every learned clause = resolvent of its named clauses and implied by the input
    CNF, no assignment above the back-jump level, and TERMINATION by logical arguments only
    (state lasso: a back-jump that undoes nothing; pigeonhole: more learned clauses than 3^n).
  * prover.tseitin.encode(t): exported proof accepted by theory.check_proof without gaps, theorem
    valid by truth table, its CNF equisatisfiable with t by truth table; solver run on that CNF.
"""
import os, sys, re, json, itertools, traceback, subprocess

ID = 'C15'
LEVEL = 'exploration'
RULE = ('case = one CNF (ordered list of clauses, clause = ordered list of (name, sign)) sent through '
        'prover.sat.solve_cnf under the frame monitor, or one propositional formula sent through '
        'prover.tseitin.encode + theory.check_proof + solve_cnf; exhaustive spaces: all ordered CNFs over 2 '
        'variables (clauses = multisets of <= 3 literals) and over 3 variables; random CNFs <= 12 variables / 60 '
        'clauses with duplicate and tautological literals, empty clauses; distinct = hash of the CNF / formula; '
        'non-trivial = CNF with >= 2 clauses (formula with >= 2 connectives); decision order varied by '
        'PYTHONHASHSEED per shard and by variable names')
ASSUMPTIONS = [
    'sat/zchaff.py shells out to sat\\binaries\\zchaff.exe (Windows binary, not runnable here): not drivable, not covered',
    'the solver state is read from frame locals of solve_cnf and its closures (assigns, cnf, level, proofs); if these '
    'names or the closures unit_propagate/analyze_conflict/backtrack disappear the hook counters are 0 and the run is inconclusive',
    'termination is judged by logical arguments only: (a) a back-jump after which the trail is identical to the '
    'conflict trail, seen twice in a row on the same conflict clause - the solver is a deterministic function of '
    '(trail, clause prefix) so the state repeats forever; (b) more learned clauses than 3^n distinct clauses exist; '
    'a run cut by the event budget (2000 + 40*(vars+1)*(clauses+1) closure returns, > 100x what 40 000 calibration runs needed) is inconclusive and only counted',
    'truth tables are exhaustive over <= 22 variables (bit-parallel); larger instances are counted as oracle-unknown',
    'the bit-parallel truth-table oracle is calibrated against naive enumeration at shard start',
    'a learned clause that is a proper superset of the textbook resolvent is counted, not reported (sound weakening)',
    'Tseitin formulas: connectives not/and/or/implies/iff over <= 4 boolean variables, <= ~14 connectives; an '
    'exception from encode() is a rejection (counted); theory "sat" loaded as in prover/tests/tseitin_test.py',
]
REQUIRED = {
    'quick': {'solve_calls': 150000, 'hook:unit_propagate': 250000, 'hook:analyze_conflict': 40000,
              'hook:backtrack': 40000, 'sat_models_checked': 100000, 'unsat_traces_replayed': 30000,
              'learned_clauses_checked': 40000, 'trail_entries_checked': 500000,
              'tseitin_checker_accepted': 200, 'tseitin_equisat_checked': 200, 'tseitin_unsat_side': 60,
              'exh2_parts_done': 2, 'exh2_cases': 44136, 'exh3_parts_done': 1, 'exh3_cases': 7141,
              'oracle_calibrated': 17},
    'thorough': {'solve_calls': 52000000, 'hook:unit_propagate': 60000000, 'hook:analyze_conflict': 5000000,
                 'hook:backtrack': 5000000, 'sat_models_checked': 10000000, 'unsat_traces_replayed': 3000000,
                 'learned_clauses_checked': 5000000, 'trail_entries_checked': 60000000,
                 'tseitin_checker_accepted': 8000, 'tseitin_equisat_checked': 8000, 'tseitin_unsat_side': 2500,
                 'exh2_parts_done': 12, 'exh2_cases': 1544761, 'exh3_parts_done': 84, 'exh3_cases': 50386981,
                 'oracle_calibrated': 128},
}
SHARD_TIMEOUT = {'quick': 600, 'thorough': 7200}

# closure-return events allowed per solve_cnf run: 2000 + 40*(n+1)*(m+1)  (logical budget; overrun = inconclusive).
# Measured on 40 000 random CNFs (<= 12 variables / 60 clauses): at most 280 events, events <= 2*(n+1)*(m+1).
def event_budget(nvars, nclauses):
    return 2000 + 40 * (nvars + 1) * (nclauses + 1)
MAX_TT_VARS = 22
NAME_POOL = ['x', 'y', 'z', 'a', 'b', 'c', 'p', 'q', 'r', 's', 't', 'u', 'v', 'w', 'x1', 'x2', 'x3', 'x10', 'x11',
             'A', 'B', 'C', 'lit', 'foo', 'bar', 'n0', 'n1', 'n2', 'k', 'm', 'aa', 'ab', 'ba', 'bb', '_', 'X']


def hashseed_env():
    return os.environ.get('PYTHONHASHSEED', 'random')


# ====================================================================== shards
def shards(tier, seed):
    hs = lambda i: 1 + (seed * 97 + i * 13) % 100000
    out = []
    if tier == 'quick':
        out += [{'kind': 'exh', 'nv': 2, 'maxc': 3, 'part': p, 'parts': 2} for p in range(2)]
        out += [{'kind': 'exh_sample', 'nv': 2, 'nc': 4, 'count': 30000, 'i': i} for i in range(2)]
        out += [{'kind': 'exh', 'nv': 3, 'maxc': 2, 'part': 0, 'parts': 1}]
        out += [{'kind': 'exh_sample', 'nv': 3, 'nc': 3, 'count': 30000, 'i': i} for i in range(2)]
        out += [{'kind': 'exh_sample', 'nv': 3, 'nc': 4, 'count': 30000, 'i': 2}]
        out += [{'kind': 'random', 'count': 16000, 'i': i} for i in range(3)]
        out += [{'kind': 'tseitin', 'count': 40, 'i': i} for i in range(6)]
    else:
        out += [{'kind': 'exh', 'nv': 2, 'maxc': 4, 'part': p, 'parts': 12, 'rec': 4} for p in range(12)]
        out += [{'kind': 'exh', 'nv': 3, 'maxc': 4, 'part': p, 'parts': 84, 'rec': 64} for p in range(84)]
        out += [{'kind': 'random', 'count': 60000, 'i': i} for i in range(16)]
        out += [{'kind': 'tseitin', 'count': 600, 'i': i} for i in range(16)]
    for i, s in enumerate(out):
        s['hashseed'] = hs(i)
    return out


# ====================================================================== truth-table oracle
class Tables:
    """Bit-parallel truth tables: bit a of a table = value under assignment a (bit i of a = variable i)."""

    def __init__(self, names):
        self.names = list(names)
        self.n = len(self.names)
        N = 1 << self.n
        self.ALL = (1 << N) - 1
        self.pos = {}
        for i, nm in enumerate(self.names):
            low = self.ALL // ((1 << (1 << i)) + 1)      # bit a set iff bit i of a is 0
            self.pos[nm] = self.ALL ^ low

    def lit(self, name, val):
        return self.pos[name] if val else self.ALL ^ self.pos[name]

    def clause(self, c):
        r = 0
        for nm, v in c:
            r |= self.pos[nm] if v else self.ALL ^ self.pos[nm]
        return r

    def cnf(self, cs):
        r = self.ALL
        for c in cs:
            r &= self.clause(c)
            if not r:
                break
        return r

    def model(self, table):
        a = (table & -table).bit_length() - 1
        return {nm: bool((a >> i) & 1) for i, nm in enumerate(self.names)}


def naive_sat(cnf, names):
    for vals in itertools.product([False, True], repeat=len(names)):
        a = dict(zip(names, vals))
        if all(any(a[nm] == v for nm, v in c) for c in cnf):
            return True
    return False


def calibrate(ctx):
    """the bit-parallel oracle must agree with naive enumeration (guards the oracle itself)"""
    import random
    rng = random.Random(12345)
    for k in range(150):
        n = rng.randint(0, 6)
        names = ['v%d' % i for i in range(n)]
        cnf = []
        for j in range(rng.randint(0, 14)):
            cnf.append(tuple((rng.choice(names), rng.random() < 0.5) for _ in range(rng.randint(0, 3))) if n else ())
        T = Tables(names)
        tab = T.cnf(cnf)
        if bool(tab) != naive_sat(cnf, names):
            raise RuntimeError('truth-table oracle disagrees with naive enumeration on %r' % (cnf,))
        if tab:
            m = T.model(tab)
            if not all(any(m[nm] == v for nm, v in c) for c in cnf):
                raise RuntimeError('truth-table oracle returned a non-model on %r' % (cnf,))
    ctx.count('oracle_calibrated')


def cnf_names(cnf):
    seen = []
    s = set()
    for c in cnf:
        for nm, _ in c:
            if nm not in s:
                s.add(nm)
                seen.append(nm)
    return sorted(seen)


def norm_cnf(cnf):
    return tuple(tuple((str(l[0]), bool(l[1])) for l in c) for c in cnf)


# ====================================================================== textbook resolution / trace replay
def resolvents(c1, c2):
    """all textbook resolvents of the sets c1, c2 (c1 supplies the literal, c2 its complement)"""
    out = set()
    for (nm, v) in c1:
        if (nm, not v) in c2:
            out.add((c1 - {(nm, v)}) | (c2 - {(nm, not v)}))
    return out


def chain(cands_of, steps, cap=64):
    """successive resolution of the named clauses.  cands_of(i) -> iterable of frozensets.
    returns (set of possible results, None) or (None, (reason, step index))"""
    cur = set(cands_of(steps[0]))
    for j, s in enumerate(steps[1:], 1):
        nxt = set()
        for c1 in cur:
            for c2 in cands_of(s):
                nxt |= resolvents(c1, c2)
        if not nxt:
            return None, ('no-complementary-literal', j)
        if len(nxt) > cap:
            return None, ('unknown', j)
        cur = nxt
    return cur, None


def replay_trace(cnf, proofs):
    """Judge a returned trace from the input CNF and the trace alone.
    -> (None | mech, desc).  mech 'unknown' = too ambiguous to decide."""
    m = len(cnf)
    if not isinstance(proofs, dict) or not proofs:
        return 'TRACE:missing-or-empty', 'unsatisfiable answer without a resolution trace'
    try:
        keys = sorted(proofs)
    except TypeError:
        return 'TRACE:malformed', 'trace keys are not comparable ids'
    if keys != list(range(m, m + len(keys))):
        return 'TRACE:ids-not-contiguous', 'learned clause ids %r do not continue the %d input clauses' % (keys[:6], m)
    cands = {i: [frozenset(c)] for i, c in enumerate(cnf)}
    for k in keys:
        steps = proofs[k]
        if (not isinstance(steps, (list, tuple)) or not steps or
                any(not isinstance(s, int) or isinstance(s, bool) or s < 0 or s >= k for s in steps)):
            return 'TRACE:names-unknown-clause', 'learned clause %d names %r' % (k, steps)
        res, err = chain(lambda i: cands[i], steps)
        if res is None:
            if err[0] == 'unknown':
                return 'unknown', ''
            return ('TRACE:step-without-complementary-literal',
                    'learned clause %d: resolving with clause %d (step %d of %r) has no complementary literal'
                    % (k, steps[err[1]], err[1], steps))
        cands[k] = list(res)
    if frozenset() not in cands[keys[-1]]:
        return ('TRACE:last-clause-not-empty', 'replaying the trace gives %s as last clause, not the empty clause'
                % sorted(map(sorted, cands[keys[-1]]))[:3])
    return None, ''


# ====================================================================== the frame monitor
class Cut(BaseException):
    def __init__(self, why):
        BaseException.__init__(self, why)
        self.why = why


class RunState:
    def __init__(self, cnf, names, T, table):
        self.cnf, self.names, self.T, self.table = cnf, names, T, table
        self.nvars = len(names)
        self.budget = event_budget(len(names), len(cnf))
        self.events = 0
        self.learned = 0
        self.viol = []            # (mech, desc)
        self.seen_mech = set()
        self.conf = None          # (trail items tuple, level, conflict clause id)
        self.stutter = 0
        self.stutter_key = None
        self.loop = None
        self.first_dec = None
        self.decisions = 0
        self.monitor_error = None
        self.counts = {}

    def v(self, mech, desc):
        if mech not in self.seen_mech:
            self.seen_mech.add(mech)
            self.viol.append((mech, desc))

    def c(self, name, n=1):
        self.counts[name] = self.counts.get(name, 0) + n


def lit_str(l):
    return ('' if l[1] else '~') + str(l[0])


def cl_str(c):
    return '[' + ' '.join(lit_str(l) for l in c) + ']'


class Monitor:
    TOOL = 4

    def __init__(self):
        self.st = None
        self.installed = False
        self.missing = []

    def install(self):
        from prover import sat
        mon = sys.monitoring
        self.outer = sat.solve_cnf.__code__
        self.codes = {c.co_name: c for c in self.outer.co_consts if hasattr(c, 'co_code')}
        self.missing = [k for k in ('unit_propagate', 'analyze_conflict', 'backtrack') if k not in self.codes]
        try:
            mon.use_tool_id(self.TOOL, 'vf_c15')
        except ValueError:
            pass
        mon.register_callback(self.TOOL, mon.events.PY_RETURN, self.on_return)
        for c in self.codes.values():
            mon.set_local_events(self.TOOL, c, mon.events.PY_RETURN)
        self.installed = True

    # ------------------------------------------------------------------ callback
    def on_return(self, code, offset, retval):
        st = self.st
        if st is None:
            return
        try:
            st.events += 1
            if st.events > st.budget:
                raise Cut('budget')
            name = code.co_name
            if name not in ('unit_propagate', 'analyze_conflict', 'backtrack'):
                return
            f = sys._getframe(1)
            if f.f_code is not code:
                return
            g = f
            while g is not None and g.f_code is not self.outer:
                g = g.f_back
            if g is None:
                return
            loc = g.f_locals
            assigns, cnf = loc.get('assigns'), loc.get('cnf')
            if not isinstance(assigns, dict) or not isinstance(cnf, list):
                st.c('hook_state_unreadable')
                return
            st.c('hook:' + name)
            if name == 'unit_propagate':
                self.at_unit_propagate(st, retval, assigns, cnf, loc.get('level'))
            elif name == 'analyze_conflict':
                self.at_analyze(st, retval, assigns, cnf)
            else:
                self.at_backtrack(st, retval, assigns, cnf, loc.get('proofs'))
        except Cut:
            raise
        except Exception:
            st.monitor_error = traceback.format_exc()[-1500:]
            raise Cut('monitor-error')

    # ------------------------------------------------------------------ unit_propagate returned
    def at_unit_propagate(self, st, retval, assigns, cnf, level):
        seen = {}
        prev_lvl = 0
        ndec = 0
        for name, ent in assigns.items():
            val, is_dec, lvl, reason = ent
            st.c('trail_entries_checked')
            if isinstance(level, int) and lvl > level:
                st.v('INV:assignment-above-current-level', '%s assigned at level %d while the solver is at level %d' % (name, lvl, level))
            if lvl < prev_lvl:
                st.v('INV:trail-levels-not-monotone', '%s at level %d follows an assignment at level %d' % (name, lvl, prev_lvl))
            prev_lvl = max(prev_lvl, lvl)
            if is_dec:
                ndec += 1
                if st.first_dec is None and lvl == 1:
                    st.first_dec = name
            else:
                ok = isinstance(reason, int) and 0 <= reason < len(cnf)
                why = 'names no clause'
                if ok:
                    cl = cnf[reason]
                    has = False
                    for nm2, v2 in cl:
                        if nm2 == name:
                            if v2 == val:
                                has = True
                            else:
                                ok, why = False, 'contains the complement of the propagated literal'
                        elif nm2 not in seen:
                            ok, why = False, 'has another literal %s not assigned earlier on the trail' % lit_str((nm2, v2))
                        elif seen[nm2] == v2:
                            ok, why = False, 'is satisfied earlier on the trail by %s' % lit_str((nm2, v2))
                    if ok and not has:
                        ok, why = False, 'does not contain the propagated literal'
                if not ok:
                    st.v('INV:reason-clause-not-unit-under-earlier-trail',
                         'propagated %s with reason clause %r %s which %s' % (
                             lit_str((name, val)), reason, cl_str(cnf[reason]) if isinstance(reason, int) and 0 <= reason < len(cnf) else '', why))
            seen[name] = val
        st.decisions = max(st.decisions, ndec)
        if isinstance(retval, tuple) and len(retval) == 2 and retval[0] == 'conflict':
            cid = retval[1]
            if isinstance(cid, int) and 0 <= cid < len(cnf):
                bad = [l for l in cnf[cid] if l[0] not in assigns or assigns[l[0]][0] == l[1]]
                if bad:
                    st.v('INV:conflict-clause-not-falsified', 'conflict reported on clause %d %s but %s is not false under the trail'
                         % (cid, cl_str(cnf[cid]), lit_str(bad[0])))
            st.conf = (tuple(assigns.items()), level, cid)
            st.c('conflicts')
        elif retval == 'satisfiable':
            for i, cl in enumerate(cnf):
                if not any(l[0] in assigns and assigns[l[0]][0] == l[1] for l in cl):
                    st.v('INV:satisfiable-with-unsatisfied-clause', 'propagation reported satisfiable while clause %d %s has no true literal' % (i, cl_str(cl)))
                    break

    # ------------------------------------------------------------------ analyze_conflict returned (proof, clause)
    def at_analyze(self, st, retval, assigns, cnf):
        if not (isinstance(retval, tuple) and len(retval) == 2):
            return
        proof, clause = retval
        st.c('learned_clauses_checked')
        cset = frozenset((l[0], l[1]) for l in clause)
        bad = [l for l in clause if l[0] not in assigns or assigns[l[0]][0] == l[1]]
        if bad:
            st.v('INV:learned-clause-not-falsified-at-conflict', 'learned %s but %s is not false under the conflict trail'
                 % (cl_str(clause), lit_str(bad[0])))
        # syntactic: the clause is the successive resolvent of the named clauses
        if (not isinstance(proof, list) or not proof or
                any(not isinstance(s, int) or s < 0 or s >= len(cnf) for s in proof)):
            st.v('TRACE:names-unknown-clause', 'conflict analysis names clauses %r' % (proof,))
        else:
            res, err = chain(lambda i: [frozenset(cnf[i])], proof)
            if res is None:
                if err[0] == 'unknown':
                    st.c('chain_ambiguous_unknown')
                else:
                    st.v('TRACE:step-without-complementary-literal',
                         'conflict analysis resolved %s with clause %d %s which has no complementary literal (chain %r)'
                         % ('the running clause', proof[err[1]], cl_str(cnf[proof[err[1]]]), proof))
            elif cset in res:
                st.c('learned_equals_resolvent')
            elif any(cset > r for r in res):
                st.c('learned_weaker_than_resolvent')
            else:
                st.v('TRACE:learned-clause-is-not-the-resolvent',
                     'chain %r resolves to %s but the solver learned %s' % (
                         proof, ' / '.join(cl_str(sorted(r)) for r in list(res)[:2]), cl_str(clause)))
        # semantic: implied by the input CNF
        if st.table is not None:
            ct = st.T.clause(cset) if all(l[0] in st.T.pos for l in cset) else None
            if ct is None:
                st.v('LEARN:learned-clause-over-unknown-variable', 'learned %s mentions a variable not in the input' % cl_str(clause))
            else:
                cex = st.table & ~ct
                if cex:
                    st.v('LEARN:learned-clause-not-implied-by-cnf', 'learned %s is false in the model %s of the input CNF'
                         % (cl_str(clause), st.T.model(cex)))

    # ------------------------------------------------------------------ backtrack returned
    def at_backtrack(self, st, retval, assigns, cnf, proofs):
        st.learned += 1
        new_id = len(cnf) - 1
        stored = cnf[new_id]
        if isinstance(proofs, dict) and new_id not in proofs:
            st.v('TRACE:learned-clause-without-proof', 'clause %d was added without a proof entry' % new_id)
        if retval == 'unsatisfiable':
            if len(stored) != 0:
                st.v('INV:unsat-declared-on-nonempty-clause', 'unsatisfiable declared after learning %s' % cl_str(stored))
        elif isinstance(retval, int):
            above = [nm for nm, e in assigns.items() if e[2] > retval]
            if above:
                st.v('INV:assignment-above-backjump-level', 'after back-jump to level %d, %s is still assigned at level %d'
                     % (retval, above[0], assigns[above[0]][2]))
            if st.conf is not None and tuple(assigns.items()) == st.conf[0]:
                key = (st.conf[2], frozenset(stored))
                if st.stutter_key == key:
                    st.stutter += 1
                else:
                    st.stutter_key, st.stutter = key, 1
                if st.stutter >= 2:
                    lvls = sorted(assigns[l[0]][2] for l in stored if l[0] in assigns)
                    dup_top = len(stored) != len(set(stored)) and len(lvls) >= 2 and lvls[-1] == lvls[-2]
                    st.loop = {'dup_top': dup_top, 'learned': [list(l) for l in stored], 'conflict_clause': st.conf[2],
                               'backjump_level': retval, 'conflict_level': st.conf[1], 'clauses_learned': st.learned}
                    raise Cut('stutter')
            else:
                st.stutter, st.stutter_key = 0, None
        if st.learned > 3 ** st.nvars:
            raise Cut('pigeonhole')


MON = Monitor()


# ====================================================================== one solver case
def run_solver(ctx, cnf, kind, extra=None):
    """cnf: normalised tuple of tuples.  Returns (verdict or None, violations [(mech, desc)])."""
    from prover import sat
    names = cnf_names(cnf)
    T = table = None
    if len(names) <= MAX_TT_VARS:
        T = Tables(names)
        table = T.cnf(cnf)
    else:
        ctx.count('oracle_unknown_too_many_vars')
    st = RunState(cnf, names, T, table)
    arg = [list(c) for c in cnf]
    viol = []
    res = None
    MON.st = st
    try:
        res = sat.solve_cnf(arg)
        outcome = 'returned'
    except Cut as e:
        outcome = 'cut:' + e.why
    except Exception as e:
        outcome = 'exception'
        exc = e
    finally:
        MON.st = None
    ctx.count('solve_calls')
    for k, n in st.counts.items():
        ctx.count(k, n)
    viol.extend(st.viol)
    verdict = None
    if outcome == 'cut:budget':
        ctx.count('runs_cut_by_event_budget_inconclusive')
    elif outcome == 'cut:monitor-error':
        ctx.count('monitor_errors')
        ctx.note('monitor error: ' + (st.monitor_error or ''))
    elif outcome == 'cut:stutter':
        ctx.count('runs_cut_nontermination_lasso')
        lp = st.loop
        mech = ('TERM:duplicate-literal-learned-clause-loop' if lp['dup_top'] else 'TERM:backjump-undoes-nothing-loop')
        viol.append((mech, 'solve_cnf does not terminate: conflict on clause %d at level %s, learned %s, back-jump to level %s leaves the '
                     'trail unchanged, so the same conflict repeats forever (cut after %d learned clauses)'
                     % (lp['conflict_clause'], lp['conflict_level'], cl_str([tuple(l) for l in lp['learned']]), lp['backjump_level'], lp['clauses_learned'])))
    elif outcome == 'cut:pigeonhole':
        ctx.count('runs_cut_nontermination_pigeonhole')
        viol.append(('TERM:more-learned-clauses-than-exist', 'solve_cnf learned %d clauses over %d variables (only %d distinct clauses exist): '
                     'it re-learns clauses and cannot be making progress' % (st.learned, st.nvars, 3 ** st.nvars)))
    elif outcome == 'exception':
        ctx.count('solver_raised:' + type(exc).__name__)
        viol.append(('EXC:solver-raised-' + type(exc).__name__, 'solve_cnf raised %s: %s on a well-formed CNF' % (type(exc).__name__, str(exc)[:120])))
    else:
        # ---- judge the returned answer
        if not (isinstance(res, tuple) and len(res) == 2 and res[0] in ('satisfiable', 'unsatisfiable')):
            viol.append(('RESULT:malformed', 'solve_cnf returned %r' % (res,)))
        elif res[0] == 'satisfiable':
            verdict = 'satisfiable'
            ctx.count('answers_satisfiable')
            a = res[1]
            if not isinstance(a, dict):
                viol.append(('RESULT:malformed', 'satisfiable answer carries %r instead of an assignment' % (type(a).__name__,)))
            else:
                ctx.count('sat_models_checked')
                for i, c in enumerate(cnf):
                    if not any(nm in a and a[nm] == v for nm, v in c):
                        if table is not None and not table:
                            viol.append(('VERDICT:satisfiable-but-no-model-exists', 'answered satisfiable; exhaustive search over %d variables finds no model; '
                                         'returned assignment falsifies clause %d %s' % (len(names), i, cl_str(c))))
                        else:
                            viol.append(('MODEL:returned-assignment-falsifies-a-clause', 'returned assignment %r has no true literal in clause %d %s'
                                         % (a, i, cl_str(c))))
                        break
        else:
            verdict = 'unsatisfiable'
            ctx.count('answers_unsatisfiable')
            if table is not None:
                ctx.count('unsat_verdicts_checked_by_truth_table')
                if table:
                    viol.append(('VERDICT:unsatisfiable-but-model-exists', 'answered unsatisfiable; %r satisfies every clause' % (T.model(table),)))
            mech, desc = replay_trace(cnf, res[1])
            if mech == 'unknown':
                ctx.count('trace_replay_ambiguous_unknown')
            else:
                ctx.count('unsat_traces_replayed')
                if mech:
                    viol.append((mech, desc))
    if st.first_dec is not None and kind.startswith('exh'):
        ctx.count('%s_first_decision:%s' % (kind.split(':')[0], st.first_dec))
    if st.decisions:
        ctx.count('runs_with_decisions')
    if st.learned:
        ctx.count('runs_with_conflicts')
    seen = set()
    for mech, desc in viol:
        if mech in seen:
            continue
        seen.add(mech)
        w = {'kind': 'cnf', 'cnf': [[list(l) for l in c] for c in cnf], 'hashseed': hashseed_env(), 'from': kind}
        if extra:
            w.update(extra)
        ctx.violation(mech, desc + ' | cnf=%s' % ' '.join(cl_str(c) for c in cnf[:8]) + (' ...' if len(cnf) > 8 else ''), w)
    return verdict, viol


def do_cnf(ctx, cnf, kind, sample=False, record=True):
    cnf = norm_cnf(cnf)
    verdict, viol = run_solver(ctx, cnf, kind)
    if not record:
        # huge exhaustive spaces: the case is counted, its hash is not kept (memory)
        ctx.evaluations += 1
        return
    ctx.case(('cnf', cnf), nontrivial=len(cnf) >= 2,
             sample={'cnf': ' '.join(cl_str(c) for c in cnf), 'verdict': verdict, 'violations': [m for m, _ in viol]} if sample else None)


# ====================================================================== CNF workloads
def clause_space(nv):
    names = ['p', 'q', 'r', 's'][:nv]
    lits = [(nm, b) for nm in names for b in (True, False)]
    out = []
    for k in range(0, 4):
        out.extend(itertools.combinations_with_replacement(lits, k))
    return out


def rand_cnf(rng):
    style = rng.choice(['clean', 'clean', 'hostile', 'hostile', 'mixed'])
    n = rng.randint(1, 12)
    names = rng.sample(NAME_POOL, n)
    if rng.random() < 0.3:
        names = ['x%d' % (i + 1) for i in range(n)]
    if style == 'clean':
        k = rng.choice([2, 3, 3, 3, 4])
        m = min(60, max(1, int(n * rng.uniform(1.0, 6.0))))
        cnf = []
        for _ in range(m):
            kk = min(n, rng.choice([k, k, k, max(1, k - 1)]))
            vs = rng.sample(names, kk)
            cnf.append([(v, rng.random() < 0.5) for v in vs])
        return cnf
    m = rng.randint(0, 60) if rng.random() < 0.7 else rng.randint(0, 8)
    cnf = []
    for _ in range(m):
        r = rng.random()
        if r < (0.03 if style == 'hostile' else 0.01):
            cnf.append([])
            continue
        ln = rng.choice([1, 2, 2, 3, 3, 3, 4, 5])
        cl = [(rng.choice(names), rng.random() < 0.5) for _ in range(ln)]
        if style == 'hostile':
            r2 = rng.random()
            if r2 < 0.15 and cl:
                cl.insert(rng.randrange(len(cl) + 1), rng.choice(cl))            # duplicate literal
            elif r2 < 0.25 and cl:
                l = rng.choice(cl)
                cl.insert(rng.randrange(len(cl) + 1), (l[0], not l[1]))          # tautological pair
        else:
            # mixed: sets of literals (no duplicates), tautologies possible
            cl = list(dict.fromkeys(cl))
        cnf.append(cl)
    if rng.random() < 0.1 and cnf:
        cnf.insert(rng.randrange(len(cnf) + 1), list(rng.choice(cnf)))           # duplicate clause
    return cnf


# ====================================================================== Tseitin
OPS2 = ('and', 'or', 'imp', 'eq')


def gen_formula(rng, atoms, size):
    if size <= 0:
        return ('atom', rng.choice(atoms))
    op = rng.choice(('not', 'and', 'or', 'imp', 'eq', 'and', 'or'))
    if op == 'not':
        return ('not', gen_formula(rng, atoms, size - 1))
    l = rng.randint(0, size - 1)
    return (op, gen_formula(rng, atoms, l), gen_formula(rng, atoms, size - 1 - l))


def rewrite_equiv(rng, f):
    """a formula equivalent to f by textbook laws (de Morgan, material implication, iff as two implications)"""
    if f[0] == 'atom':
        return f if rng.random() < 0.7 else ('not', ('not', f))
    if f[0] == 'not':
        return ('not', rewrite_equiv(rng, f[1]))
    a, b = rewrite_equiv(rng, f[1]), rewrite_equiv(rng, f[2])
    r = rng.random()
    if f[0] == 'and':
        return ('not', ('or', ('not', a), ('not', b))) if r < 0.6 else ('and', b, a)
    if f[0] == 'or':
        return ('not', ('and', ('not', a), ('not', b))) if r < 0.6 else ('or', b, a)
    if f[0] == 'imp':
        return ('or', ('not', a), b) if r < 0.6 else ('imp', ('not', b), ('not', a))
    return ('and', ('imp', a, b), ('imp', b, a)) if r < 0.6 else ('eq', b, a)


def fsize(f):
    return 0 if f[0] == 'atom' else 1 + sum(fsize(x) for x in f[1:])


def fatoms(f, acc=None):
    acc = [] if acc is None else acc
    if f[0] == 'atom':
        if f[1] not in acc:
            acc.append(f[1])
    else:
        for x in f[1:]:
            fatoms(x, acc)
    return acc


def fstr(f):
    if f[0] == 'atom':
        return f[1]
    if f[0] == 'not':
        return '~' + fstr(f[1])
    return '(%s %s %s)' % (fstr(f[1]), {'and': '&', 'or': '|', 'imp': '-->', 'eq': '<-->'}[f[0]], fstr(f[2]))


def feval(f, T):
    if f[0] == 'atom':
        return T.pos[f[1]]
    if f[0] == 'not':
        return T.ALL ^ feval(f[1], T)
    a, b = feval(f[1], T), feval(f[2], T)
    if f[0] == 'and':
        return a & b
    if f[0] == 'or':
        return a | b
    if f[0] == 'imp':
        return (T.ALL ^ a) | b
    return T.ALL ^ (a ^ b)


def to_term(f):
    from kernel.type import BoolType
    from kernel.term import Var, And, Or, Not, Implies, Eq
    if f[0] == 'atom':
        return Var(f[1], BoolType)
    if f[0] == 'not':
        return Not(to_term(f[1]))
    a, b = to_term(f[1]), to_term(f[2])
    return {'and': And, 'or': Or, 'imp': Implies, 'eq': Eq}[f[0]](a, b)


def from_json_formula(j):
    return tuple(from_json_formula(x) if isinstance(x, list) else x for x in j)


class Unreadable(Exception):
    pass


def shadow_vars(s, acc):
    if s[0] == 'var':
        acc.add(s[1])
    elif s[0] == 'comb':
        shadow_vars(s[1], acc)
        shadow_vars(s[2], acc)
    return acc


def shadow_eval(s, T):
    """truth table of a propositional HOL term read structurally from its shadow"""
    from vf import shadow as S
    if s[0] == 'var':
        if s[2] != S.BOOL:
            raise Unreadable('non-boolean variable')
        return T.pos[s[1]]
    if s[0] == 'const':
        if s[1] == 'true':
            return T.ALL
        if s[1] == 'false':
            return 0
        raise Unreadable('constant ' + s[1])
    h, args = S.strip_comb(s)
    if h[0] != 'const':
        raise Unreadable('head')
    if h[1] == 'neg' and len(args) == 1:
        return T.ALL ^ shadow_eval(args[0], T)
    if len(args) == 2 and h[1] in ('conj', 'disj', 'implies', 'equals'):
        if h[1] == 'equals' and h[2] != S.funs(S.BOOL, S.BOOL, S.BOOL):
            raise Unreadable('equality not at bool')
        a, b = shadow_eval(args[0], T), shadow_eval(args[1], T)
        if h[1] == 'conj':
            return a & b
        if h[1] == 'disj':
            return a | b
        if h[1] == 'implies':
            return (T.ALL ^ a) | b
        return T.ALL ^ (a ^ b)
    raise Unreadable('operator ' + str(h[1]))


def shadow_cnf(s):
    """read conj-of-disj-of-literals structurally (right-nested as the repo builds it, any nesting accepted)"""
    from vf import shadow as S

    def strip(s, cname):
        h, args = S.strip_comb(s)
        if h[0] == 'const' and h[1] == cname and len(args) == 2:
            return strip(args[0], cname) + strip(args[1], cname)
        return [s]
    out = []
    for cl in strip(s, 'conj'):
        lits = []
        for l in strip(cl, 'disj'):
            h, args = S.strip_comb(l)
            if l[0] == 'var':
                lits.append((l[1], True))
            elif h[0] == 'const' and h[1] == 'neg' and len(args) == 1 and args[0][0] == 'var':
                lits.append((args[0][1], False))
            else:
                raise Unreadable('literal')
        out.append(tuple(lits))
    return tuple(out)


FRESH_RE = re.compile(r'^x[0-9]+$')


def do_formula(ctx, f, kind, sample=False):
    from vf import shadow as S
    from kernel import theory, report
    from prover import tseitin
    viol = []
    atoms = fatoms(f)
    TA = Tables(sorted(atoms))
    ftab = feval(f, TA)
    fsat = bool(ftab)
    info = {'formula': fstr(f), 'satisfiable': fsat}
    capture = any(FRESH_RE.match(a) for a in atoms)
    t = to_term(f)
    ctx.count('tseitin_encode_calls')
    try:
        pt = tseitin.encode(t)
    except Exception as e:
        ctx.count('tseitin_encode_rejected:' + type(e).__name__)
        ctx.case(('formula', f), nontrivial=fsize(f) >= 2, sample=dict(info, rejected=type(e).__name__) if sample else None)
        return
    # ---- checker acceptance
    accepted = False
    try:
        rpt = report.ProofReport()
        th = theory.check_proof(pt.export(), rpt, check_level=0)
        if th != pt.th:
            viol.append(('TSEITIN:checker-yields-different-theorem', 'check_proof of the exported encoding proof returns another theorem than encode() claims'))
        elif len(rpt.gaps) != 0:
            viol.append(('TSEITIN:exported-proof-has-gaps', 'exported encoding proof has %d gaps' % len(rpt.gaps)))
        else:
            accepted = True
            ctx.count('tseitin_checker_accepted')
    except Exception as e:
        viol.append(('TSEITIN:checker-rejects-encoding-proof', 'check_proof rejects the exported proof of encode(): %s: %s' % (type(e).__name__, str(e)[:150])))
    # ---- read the theorem structurally
    try:
        hyps, prop = S.thm_shadow(pt.th)
        fsh = S.tm_shadow(t)
        cnf_ind = shadow_cnf(prop)
        names = sorted(shadow_vars(prop, set().union(*[shadow_vars(h, set()) for h in hyps]) if hyps else set()))
        readable = True
    except (Unreadable, S.ShadowError) as e:
        readable = False
        ctx.count('tseitin_theorem_unreadable')
        viol.append(('TSEITIN:fresh-name-capture' if capture else 'TSEITIN:conclusion-is-not-a-cnf',
                     'conclusion of encode() is not a conjunction of clauses of literals (%s)%s' % (
                         e, ' - an atom of the formula is named like the variables x<i> that encode() introduces' if capture else '')))
    if readable:
        if fsh not in hyps:
            ctx.count('tseitin_formula_not_among_hyps')
        try:
            cnf_repo = norm_cnf(tseitin.convert_cnf(pt.prop))
        except Exception as e:
            cnf_repo = None
            viol.append(('TSEITIN:convert_cnf-raised', 'convert_cnf raised %s on the conclusion of encode()' % type(e).__name__))
        if cnf_repo is not None and cnf_repo != cnf_ind:
            viol.append(('TSEITIN:convert_cnf-misreads-conclusion', 'convert_cnf returns %s, the conclusion reads %s' % (
                ' '.join(map(cl_str, cnf_repo[:4])), ' '.join(map(cl_str, cnf_ind[:4])))))
        # theorem valid by truth table
        if len(names) <= MAX_TT_VARS:
            try:
                TT = Tables(names)
                h_all = TT.ALL
                for h in hyps:
                    h_all &= shadow_eval(h, TT)
                cex = h_all & ~shadow_eval(prop, TT)
                ctx.count('tseitin_theorem_validity_checked')
                if cex:
                    viol.append(('TSEITIN:theorem-invalid', 'hypotheses true and CNF false under %r' % (TT.model(cex),)))
            except Unreadable:
                ctx.count('tseitin_hyps_unreadable')
        else:
            ctx.count('oracle_unknown_too_many_vars')
        # equisatisfiable
        cn = cnf_names(cnf_ind)
        if len(cn) <= MAX_TT_VARS:
            TC = Tables(cn)
            ctab = TC.cnf(cnf_ind)
            ctx.count('tseitin_equisat_checked')
            ctx.count('tseitin_sat_side' if fsat else 'tseitin_unsat_side')
            if bool(ctab) != fsat:
                mech = 'TSEITIN:fresh-name-capture' if capture else 'TSEITIN:cnf-not-equisatisfiable'
                if fsat:
                    desc = 'formula %s is satisfiable (%r) but its Tseitin CNF is unsatisfiable' % (fstr(f), TA.model(ftab))
                else:
                    desc = 'formula %s is unsatisfiable but its Tseitin CNF is satisfiable (%r)' % (fstr(f), TC.model(ctab))
                if capture:
                    desc += ' - an atom of the formula is named like the variables x<i> that encode() introduces'
                viol.append((mech, desc))
        else:
            ctx.count('oracle_unknown_too_many_vars')
        info['cnf_clauses'] = len(cnf_ind)
        info['cnf_vars'] = len(cn)
    if capture:
        # one root cause: encode() names its variables x1, x2, ... without avoiding the atoms of the formula
        sym = ('TSEITIN:conclusion-is-not-a-cnf', 'TSEITIN:convert_cnf-raised', 'TSEITIN:convert_cnf-misreads-conclusion',
               'TSEITIN:cnf-not-equisatisfiable')
        viol = [(('TSEITIN:fresh-name-capture', d if 'named like' in d else d + ' - an atom of the formula is named like the '
                  'variables x<i> that encode() introduces') if m in sym else (m, d)) for m, d in viol]
    seen = set()
    for mech, desc in viol:
        if mech in seen:
            continue
        seen.add(mech)
        ctx.violation(mech, desc + ' | formula=' + fstr(f), {'kind': 'formula', 'formula': f, 'hashseed': hashseed_env(), 'from': kind})
    # ---- the solver on the produced CNF (realistic structured instances)
    if readable:
        verdict, sv = run_solver(ctx, cnf_ind, 'tseitin_cnf', extra={'formula': f})
        ctx.count('tseitin_pipeline_solved')
        info['solver'] = verdict
        if verdict is not None and not viol and not sv and (verdict == 'satisfiable') != fsat:
            # cannot happen when both equisat and verdict oracles held; kept as an end-to-end cross-check
            ctx.violation('PIPELINE:verdict-differs-from-formula', 'solve_cnf(tseitin(%s)) = %s but the formula is %ssatisfiable'
                          % (fstr(f), verdict, '' if fsat else 'un'), {'kind': 'formula', 'formula': f, 'hashseed': hashseed_env(), 'from': kind})
    info['violations'] = [m for m, _ in viol]
    ctx.case(('formula', f), nontrivial=fsize(f) >= 2, sample=info if sample else None)


HOSTILE = [0]


def hostile_formula(rng):
    """every atom is named like a variable the encoding introduces, with indices around the places where a numbering
    scheme can go wrong: one digit next to two digits (x9 / x10: '9' > '10' as strings), leading zeros, gaps, and an
    atom that sorts first; all atoms occur in the formula"""
    d = rng.choice([2, 5, 8, 9, 9, 9])
    m = rng.choice([10, 10, 10, 11, 12, 20, 100])
    small = rng.choice(['x1', 'x1', 'x0', 'x01', 'x', 'x3', 'a'])
    atoms = list(dict.fromkeys([small, 'x%d' % d, 'x%d' % m] + ([rng.choice(['x2', 'x4', 'x13', 'y1'])] if rng.random() < 0.3 else [])))
    rng.shuffle(atoms)
    HOSTILE[0] += 1
    kind = rng.random()
    f = gen_formula(rng, atoms, rng.randint(1, 5))
    for a in atoms:
        if a not in fatoms(f) or kind < 0.5:
            lit = ('atom', a) if rng.random() < 0.5 else ('not', ('atom', a))
            f = ('and', f, lit) if rng.random() < 0.5 else ('and', lit, f)
    return f, 'hostile-names'


def rand_formula(rng):
    r = rng.random()
    hostile_names = rng.random() < 0.2
    if not hostile_names:
        pool = ['a', 'b', 'c', 'd']
    elif rng.random() < 0.4:
        pool = rng.choice([['x1', 'a', 'b'], ['x2', 'x1', 'a'], ['a', 'x3', 'b', 'x1']])
    else:
        # atoms named like the variables the encoding introduces (x<i>): one- and two-digit indices, leading zeros,
        # gaps - whatever numbering scheme picks the fresh names must avoid all of them
        fam = ['x0', 'x1', 'x2', 'x3', 'x5', 'x8', 'x9', 'x10', 'x11', 'x12', 'x19', 'x20', 'x01', 'x010', 'x100', 'x', 'x1a', 'y1']
        pool = rng.sample(fam, rng.randint(2, 4))
        if rng.random() < 0.5 and 'x10' not in pool:
            pool[rng.randrange(len(pool))] = 'x10'
        if rng.random() < 0.5 and 'x9' not in pool:
            pool[rng.randrange(len(pool))] = 'x9'
        pool = list(dict.fromkeys(pool))
    atoms = pool[:rng.randint(1, len(pool))] if not hostile_names else pool
    if hostile_names:
        HOSTILE[0] += 1
    if r < 0.40:
        return gen_formula(rng, atoms, rng.randint(0, 12)), 'random'
    if r < 0.65:
        # negated law: ~(f <-> f') / ~(f --> f') with f' equivalent to f : unsatisfiable by construction
        f = gen_formula(rng, atoms, rng.randint(1, 4))
        g = rewrite_equiv(rng, f)
        return ('not', (rng.choice(['eq', 'imp']), f, g)), 'negated-law'
    if r < 0.90:
        # f pinned to one valuation of its atoms: satisfiable iff f is true there
        f = gen_formula(rng, atoms, rng.randint(1, 7))
        for a in fatoms(f):
            lit = ('atom', a) if rng.random() < 0.5 else ('not', ('atom', a))
            f = ('and', f, lit) if rng.random() < 0.5 else ('and', lit, f)
        return f, 'pinned'
    f = gen_formula(rng, atoms, rng.randint(1, 5))
    return ('and', f, ('not', rewrite_equiv(rng, f))), 'contradiction'


# ====================================================================== replay in the right hash seed
def run_witness(ctx, w):
    if w.get('kind') == 'formula':
        do_formula(ctx, from_json_formula(w['formula']), w.get('from', 'replay'), sample=True)
    else:
        do_cnf(ctx, w['cnf'], w.get('from', 'replay'), sample=True)


def replay(ctx, w):
    want = str(w.get('hashseed', ''))
    if want and want != hashseed_env() and want != 'random':
        # the decision order depends on the string hash seed: re-execute in a child that has the recorded one
        env = dict(os.environ)
        env['PYTHONHASHSEED'] = want
        p = subprocess.run([sys.executable, '-m', 'vf.props.c15', json.dumps(w)], env=env, stdout=subprocess.PIPE,
                           stderr=subprocess.PIPE, timeout=600)
        try:
            d = json.loads(p.stdout.decode('utf-8').strip().splitlines()[-1])
        except Exception:
            ctx.note('replay child failed: ' + p.stderr.decode('utf-8', 'replace')[-800:])
            return
        for k, n in d['counters'].items():
            if k != 'violations_raw':
                ctx.count(k, n)
        for v in d['violations']:
            ctx.violation(v['mech'], v['desc'], v['witness'])
        for s in d['samples']:
            ctx.case('replay', sample=s)
        ctx.note('replayed in a child with PYTHONHASHSEED=%s' % want)
        return
    prepare(ctx)
    run_witness(ctx, w)


def prepare(ctx):
    from logic import basic
    basic.load_theory('sat')
    calibrate(ctx)
    MON.install()
    if MON.missing:
        ctx.note('closures not found in solve_cnf: %r (hook counters will be 0)' % (MON.missing,))


# ====================================================================== shard entry
def run_shard(ctx, spec):
    if 'replay' in spec:
        replay(ctx, spec['replay']['witness'])
        return
    prepare(ctx)
    rng = ctx.rng
    kind = spec['kind']
    ctx.count('hashseed:' + hashseed_env())
    if kind == 'exh':
        CL = clause_space(spec['nv'])
        tag = 'exh%d' % spec['nv']
        parts, part, stride = spec['parts'], spec['part'], spec.get('rec', 1)
        k = 0
        for nc in range(0, spec['maxc'] + 1):
            if nc == 0:
                firsts = [None] if part == 0 else []
            else:
                firsts = [c for i0, c in enumerate(CL) if i0 % parts == part]
            for c0 in firsts:
                for rest in (itertools.product(CL, repeat=nc - 1) if nc else [()]):
                    combo = ((c0,) + rest) if nc else ()
                    k += 1
                    do_cnf(ctx, combo, tag, sample=(k % 20011 == 7), record=(k % stride == 0))
        ctx.count(tag + '_cases', k)
        ctx.count(tag + '_parts_done')
        ctx.count('%s_maxclauses_%d_parts_done' % (tag, spec['maxc']))
    elif kind == 'exh_sample':
        CL = clause_space(spec['nv'])
        tag = 'exh%d' % spec['nv']
        for k in range(spec['count']):
            combo = tuple(rng.choice(CL) for _ in range(spec['nc']))
            if rng.random() < 0.3:
                combo = tuple(tuple(rng.sample(c, len(c))) for c in combo)     # literal order inside clauses
            do_cnf(ctx, combo, tag + ':sample', sample=(k == 0))
    elif kind == 'random':
        do_cnf(ctx, [], 'random')
        do_cnf(ctx, [[]], 'random')
        do_cnf(ctx, [[('x', True)], [('x', False)]], 'random')
        for k in range(spec['count']):
            do_cnf(ctx, rand_cnf(rng), 'random', sample=(k == 0 and spec['i'] < 2))
    elif kind == 'tseitin':
        for k in range(spec['count']):
            f, fk = rand_formula(rng) if k % 3 else hostile_formula(rng)
            ctx.count('formula_kind:' + fk)
            do_formula(ctx, f, fk, sample=(k < 1))


def coverage_extra(counters, tier):
    full2 = counters.get('exh2_maxclauses_4_parts_done', 0) >= 12
    full3 = counters.get('exh3_maxclauses_4_parts_done', 0) >= 84
    return {'exhaustive': bool(counters.get('exh2_parts_done')),
            'exhaustive_scope': ('all ordered CNFs (clause = multiset of <= 3 literals): 2 variables <= %d clauses (%d CNFs), '
                                 '3 variables <= %d clauses (%d CNFs); larger clause counts of these spaces sampled uniformly'
                                 % (4 if full2 else 3, counters.get('exh2_cases', 0), 4 if full3 else 2, counters.get('exh3_cases', 0))),
            'hash_seeds_used': len([k for k in counters if k.startswith('hashseed:')])}


if __name__ == '__main__':
    # child of replay(): run one witness under the PYTHONHASHSEED of the environment, print the ctx dump
    from vf import core
    core.setup_repo()
    os.chdir(core.REPO)
    _ctx = core.Ctx(ID, 'quick', 0, {})
    prepare(_ctx)
    run_witness(_ctx, json.loads(sys.argv[1]))
    print(json.dumps(_ctx.dump(), default=str))
