"""C05 - trusted (level-0) arithmetic steps assert only true facts.

Monitor: theory.check_proof of a one-step proof invoking the macro on a generated goal (acceptance =
the checker returns a sequent); oracle: vf.arith (declared-type exact / 80-digit evaluator) applied to
the RETURNED sequent.  Soundness only: a violation is an accepted statement that is definitely false.
"""
from fractions import Fraction
from vf import shadow as S, arith as A

ID = 'C05'
LEVEL = 'exploration'
RULE = ('case = one goal term given to one level-0 arithmetic macro (nat_eval, int_eval, int_const_ineq, real_eval, '
        'real_const_eq, real_compare, real_const_ineq, real_norm, real_eq_comparison, const_inequality) through a one-step '
        'proof and theory.check_proof(check_level=0); goals: ground expressions at nat/int/real (also at types the macro is '
        'not meant for), candidate right-hand sides computed under correct, truncating and non-truncating semantics and '
        'off-by-one, zero divisors, rational and negative-base powers, float-ulp neighbours, transcendental constants, '
        'polynomial identities with variables; distinct = hash of (macro, goal shadow); non-trivial = goal size >= 5')
ASSUMPTIONS = ['standard meaning of numerals/operators as in vf/arith.py (nat minus truncates, x/0 = 0, real power and sqrt '
               'as defined in library/transcendentals.json and real.json)',
               'irrational values decided with mpmath at 80 digits and a 1e-45 margin; closer comparisons are inconclusive',
               'identities with variables are refuted by exact evaluation at random rational points, never proved']
MACROS = ['nat_eval', 'int_eval', 'int_const_ineq', 'real_eval', 'real_const_eq', 'real_compare', 'real_const_ineq',
          'real_norm', 'real_eq_comparison', 'const_inequality']
REQUIRED = {'quick': dict({'accepted:' + m: 30 for m in MACROS}, judged_true=2000, alloc_reuse_same_address=2000),
            'thorough': dict({'accepted:' + m: 500 for m in MACROS}, judged_true=40000, alloc_reuse_same_address=40000)}
INTENDED = {'nat_eval': S.NAT, 'int_eval': S.INT, 'int_const_ineq': S.INT, 'real_eval': S.REAL, 'real_const_eq': S.REAL,
            'real_compare': S.REAL, 'real_const_ineq': S.REAL, 'real_norm': S.REAL, 'real_eq_comparison': S.REAL,
            'const_inequality': S.REAL}
RELS = ['less', 'less_eq', 'greater', 'greater_eq']
WHOLE = [0]


def shards(tier, seed):
    n = 16 if tier == 'quick' else 64
    per = 160 if tier == 'quick' else 1500
    return [{'i': i, 'rounds': per} for i in range(n)]


# ------------------------------------------------------------------ expression generator
def gen_num(rng, T, hostile=True, small=False):
    r = rng.random() * (0.9 if small else 1.0)
    if T == S.NAT:
        v = rng.choice([0, 1, 2, 3, 5, 7, 10, rng.randrange(0, 40)]) if r < 0.93 else rng.choice([10 ** 18 + 1, 2 ** 64])
        return A.num(T, v)
    if T == S.INT:
        v = rng.choice([0, 1, -1, 2, -3, 5, rng.randrange(-30, 30)]) if r < 0.93 else rng.choice([10 ** 18, -2 ** 64 - 1])
        return A.num(T, v)
    if r < 0.55:
        return A.num(T, rng.randrange(-12, 13))
    if r < 0.9:
        return A.num(T, Fraction(rng.randrange(-20, 21), rng.choice([2, 3, 4, 5, 7, 10])))
    return A.num(T, rng.choice([Fraction(10 ** 17 + 1, 10 ** 17), Fraction(1, 3 ** 30), 2 ** 70 + 1]))


def gen_expr(rng, T, depth, transc=False, vars_=None):
    if depth <= 0 or rng.random() < 0.12:
        if vars_ and rng.random() < 0.6:
            cand = [v for v in vars_ if v[2] == T]
            if cand:
                return rng.choice(cand)
        if transc and T == S.REAL and rng.random() < 0.25:
            return A.c('pi', S.REAL)
        return gen_num(rng, T)
    g = lambda TT, d=depth - 1: gen_expr(rng, TT, d, transc, vars_)
    if T == S.NAT:
        op = rng.choice(['plus', 'minus', 'minus', 'times', 'power', 'Suc'])
        if op == 'Suc':
            return ('comb', A.c('Suc', S.fun(T, T)), g(T))
        if op == 'power':
            return S.mk_comb(A.c('power', S.funs(T, S.NAT, T)), g(T, 0), A.num(S.NAT, rng.randrange(0, 4)))
        return A.binop(op, T, g(T), g(T))
    if T == S.INT:
        op = rng.choice(['plus', 'minus', 'minus', 'times', 'uminus', 'power', 'of_nat'])
        if op == 'uminus':
            return ('comb', A.c('uminus', S.fun(T, T)), g(T))
        if op == 'power':
            return S.mk_comb(A.c('power', S.funs(T, S.NAT, T)), g(T, 0), A.num(S.NAT, rng.randrange(0, 4)))
        if op == 'of_nat':
            return ('comb', A.c('of_nat', S.fun(S.NAT, T)), g(S.NAT))
        return A.binop(op, T, g(T), g(T))
    ops = ['plus', 'minus', 'minus', 'times', 'uminus', 'real_divide', 'real_divide', 'real_inverse', 'npower', 'rpower',
           'of_nat', 'of_int']
    if transc:
        ops += ['sqrt', 'sqrt', 'exp', 'log', 'sin', 'cos', 'abs', 'atn']
    op = rng.choice(ops)
    if op in ('uminus', 'real_inverse', 'sqrt', 'exp', 'log', 'sin', 'cos', 'abs', 'atn'):
        return ('comb', A.c(op, S.fun(T, T)), g(T))
    if op == 'npower':
        e = gen_num(rng, S.NAT, small=True) if rng.random() < 0.8 else A.binop(rng.choice(['plus', 'minus']), S.NAT, gen_num(rng, S.NAT, small=True), gen_num(rng, S.NAT, small=True))
        return S.mk_comb(A.c('power', S.funs(T, S.NAT, T)), g(T, rng.choice([0, 0, 1])), e)
    if op == 'rpower':
        e = rng.choice([A.num(T, x) for x in (0, 1, 2, 3, -1, -2, Fraction(1, 2), Fraction(1, 3), Fraction(2, 3),
                                               Fraction(-1, 2), Fraction(3, 2), Fraction(1, 4))])
        return S.mk_comb(A.c('power', S.funs(T, T, T)), g(T, rng.choice([0, 0, 1])), e)
    if op == 'of_nat':
        return ('comb', A.c('of_nat', S.fun(S.NAT, T)), g(S.NAT))
    if op == 'of_int':
        return ('comb', A.c('of_int', S.fun(S.INT, T)), g(S.INT))
    return A.binop(op, T, g(T), g(T))


def alt_eval(s, trunc):
    """type-blind evaluation: minus truncating everywhere (trunc) or nowhere; None if not applicable"""
    try:
        k = s[0]
        if k == 'const':
            return {'zero': Fraction(0), 'one': Fraction(1)}.get(s[1])
        h, args = S.strip_comb(s)
        n = h[1]
        if n in ('bit0', 'bit1'):
            v = A.binary(s)
            return None if v is None else Fraction(v)
        if n in ('of_nat', 'of_int') and len(args) == 1:
            b = A.binary(args[0])
            return Fraction(b) if b is not None else alt_eval(args[0], trunc)
        vals = [alt_eval(a, trunc) for a in args]
        if any(v is None for v in vals):
            return None
        if n == 'plus':
            return vals[0] + vals[1]
        if n == 'times':
            return vals[0] * vals[1]
        if n == 'minus':
            d = vals[0] - vals[1]
            return max(Fraction(0), d) if trunc else d
        if n == 'uminus':
            return -vals[0]
        if n == 'Suc':
            return vals[0] + 1
        if n == 'real_divide':
            return Fraction(0) if vals[1] == 0 else vals[0] / vals[1]
        if n == 'power' and vals[1].denominator == 1 and 0 <= vals[1] < 50:
            return vals[0] ** int(vals[1])
    except Exception:
        return None
    return None


def numeral_ok(T, v):
    if v is None:
        return False
    if T == S.NAT:
        return v.denominator == 1 and v >= 0
    if T == S.INT:
        return v.denominator == 1
    return True


def candidates(rng, T, e):
    """right-hand-side values likely to be accepted: true value and values under wrong semantics"""
    vals = []
    try:
        tv = A.ev(e)
        if tv.q is not None:
            vals += [tv.q, tv.q, tv.q + 1, tv.q - 1]
    except Exception:
        pass
    vals += [alt_eval(e, True), alt_eval(e, False)]
    vals = [v for v in vals if numeral_ok(T, v) and abs(v) < 10 ** 60]
    return vals


def pick_type(rng, intended):
    r = rng.random()
    if r < 0.6:
        return intended
    return rng.choice([S.NAT, S.INT, S.REAL])


# ------------------------------------------------------------------ goal builders
def goal_eval(rng, macro):
    T = pick_type(rng, INTENDED[macro])
    e = gen_expr(rng, T, rng.choice([1, 2, 2, 3]))
    cs = candidates(rng, T, e)
    if not cs:
        return None
    rhs = A.num(T, rng.choice(cs))
    if rng.random() < 0.15:
        e2 = gen_expr(rng, T, 2)
        return A.rel('equals', T, e, e2)
    return A.rel('equals', T, e, rhs)


def goal_compare(rng, macro, transc=False):
    T = pick_type(rng, INTENDED[macro])
    a = gen_expr(rng, T, rng.choice([0, 1, 2, 2]), transc and T == S.REAL)
    r = rng.random()
    if r < 0.35:
        b = gen_expr(rng, T, rng.choice([0, 1, 2]), transc and T == S.REAL)
    else:
        cs = candidates(rng, T, a)
        if not cs:
            return None
        b = A.num(T, rng.choice(cs))
    relname = rng.choice(RELS + (['equals'] if macro in ('int_const_ineq', 'real_const_ineq', 'real_const_eq', 'const_inequality') else []))
    p = A.rel(relname, T, a, b) if rng.random() < 0.5 else A.rel(relname, T, b, a)
    if macro in ('int_const_ineq', 'real_const_ineq') and rng.random() < 0.3:
        p = A.neg_p(p)
    if macro == 'const_inequality' and relname == 'equals' and rng.random() < 0.5:
        p = A.neg_p(p)
    return p


def float_neighbour_goal(rng, macro):
    """irrational constant compared with / equated to the exact rational value of its Python float"""
    import math
    T = S.REAL
    base = rng.choice([2, 3, 5, 7, Fraction(1, 2), 10])
    p, q = rng.choice([(1, 2), (1, 3), (2, 3), (3, 2), (-1, 2), (1, 4)])
    t = S.mk_comb(A.c('power', S.funs(T, T, T)), A.num(T, base), A.num(T, Fraction(p, q)))
    fl = float(base) ** (p / q)
    kind = rng.random()
    if macro == 'const_inequality' and kind < 0.5:
        x = rng.choice([2, 3, 5])
        t = ('comb', A.c('sqrt', S.fun(T, T)), A.num(T, x))
        fl = math.sqrt(x)
        if rng.random() < 0.5:
            sq = A.binop('times', T, t, t)
            fls = fl * fl
            if fls != x:
                return A.neg_p(A.rel('equals', T, sq, A.num(T, x))) if rng.random() < 0.5 else \
                    A.rel('greater' if fls > x else 'less', T, sq, A.num(T, x))
    r = A.num(T, Fraction(fl))
    if macro == 'real_norm':
        return A.rel('equals', T, t, r)
    relname = rng.choice(['equals', 'less_eq', 'greater_eq'])
    return A.rel(relname, T, t, r)


def of_nat_trunc_goal(rng):
    """of_nat around a nat expression whose inner subtraction truncates and feeds another operator, next to an
    irrational constant (so that the approximate evaluation path is taken)"""
    T = S.REAL
    n = lambda v: A.num(S.NAT, v)
    a, b, c_ = rng.randrange(0, 6), rng.randrange(3, 12), rng.randrange(1, 9)
    inner = A.binop(rng.choice(['plus', 'times']), S.NAT, A.binop('minus', S.NAT, n(a), n(b)), n(c_))
    if rng.random() < 0.4:
        inner = A.binop('minus', S.NAT, n(b + c_), A.binop('minus', S.NAT, n(a), n(b)))
    on = ('comb', A.c('of_nat', S.fun(S.NAT, T)), inner)
    irr = rng.choice([('comb', A.c('sqrt', S.fun(T, T)), A.num(T, rng.choice([2, 3, 5]))), A.c('pi', T)])
    lhs = A.binop(rng.choice(['plus', 'times']), T, on, irr)
    try:
        v = A.ev(lhs)
    except Exception:
        return None
    k = int(v.f) + rng.choice([-2, -1, 0, 1, 2])
    return A.rel(rng.choice(['less', 'less_eq', 'greater', 'greater_eq']), T, lhs, A.num(T, k))


def trig_goal(rng):
    T = S.REAL
    pi = A.c('pi', T)
    k = rng.choice([1, 2, 3])
    arg = A.binop('times', T, A.num(T, k), pi) if k != 1 else pi
    f = rng.choice(['sin', 'sin', 'cos'])
    t = ('comb', A.c(f, S.fun(T, T)), arg if f == 'sin' else A.binop('real_divide', T, arg, A.num(T, 2)))
    relname = rng.choice(['greater', 'less', 'equals', 'less_eq', 'greater_eq'])
    p = A.rel(relname, T, t, A.num(T, 0))
    if relname == 'equals' and rng.random() < 0.5:
        p = A.neg_p(p)
    return p


# polynomials for real_norm
def poly_of(s, env_vars):
    """dict monomial(tuple of sorted var names) -> Fraction, or None if not a polynomial expression"""
    k = s[0]
    if k == 'var':
        return {(s[1],): Fraction(1)}
    try:
        v = A.ev(s)
        if v.q is not None and not S.atoms(s):
            return {(): v.q}
    except Exception:
        pass
    h, args = S.strip_comb(s)
    if h[0] != 'const':
        return None
    n = h[1]
    ps = [poly_of(a, env_vars) for a in args]

    def addp(a, b, sign=1):
        r = dict(a)
        for m, c_ in b.items():
            r[m] = r.get(m, 0) + sign * c_
        return {m: c_ for m, c_ in r.items() if c_ != 0}

    def mulp(a, b):
        r = {}
        for m1, c1 in a.items():
            for m2, c2 in b.items():
                m = tuple(sorted(m1 + m2))
                r[m] = r.get(m, 0) + c1 * c2
        return {m: c_ for m, c_ in r.items() if c_ != 0}
    if n == 'plus' and None not in ps:
        return addp(ps[0], ps[1])
    if n == 'minus' and None not in ps:
        return addp(ps[0], ps[1], -1)
    if n == 'uminus' and None not in ps:
        return addp({}, ps[0], -1)
    if n == 'times' and None not in ps:
        return mulp(ps[0], ps[1])
    if n == 'power' and ps[0] is not None and h[2][2][1][2][0] == S.NAT:
        e = A.binary(args[1][2]) if args[1][0] == 'comb' else {'zero': 0, 'one': 1}.get(args[1][1])
        if e is None or e > 4:
            return None
        r = {(): Fraction(1)}
        for _ in range(e):
            r = mulp(r, ps[0])
        return r
    if n == 'real_divide' and ps[0] is not None and ps[1] is not None and list(ps[1].keys()) == [()] and ps[1][()] != 0:
        return {m: c_ / ps[1][()] for m, c_ in ps[0].items()}
    return None


def poly_to_expr(rng, p, T):
    terms = []
    items = list(p.items())
    rng.shuffle(items)
    for m, c_ in items:
        fac = [('var', v, T) for v in m]
        rng.shuffle(fac)
        t = None
        for f in fac:
            t = f if t is None else A.binop('times', T, t, f)
        if t is None:
            t = A.num(T, c_)
        elif c_ != 1:
            t = A.binop('times', T, A.num(T, c_), t)
        terms.append(t)
    if not terms:
        return A.num(T, 0)
    r = terms[0]
    for t in terms[1:]:
        r = A.binop('plus', T, r, t)
    return r


def goal_real_norm(rng):
    T = S.REAL
    r = rng.random()
    if r < 0.15:
        return float_neighbour_goal(rng, 'real_norm')
    vars_ = [('var', 'x', T), ('var', 'y', T), ('var', 'z', T)]
    if r < 0.3:
        # hostile shapes: division by a variable, nat subtraction under of_nat, powers
        x, y = vars_[0], vars_[1]
        n, m = ('var', 'n', S.NAT), ('var', 'm', S.NAT)
        on = lambda t: ('comb', A.c('of_nat', S.fun(S.NAT, T)), t)
        pool = [A.rel('equals', T, A.binop('real_divide', T, A.binop('times', T, x, y), y), x),
                A.rel('equals', T, A.binop('real_divide', T, x, x), A.num(T, 1)),
                A.rel('equals', T, A.binop('plus', T, on(A.binop('minus', S.NAT, n, m)), on(m)), on(n)),
                A.rel('equals', T, on(A.binop('minus', S.NAT, A.binop('plus', S.NAT, n, m), m)), on(n)),
                A.rel('equals', T, A.binop('times', T, x, ('comb', A.c('real_inverse', S.fun(T, T)), x)), A.num(T, 1)),
                A.rel('equals', T, S.mk_comb(A.c('power', S.funs(T, T, T)), S.mk_comb(A.c('power', S.funs(T, T, T)), x, A.num(T, 2)), A.num(T, Fraction(1, 2))), x),
                A.rel('equals', T, A.binop('minus', T, A.binop('real_divide', T, x, A.num(T, 0)), A.binop('real_divide', T, x, A.num(T, 0))), A.num(T, 0)),
                A.rel('equals', T, A.binop('times', T, A.num(T, 0), A.binop('real_divide', T, x, y)), A.num(T, 0))]
        if rng.random() < 0.5:
            # nat subtraction that mixes a variable part and numerals, under of_nat: (p + a) - b with a < b is NOT
            # p + (a - b) = p; the claims below are what a normaliser gets when it truncates only the numeral part,
            # treats the subtraction as an integer one, or moves the numeral across
            nn = lambda v: A.num(S.NAT, v)
            pv = rng.choice([n, m, A.binop('plus', S.NAT, n, m), A.binop('times', S.NAT, nn(2), m)])
            a_, b_ = rng.randrange(0, 4), rng.randrange(1, 6)
            lhs_n = A.binop('minus', S.NAT, A.binop('plus', S.NAT, pv, nn(a_)), nn(b_))
            claims = [pv, A.binop('plus', S.NAT, pv, A.binop('minus', S.NAT, nn(a_), nn(b_))),
                      A.binop('plus', S.NAT, A.binop('minus', S.NAT, pv, nn(b_)), nn(a_)),
                      A.binop('minus', S.NAT, pv, nn(max(b_ - a_, 0))), lhs_n]
            rhs_n = rng.choice(claims)
            l_, r_ = on(lhs_n), on(rhs_n)
            if rng.random() < 0.6:
                l_, r_ = A.binop('plus', T, l_, x), A.binop('plus', T, r_, x)
            return A.rel('equals', T, l_, r_) if rng.random() < 0.5 else A.rel('equals', T, r_, l_)
        return rng.choice(pool)
    e = gen_expr(rng, T, rng.choice([2, 3]), False, vars_)
    p = poly_of(e, vars_)
    if p is None:
        return A.rel('equals', T, e, gen_expr(rng, T, 2, False, vars_))
    if rng.random() < 0.35 and p:
        m = rng.choice(list(p))
        p = dict(p)
        p[m] = p[m] + rng.choice([1, -1, Fraction(1, 2)])
    rhs = poly_to_expr(rng, p, T)
    return A.rel('equals', T, e, rhs) if rng.random() < 0.7 else A.rel('equals', T, rhs, e)


def goal_eq_comparison(rng):
    T = S.REAL
    vars_ = [('var', 'x', T), ('var', 'y', T)]

    def lin():
        t = A.binop('times', T, A.num(T, rng.randrange(-4, 5)), rng.choice(vars_))
        if rng.random() < 0.7:
            t = A.binop(rng.choice(['plus', 'minus']), T, t, A.binop('times', T, A.num(T, rng.randrange(-4, 5)), rng.choice(vars_)))
        if rng.random() < 0.7:
            t = A.binop('plus', T, t, A.num(T, rng.randrange(-5, 6)))
        return t
    a, b = lin(), lin()
    r1 = rng.choice(RELS)
    flip = {'less': 'greater', 'less_eq': 'greater_eq', 'greater': 'less', 'greater_eq': 'less_eq'}
    k = rng.choice([-3, -2, -1, 2, 3, Fraction(1, 2)])
    kind = rng.random()
    lhs = A.rel(r1, T, a, b)
    if kind < 0.4:
        r2 = (flip[r1] if k < 0 else r1) if rng.random() < 0.7 else (r1 if k < 0 else flip[r1])
        rhs = A.rel(r2, T, A.binop('times', T, A.num(T, k), a), A.binop('times', T, A.num(T, k), b))
    elif kind < 0.7:
        rhs = A.rel(r1 if rng.random() < 0.7 else flip[r1], T, A.binop('minus', T, a, b), A.num(T, 0))
    else:
        rhs = A.rel(rng.choice(RELS), T, lin(), lin())
    return A.rel('equals', S.BOOL, lhs, rhs)


def whole_double_goal(rng):
    """an irrational value whose DOUBLE is a whole number: an integer plus an irrational perturbation far below one
    ulp (sqrt 2 / 10^20 + 1), or an irrational constant above 2^53 (10^20 * sqrt 2, exp 40) compared with the integer
    its double happens to be.  Any decision procedure that looks at the double sees an exact-looking integer."""
    import math
    T = S.REAL
    irr_s, irr_f = rng.choice([(('comb', A.c('sqrt', S.fun(T, T)), A.num(T, 2)), math.sqrt(2)),
                               (('comb', A.c('sqrt', S.fun(T, T)), A.num(T, 3)), math.sqrt(3)),
                               (A.c('pi', T), math.pi),
                               (('comb', A.c('exp', S.fun(T, T)), A.num(T, 1)), math.e)])
    pw = lambda k: S.mk_comb(A.c('power', S.funs(T, S.NAT, T)), A.num(T, 10), A.num(S.NAT, k))
    if rng.random() < 0.55:
        k, n = rng.randrange(17, 26), rng.choice([1, 2, 3, 7, 10])
        lhs = A.binop('plus', T, A.binop('real_divide', T, irr_s, pw(k)), A.num(T, n))
        rel = rng.choice(['equals', 'less_eq', 'less', 'greater', 'greater_eq', 'nequals'])
        rhs = A.num(T, n)
    elif rng.random() < 0.7:
        k = rng.randrange(17, 23)
        lhs = A.binop('times', T, pw(k), irr_s)
        fl = float(10 ** k) * irr_f
        rhs = A.num(T, int(fl))
        rel = rng.choice(['equals', 'less_eq', 'greater_eq', 'nequals'])
    else:
        e_ = rng.randrange(38, 46)
        lhs = ('comb', A.c('exp', S.fun(T, T)), A.num(T, e_))
        rhs = A.num(T, int(math.exp(e_)))
        rel = rng.choice(['equals', 'less_eq', 'greater_eq', 'nequals'])
    if rng.random() < 0.5 and rel not in ('equals', 'nequals'):
        lhs, rhs = rhs, lhs
    if rel == 'nequals':
        return A.neg_p(A.rel('equals', T, lhs, rhs))
    return A.rel(rel, T, lhs, rhs)


def make_goal(rng, macro):
    if macro in ('nat_eval', 'int_eval', 'real_eval'):
        return goal_eval(rng, macro)
    if macro in ('int_const_ineq', 'real_const_ineq', 'real_compare', 'real_const_eq'):
        if macro != 'int_const_ineq' and rng.random() < 0.1:
            return float_neighbour_goal(rng, macro)
        return goal_compare(rng, macro)
    if macro == 'const_inequality':
        r = rng.random()
        if r < 0.1:
            WHOLE[0] += 1
            return whole_double_goal(rng)
        if r < 0.25:
            return float_neighbour_goal(rng, macro)
        if r < 0.35:
            return trig_goal(rng)
        if r < 0.5:
            return of_nat_trunc_goal(rng)
        return goal_compare(rng, macro, transc=True)
    if macro == 'real_norm':
        return goal_real_norm(rng)
    if macro == 'real_eq_comparison':
        return goal_eq_comparison(rng)


# ------------------------------------------------------------------ judging
def has_transc(s):
    if s[0] == 'const':
        return s[1] in ('pi', 'sqrt', 'exp', 'log', 'sin', 'cos', 'tan', 'atn')
    if s[0] == 'comb':
        return has_transc(s[1]) or has_transc(s[2])
    return False


def has_rpower(s):
    if s[0] == 'comb':
        h, args = S.strip_comb(s)
        if h[0] == 'const' and h[1] == 'power' and h[2] == S.funs(S.REAL, S.REAL, S.REAL):
            return True
        return has_rpower(s[1]) or has_rpower(s[2])
    return False


def goal_type(goal):
    g = goal
    h, args = S.strip_comb(g)
    if h[0] == 'const' and h[1] == 'neg' and args:
        h, args = S.strip_comb(args[0])
    if h[0] == 'const' and h[2][0] == 'tc' and h[2][1] == 'fun':
        return h[2][2][0]
    return None


def sides_within_float_noise(goal):
    h, args = S.strip_comb(goal)
    if h[0] == 'const' and h[1] == 'neg' and args:
        h, args = S.strip_comb(args[0])
    if len(args) != 2:
        return False
    try:
        a, b = A.ev(args[0]), A.ev(args[1])
    except Exception:
        return False
    d = abs(a.f - b.f)
    return d <= 1e-9 * (1 + abs(a.f) + abs(b.f))


def classify(macro, goal):
    gT = goal_type(goal)
    if gT is not None and gT != INTENDED[macro] and gT in (S.NAT, S.INT, S.REAL):
        return '%s:goal-at-unintended-type-%s' % (macro, gT[1])
    if has_transc(goal) or has_rpower(goal):
        # "float rounding" only when the two sides really are closer than double precision can separate;
        # a grossly wrong value is a different mechanism (and is not covered by the known finding)
        if sides_within_float_noise(goal):
            return '%s:float-rounding-on-irrational-constant' % macro
        return '%s:wrong-value-beyond-rounding' % macro
    if S.atoms(goal):
        return '%s:false-identity-with-variables' % macro
    return '%s:wrong-exact-arithmetic' % macro


def truth_with_vars(rng, prop, npoints=14):
    ats = S.atoms(prop)
    if not ats:
        return A.truth(prop), None
    seen_true = unknown = 0
    for i in range(npoints):
        env = {}
        for a in ats:
            if a[2] == S.NAT:
                env[a] = Fraction(rng.randrange(0, 7))
            elif a[2] == S.INT:
                env[a] = Fraction(rng.randrange(-6, 7))
            elif a[2] == S.REAL:
                env[a] = Fraction(rng.randrange(-12, 13), rng.choice([1, 1, 2, 3])) if i > 2 else Fraction([0, 1, -1][i])
            else:
                return None, None
        v = A.truth(prop, env)
        if v is False:
            return False, {S.tm_str(a): str(x) for a, x in env.items()}
        if v is True:
            seen_true += 1
        else:
            unknown += 1
    return (True if seen_true and not unknown else None), None


def run_one(ctx, rng, macro, goal, g=None):
    from kernel import theory
    from kernel.proof import Proof, ProofItem
    if g is None:
        g = S.to_repo_term(goal)
    prf = Proof()
    prf.items.append(ProofItem(0, macro, args=g))
    ctx.count('calls:' + macro)
    try:
        th = theory.thy.check_proof(prf, check_level=0)
    except Exception as e:
        ctx.count('rejected:' + macro)
        return
    ctx.count('accepted:' + macro)
    hy, pr = S.thm_shadow(th)
    if hy:
        ctx.count('accepted_with_hyps')
        return
    v, pt = truth_with_vars(rng, pr)
    if v is True:
        ctx.count('judged_true')
    elif v is None:
        ctx.count('inconclusive:' + macro)
    else:
        mech = classify(macro, goal)
        ctx.violation(mech, '%s accepted goal %s and asserted %s, which is false%s' % (
            macro, S.tm_str(goal), S.tm_str(pr), (' at ' + str(pt)) if pt else ''),
            {'macro': macro, 'goal': S.jsonable(goal), 'point': pt})


def exact_zero_goal(rng):
    """-> (goal, truth, shape): a constant that is EXACTLY zero by an identity the floating-point evaluation cannot see
    (sin (k pi), cos ((2k+1) pi / 2), sqrt n * sqrt n - n, scaled / added up) compared with 0 or with another such
    constant.  The float value of such a term is noise of either sign around 1e-16, so a comparison that is relative
    only (no absolute floor) reads a strict sign off the noise.  Truth is known by construction: 0 rel 0."""
    T = S.REAL
    pi = A.c('pi', T)

    def zero():
        k = rng.random()
        if k < 0.35:
            m = rng.choice([1, 2, 3, 4])
            arg = A.binop('times', T, A.num(T, m), pi) if m != 1 else pi
            return ('comb', A.c('sin', S.fun(T, T)), arg), 'sin-k-pi'
        if k < 0.6:
            m = rng.choice([1, 3, 5])
            arg = A.binop('times', T, A.num(T, m), pi) if m != 1 else pi
            return ('comb', A.c('cos', S.fun(T, T)), A.binop('real_divide', T, arg, A.num(T, 2))), 'cos-odd-half-pi'
        n = rng.choice([2, 3, 5, 7])
        sq = ('comb', A.c('sqrt', S.fun(T, T)), A.num(T, n))
        return A.binop('minus', T, A.binop('times', T, sq, sq), A.num(T, n)), 'sqrt-n-squared-minus-n'

    z, shape = zero()
    r = rng.random()
    if r < 0.2:
        z = A.binop('times', T, A.num(T, rng.choice([2, 3, -2, Fraction(1, 2)])), z)
        shape += '*c'
    elif r < 0.35:
        z2, sh2 = zero()
        z = A.binop('plus', T, z, z2)
        shape += '+' + sh2
    other = A.num(T, 0)
    if rng.random() < 0.15:
        other, sh2 = zero()
        shape += ' vs ' + sh2
    relname = rng.choice(['greater', 'less', 'greater', 'less', 'greater_eq', 'less_eq', 'equals', 'nequals'])
    a, b = (z, other) if rng.random() < 0.6 else (other, z)
    if relname == 'nequals':
        return A.neg_p(A.rel('equals', T, a, b)), False, shape
    return A.rel(relname, T, a, b), relname in ('greater_eq', 'less_eq', 'equals'), shape


def run_exact_zero(ctx, rng):
    """directed family: the accepted statement is judged by construction (the numeric evaluator cannot decide 0 = 0)"""
    from kernel import theory
    from kernel.proof import Proof, ProofItem
    goal, truth, shape = exact_zero_goal(rng)
    macro = 'const_inequality'
    prf = Proof()
    prf.items.append(ProofItem(0, macro, args=S.to_repo_term(goal)))
    ctx.count('exact_zero_calls')
    try:
        th = theory.thy.check_proof(prf, check_level=0)
    except Exception:
        ctx.count('exact_zero_rejected')
        return
    hy, pr = S.thm_shadow(th)
    if hy or not S.aeq(pr, goal):
        ctx.count('exact_zero_accepted_as_another_statement')
        return
    ctx.count('exact_zero_accepted_true' if truth else 'exact_zero_accepted_false')
    if not truth:
        ctx.violation('const_inequality:strict-sign-read-off-float-noise-of-an-exact-zero',
                      'const_inequality accepted %s, but both sides are exactly equal (%s): the sign comes from rounding noise'
                      % (S.tm_str(goal), shape), {'macro': macro, 'goal': S.jsonable(goal), 'point': None, 'family': 'exact-zero'})
    ctx.case(('exact-zero', goal), nontrivial=True)


def alloc_reuse_case(ctx, rng, macro):
    """W-HIST: a goal is decided, every object of it is released, and a DIFFERENT goal of the same shape is built from
    parts that were allocated before - so that CPython hands the new goal the memory (and the id()) of the old one.
    A decision remembered under the identity of a goal object must not be served to another goal.  Both goals go
    through the ordinary judgement; the macros are stateless, so on a correct tree this is just two more cases."""
    from kernel.term import Comb
    goal = None
    for _ in range(6):
        try:
            gl = goal_compare(rng, macro) if macro != 'nat_eval' else None
        except Exception:
            gl = None
        if gl is None:
            continue
        h, args = S.strip_comb(gl)
        if h[0] == 'const' and h[1] in RELS + ['equals'] and len(args) == 2 and not S.aeq(args[0], args[1]):
            goal = gl
            break
    if goal is None:
        ctx.count('alloc_reuse_skipped')
        return
    h, (a, b) = S.strip_comb(goal)
    rel_t, a_t, b_t = S.to_repo_term(h), S.to_repo_term(a), S.to_repo_term(b)
    goal2 = S.mk_comb(h, b, a)
    # the inner applications are built beforehand: the root of each goal is then a single allocation
    order = [(goal, Comb(rel_t, a_t), b_t), (goal2, Comb(rel_t, b_t), a_t)]
    if rng.random() < 0.5:
        order.reverse()
    ctx.count('alloc_reuse_pairs')
    ids = []
    for sh, x, y in order:
        g = Comb(x, y)
        keep = []
        while ids and id(g) != ids[0] and len(keep) < 48:
            keep.append(g)                 # occupied blocks stay occupied: the allocator walks on through its free list
            g = Comb(x, y)
        del keep
        ids.append(id(g))
        run_one(ctx, rng, macro, sh, g=g)
        del g
    if ids[0] == ids[1]:
        ctx.count('alloc_reuse_same_address')
    ctx.case(('alloc', macro, goal), nontrivial=True)


def setup():
    from logic import basic
    basic.load_theory('real')
    import data.nat, data.integer, data.real   # noqa
    import integral.inequality                 # noqa: registers const_inequality
    basic.load_theory('real')
    from vf import core
    core.freeze()


def run_shard(ctx, spec):
    import warnings
    warnings.simplefilter('ignore')
    setup()
    rng = ctx.rng
    if 'replay' in spec:
        w = spec['replay']['witness']
        goal = S.from_json(w['goal'])
        run_one(ctx, rng, w['macro'], goal)
        ctx.case('replay', sample={'macro': w['macro'], 'goal': S.tm_str(goal, True)})
        return
    for k in range(spec['rounds']):
        for macro in MACROS:
            try:
                goal = make_goal(rng, macro)
            except A.Unknown:
                goal = None
            except (ZeroDivisionError, OverflowError, ValueError) as e:
                ctx.count('gen_error:' + type(e).__name__)
                goal = None
            if goal is None:
                ctx.count('gen_skipped')
                continue
            run_one(ctx, rng, macro, goal)
            if macro == 'const_inequality':
                run_exact_zero(ctx, rng)
            if k % 4 == 0:
                alloc_reuse_case(ctx, rng, macro)
            ctx.case((macro, goal), nontrivial=S.size(goal) >= 5,
                     sample={'macro': macro, 'goal': S.tm_str(goal)} if k == 0 and spec['i'] == 0 else None)
