"""C11 - definitional theory items are conservative and survive save/load/edit.

Monitor boundary: server.items.parse_item(data) -> .error / .get_extension() -> Theory.unchecked_extend, then
item.export_json() / item.get_display() -> items.parse_item / items.parse_edit, driven with the protocol of
server.monitor.check_theory (extend the theory, print under the new theory, parse back under the old one).

Oracles (vf/oracle_c11_sig.py, on shadows and plain data only):
  O1  accepted item of kind `def`: textbook side conditions of a conservative constant definition
  O2  accepted item of any kind: every generated extension is well-formed and well-typed over a signature that
      the harness builds itself from the history of observed extensions (cross-checked with the theory's tables)
  O3  parse_item(export_json(x)) and parse_edit(get_display(x)) compared with x field by field
  O4  accepted item of kind `type.ind`: <name>_induct is, modulo bound names, the structural induction theorem over the
      declared type (hypotheses exactly for the arguments of that type); directed family type.ind:non-uniform offers
      datatypes with an argument that is the datatype at another type instance (no hypothesis may be generated for it)
"""
import copy, io, json, contextlib
from vf import shadow as S
from vf import oracle_c11_sig as O
from vf import oracle_c11_gen as GEN

ID = 'C11'
LEVEL = 'exploration'
RULE = ('case = one item description (JSON dict as in library/*.json) offered to server.items.parse_item in the theory that '
        'precedes it: (a) every item of the 43 library files in place, (b) generated sequences of 1-3 descriptions over theory `list` '
        '(definitions with and without hostile features - self reference, fresh type variable on the right, non-variable / repeated '
        'arguments, extra variables, wrong head, non-equations, existing or overloaded names, the same name twice; definitions of '
        'overloaded constants (library ones at a fresh instance, freshly declared ones) whose right side mentions the constant at '
        'several instances in every order: overlapping first / middle / last / twice around a legal one / only overlapping / only '
        'non-overlapping (legal) - axiomatic '
        'constants incl. overloaded ones followed by instance definitions, axioms/theorems with attributes and proof data, '
        'axiomatic types, datatypes, recursive functions and inductive predicates over them with correct and broken shapes); '
        'distinct = hash of the description(s); non-trivial = the item was accepted and judged by all oracles, or carried a hostile feature')
ASSUMPTIONS = ['an item counts as accepted when parse_item leaves .error None AND Theory.unchecked_extend(get_extension()) returns; '
               'an exception at either point is a rejection',
               'equality of items = equality of their fields, terms modulo bound-variable names, types exactly; empty and absent '
               'steps/proof of a theorem are identified (export_json drops empty ones); order of variable declarations is counted, not judged',
               'round trips follow server.monitor.check_theory: printing under the extended theory (unicode on, highlight off), '
               'parsing under a copy of the theory taken after parse_item and before the extension; JSON and editor forms pass '
               'through json.dumps/loads; for datatypes the editor form is additionally parsed under the theory as it was before parse_item',
               'the conservativity conditions are demanded only of kind `def`; all other kinds are judged by O2 and O3 only; '
               'an item already flagged by O1 or O2 is not judged by O3 (one root cause, one report)',
               'mechanism keys of findings on items of the library carry the prefix library: (a finding there is a regression, '
               'never the same finding as one on hostile input)',
               'generated text is fully parenthesised and avoids the operator nestings on which printer and grammar are known to '
               'disagree (C07 findings), so that O3 judges the item machinery and not the term printer']
REQUIRED = {'quick': {'library_items_accepted': 4000, 'library_defs_judged': 140, 'library_theories': 43,
                      'O1_definitions_judged': 1500, 'O2_statements_checked': 12000, 'O3_json_roundtrips': 8000,
                      'O3_edit_roundtrips': 8000, 'gen_def_hostile_rejected': 800, 'gen_items_accepted': 4000,
                      'gen_items_rejected': 1500, 'sig_crosschecks': 40,
                      'multiocc_definitions': 800, 'multiocc_accepted_and_judged_by_O1': 250,
                      'nonuniform_datatypes_accepted': 60, 'O4_induct_theorems_of_non_uniform_datatypes_judged': 60},
            'thorough': {'library_items_accepted': 4000, 'library_defs_judged': 140, 'library_theories': 43,
                         'O1_definitions_judged': 30000, 'O2_statements_checked': 150000, 'O3_json_roundtrips': 100000,
                         'O3_edit_roundtrips': 100000, 'gen_def_hostile_rejected': 15000, 'gen_items_accepted': 80000,
                         'gen_items_rejected': 30000, 'sig_crosschecks': 40,
                         'multiocc_definitions': 15000, 'multiocc_accepted_and_judged_by_O1': 5000,
                         'nonuniform_datatypes_accepted': 1500, 'O4_induct_theorems_of_non_uniform_datatypes_judged': 1500}}
SHARD_TIMEOUT = {'quick': 900, 'thorough': 7200}
BASE = 'list'


def shards(tier, seed):
    if tier == 'quick':
        out = [{'kind': 'lib', 'i': i, 'parts': 4} for i in range(4)]
        out += [{'kind': 'gen', 'i': i, 'count': 900} for i in range(12)]
    else:
        out = [{'kind': 'lib', 'i': i, 'parts': 4} for i in range(4)]
        out += [{'kind': 'gen', 'i': i, 'count': 14000, 'base': 'real' if i % 3 == 2 else BASE} for i in range(14)]
    return out


# ---------------------------------------------------------------------------------------------- helpers
@contextlib.contextmanager
def quiet():
    with contextlib.redirect_stdout(io.StringIO()):
        yield


def through_json(x):
    return json.loads(json.dumps(x, ensure_ascii=False, sort_keys=True))


def norm_fields(f):
    """identify empty and absent proof data (export_json drops empty steps / proof)"""
    g = dict(f)
    for k in ('steps', 'proof'):
        if k in g and not g[k]:
            g[k] = None
    return g


def feature_tag(f):
    """feature of the accepted item itself (read off its fields) that names the root cause in a mechanism key"""
    ty = f.get('ty')
    if ty in ('def.ind', 'def.pred') and not f.get('rules'):
        return ':no-rules'
    if ty == 'type.ind':
        if not f.get('constrs'):
            return ':no-constructors'
        T = ('tc', f['name'], tuple(('tv', a) for a in f['args']))
        for cname, cT, _, anames in f['constrs']:
            argTs, res = GEN.strip_fun(cT)
            if res != T:
                return ':constructor-result-is-not-the-datatype'
            if len(argTs) != len(anames):
                return ':constructor-argument-names-do-not-match-its-type'
    return ''


def nonuniform_arguments(f):
    """constructor arguments of a type.ind item that are the datatype itself at an instance other than the declared one"""
    T = ('tc', f['name'], tuple(('tv', a) for a in f['args']))
    out = []
    for cname, cT, _, anames in f['constrs']:
        argTs, _res = GEN.strip_fun(cT)
        for A in argTs[:len(anames)]:
            if A[0] == 'tc' and A[1] == f['name'] and A != T:
                out.append((cname, A))
    return out


THM_KINDS = ('_induct', '_neq', '_inject', '_cases', '_def')


def thm_kind(text):
    """which generated theorem a problem text talks about (names are <x>_induct, <x>_neq, <x>_def_<n> ...)"""
    import re
    m = re.match(r'(?:hypothesis of|theorem) (\S+?):', text)
    if not m:
        return ''
    n = m.group(1)
    n = re.sub(r'_\d+$', '', n)
    for k in THM_KINDS:
        if n.endswith(k):
            return ':' + k[1:]
    return ''


class Driver:
    """runs one item through the monitor protocol and the three oracles"""

    def __init__(self, ctx, sig, origin_kind):
        self.ctx, self.sig, self.kind = ctx, sig, origin_kind
        self.pfx = 'library_' if origin_kind == 'lib' else 'gen_'
        self.web_line_lengths = (80,) if origin_kind == 'lib' else (80, 30)

    def violation(self, mech, desc, witness, raw):
        w = dict(witness)
        w['item'] = {k: v for k, v in raw.items() if k not in ('steps', 'proof')} if self.kind == 'lib' else raw
        if self.kind == 'lib':
            mech = 'library:' + mech        # a finding on an item of the library is never the same finding as one on hostile input
        self.ctx.violation(mech, desc, w)

    def drive(self, raw, witness, attack=()):
        """theory.thy = theory before the item.  -> 'accepted' | 'rejected:<where>' ; on acceptance theory.thy and
        self.sig are extended, otherwise theory.thy is restored."""
        from kernel import theory
        from server import items
        from syntax.settings import global_setting
        ctx, c = self.ctx, self.ctx.count
        ty = raw.get('ty')
        thy0 = copy.copy(theory.thy)
        try:
            with quiet():
                item = items.parse_item(copy.deepcopy(raw))
        except Exception as e:
            theory.thy = thy0
            c(self.pfx + 'rejected_parse_item_raised')
            return 'rejected:parse-raised:' + type(e).__name__
        if item.error is not None:
            theory.thy = thy0
            c(self.pfx + 'rejected_by_parse')
            return 'rejected:parse:' + type(item.error).__name__
        try:
            with quiet():
                exts = item.get_extension()
        except Exception as e:
            theory.thy = thy0
            c(self.pfx + 'rejected_get_extension_raised')
            return 'rejected:get_extension:' + type(e).__name__
        old_thy = copy.copy(theory.thy)
        try:
            theory.thy.unchecked_extend(exts)
        except Exception as e:
            theory.thy = thy0
            c(self.pfx + 'rejected_by_extend')
            return 'rejected:extend:' + type(e).__name__
        new_thy = theory.thy
        c(self.pfx + 'items_accepted')
        c('accepted_' + str(ty))
        name = getattr(item, 'name', None)
        what = '%s %s' % (ty, name)

        # ---------------- O1
        fields = O.item_fields(item)
        o1_flagged = False
        if ty == 'def':
            probs = O.definition_problems(self.sig, fields['name'], fields['type'], fields['prop'])
            c('O1_definitions_judged')
            rhs = O.definition_rhs(fields['prop'])
            occ = O.self_occurrence_types(fields['name'], rhs) if rhs is not None else []
            c('O1_rhs_occurrences_of_defined_name_judged', len(occ))
            if len(occ) >= 2:
                c('O1_definitions_mentioning_own_name_at_several_types')
                if any(O.overlap(U, fields['type']) for U in occ) and not O.overlap(occ[-1], fields['type']):
                    c('O1_overlapping_occurrence_followed_by_non_overlapping_one')
            if occ and not any(O.overlap(U, fields['type']) for U in occ):
                c('O1_definitions_mentioning_own_name_only_at_non_overlapping_types')
            if self.kind == 'lib':
                c('library_defs_judged')
            for key, text in probs:
                self.violation(key, 'accepted definition %s :: %s with %s : %s' % (
                    name, S.ty_str(fields['type']), S.tm_str(fields['prop'])[:300], text), witness, raw)
            if not probs:
                c('O1_definitions_conservative')
            o1_flagged = bool(probs)

        # ---------------- O2
        rexts = O.read_exts(exts)
        probs = O.apply_exts(self.sig, rexts)
        nst = sum(1 for e in rexts if e[0] == 'theorem')
        c('O2_statements_checked', nst)
        c('O2_extensions_checked', len(rexts))
        seen = set()
        tag = feature_tag(fields)
        # ---------------- O4 (datatypes): <name>_induct is the structural induction theorem over the declared type
        if ty == 'type.ind' and not tag.startswith(':constructor-') and fields.get('constrs') is not None:
            nu = nonuniform_arguments(fields)
            c('O4_induct_theorems_judged')
            if nu:
                c('O4_induct_theorems_of_non_uniform_datatypes_judged')
                c('O4_arguments_at_another_instance_of_the_datatype', len(nu))
            iprobs = O.induct_problems(fields, rexts)
            if not iprobs:
                c('O4_induct_theorems_as_expected')
            for key, text in iprobs:
                if nu and key == 'induction-hypothesis-for-a-non-recursive-argument':
                    key += ':argument-is-the-datatype-at-another-type-instance'
                seen.add('induct')
                self.violation('ext:type.ind:induct:%s' % key, 'accepted item %s: %s' % (what, text), witness, raw)
        for key, text in probs:
            if 'induct' in seen and thm_kind(text) == ':induct':
                continue                            # already reported by O4 with its root cause
            key = key + thm_kind(text)
            if tag.startswith(':constructor-'):
                key = 'ill-formed-extension'       # one root cause (the malformed constructor was accepted), one key
            if key in seen:
                continue
            seen.add(key)
            self.violation('ext:%s:%s%s' % (ty, key, tag), 'accepted item %s generates an ill-formed extension: %s' % (what, text), witness, raw)

        # ---------------- O3
        if seen or o1_flagged:
            c('O3_skipped_item_already_flagged')     # one root cause, one report: the item should not have been accepted
            theory.thy = new_thy
            return 'accepted'
        f0 = norm_fields(fields)
        disp = js = None
        try:
            with quiet(), global_setting(unicode=True, highlight=False):
                disp = item.get_display()
        except Exception as e:
            self.violation('roundtrip:edit:%s:get_display-raises%s' % (ty, tag), '%s: get_display raises %s: %s' % (what, type(e).__name__, str(e)[:200]), witness, raw)
        try:
            with quiet():
                js = item.export_json()
        except Exception as e:
            self.violation('roundtrip:json:%s:export_json-raises%s' % (ty, tag), '%s: export_json raises %s: %s' % (what, type(e).__name__, str(e)[:200]), witness, raw)
        routes = []
        if js is not None:
            routes.append(('json', js, old_thy, items.parse_item))
        if disp is not None:
            routes.append(('edit', disp, old_thy, items.parse_edit))
            if ty == 'type.ind':
                routes.append(('edit-in-theory-before-item', disp, thy0, items.parse_edit))
            # what the web client receives and sends back: export_web()['edit'] under the client's line length
            for L in self.web_line_lengths:
                try:
                    with quiet(), global_setting(line_length=L):
                        web = item.export_web()
                    c('export_web_calls')
                    routes.append(('edit-web', web['edit'], old_thy, items.parse_edit))
                except Exception as e:
                    self.violation('roundtrip:edit-web:%s:export_web-raises%s' % (ty, tag), '%s: export_web (line_length=%s) raises %s: %s' % (
                        what, L, type(e).__name__, str(e)[:200]), witness, raw)
        fails = []          # (route, what, text): one root cause usually shows on several routes -> reported once
        for route, form, thy_for, fn in routes:
            try:
                form2 = through_json(form)
            except Exception as e:
                fails.append((route, 'form-not-json-serialisable', str(e)[:200]))
                continue
            theory.thy = copy.copy(thy_for)
            try:
                with quiet():
                    item2 = fn(form2)
            except Exception as e:
                theory.thy = new_thy
                fails.append((route, 'parse-back-raises:%s%s' % (type(e).__name__, '' if route == 'edit-in-theory-before-item' else tag), 'parsing back the %s form raises %s: %s ; form=%s' % (
                    route, type(e).__name__, str(e)[:200], json.dumps(form, ensure_ascii=False)[:400])))
                continue
            if route != 'json' and ty == 'thm':       # monitor protocol: the editor form does not carry the proof
                item2.proof, item2.steps, item2.num_gaps = item.proof, item.steps, item.num_gaps
            c('O3_%s_roundtrips' % ('json' if route == 'json' else 'edit'))
            try:
                repo_eq = bool(item == item2)
            except Exception:
                repo_eq = None
            theory.thy = new_thy
            f2 = norm_fields(O.item_fields(item2))
            if f2.get('error') is not None:
                fails.append((route, 'parse-back-rejected:%s%s' % (f2['error'], tag), 'the %s form is rejected when parsed back (%s: %s) ; form=%s' % (
                    route, f2['error'], str(item2.error)[:200], json.dumps(form, ensure_ascii=False)[:400])))
                continue
            hard, soft = O.diff_fields(f0, f2)
            for k in soft:
                c('O3_soft_difference_' + k)
            if hard:
                k = hard[0]
                only_types = all(O.same_shape(f0.get(h), f2.get(h)) for h in hard)
                fails.append((route, '%s-%s%s' % ('+'.join(hard), 'types-differ' if only_types else 'differs', tag),
                              'field %s is %s before and %s after the %s round trip ; form=%s' % (
                                  k, O.show_field(f0.get(k)), O.show_field(f2.get(k)), route, json.dumps(form, ensure_ascii=False)[:400])))
                if repo_eq is True:
                    self.violation('eq:repo-eq-true-but-fields-differ:%s:%s' % (ty, '+'.join(hard)),
                                   '%s: items.__eq__ calls the items equal although %s differ' % (what, hard), witness, raw)
            else:
                c('O3_%s_equal' % ('json' if route == 'json' else 'edit'))
                if repo_eq is False:
                    self.violation('eq:repo-eq-false-but-fields-equal:%s' % ty,
                                   '%s: all fields agree after the %s round trip but items.__eq__ says different' % (what, route), witness, raw)
        by_what = {}
        for route, w_, text in fails:
            by_what.setdefault(w_, []).append((route, text))
        for w_, lst in by_what.items():
            rts = []
            for route, _ in lst:
                if route not in rts:
                    rts.append(route)
            self.violation('roundtrip:%s:%s:%s' % ('+'.join(rts), ty, w_), '%s: %s' % (what, lst[0][1]), witness, raw)
        theory.thy = new_thy
        return 'accepted'


# ---------------------------------------------------------------------------------------------- signature of loaded theories
def sig_of(theories_in_order):
    """signature from the extension history of the cached (already parsed) theories (declarations only)"""
    from logic import basic
    sig = O.Sig()
    for dn in theories_in_order:
        for it in basic.load_theory_cache(dn)['content']:
            if it.error is None:
                O.apply_exts(sig, O.read_exts(it.get_extension(), statements=False))
    return sig


# ---------------------------------------------------------------------------------------------- library workload
def run_lib(ctx, spec):
    from vf import libreplay, core
    libreplay.prepare()
    from logic import basic
    from kernel import theory
    names = libreplay.theory_names() + ['hoare_test_output']
    order = [n for n in basic.get_import_order(sorted(names))]
    # balance: theories in import order, dealt round-robin by number of items
    sizes = {n: len(basic.load_json_data(n)['content']) for n in order}
    bins = [[] for _ in range(spec['parts'])]
    load = [0] * spec['parts']
    for n in sorted(order, key=lambda n: -sizes[n]):
        k = load.index(min(load))
        bins[k].append(n)
        load[k] += sizes[n] + 40
    mine = [n for n in order if n in bins[spec['i']]]
    only = spec.get('only')
    for name in mine:
        if only and name != only['theory']:
            continue
        deps = basic.get_import_order(basic.theory_cache['master'][name]['imports'])
        sig = sig_of(deps)
        data = basic.load_json_data(name)
        basic.load_theory(name, limit='start')
        for key, text in O.table_problems(sig, theory.thy):
            ctx.violation('sig:' + key, 'theory %s at start: %s' % (name, text), {'kind': 'lib', 'theory': name, 'index': -1})
        ctx.count('sig_crosschecks')
        drv = Driver(ctx, sig, 'lib')
        for idx, raw in enumerate(data['content']):
            if only and idx > only['index']:
                break
            w = {'kind': 'lib', 'theory': name, 'index': idx}
            ctx.count('library_items')
            ctx.count('library_items_' + raw['ty'])
            if only and idx < only['index']:
                # replay: just advance the theory and the signature
                from server import items
                with quiet():
                    it = items.parse_item(copy.deepcopy(raw))
                if it.error is None:
                    exts = it.get_extension()
                    theory.thy.unchecked_extend(exts)
                    O.apply_exts(sig, O.read_exts(exts, statements=False))
                continue
            res = drv.drive(raw, w)
            if res != 'accepted':
                short = {k: v for k, v in raw.items() if k not in ('steps', 'proof')}
                ctx.violation('library:file-item-rejected:%s:%s' % (raw['ty'], res), 'item %s %s of library/%s.json is not accepted (%s)' % (
                    raw['ty'], raw.get('name'), name, res), dict(w, item=short))
            ctx.case(('lib', name, idx), nontrivial=raw['ty'] != 'header',
                     sample={'theory': name, 'item': {k: v for k, v in raw.items() if k not in ('steps', 'proof')}} if idx == 3 else None)
        for key, text in O.table_problems(sig, theory.thy):
            ctx.violation('sig:' + key, 'theory %s at end: %s' % (name, text), {'kind': 'lib', 'theory': name, 'index': len(data['content'])})
        ctx.count('sig_crosschecks')
        ctx.count('library_theories')


# ---------------------------------------------------------------------------------------------- generated workload
def base_setup(base=BASE):
    import warnings
    warnings.simplefilter('ignore')
    from logic import basic
    from kernel import theory
    from vf import core
    if base != BASE:
        from vf import libreplay
        libreplay.prepare()
    basic.load_theory(base)
    deps = basic.get_import_order([base])
    sig = sig_of(deps)
    core.freeze()
    return theory.thy, sig


HOSTILE_DEF = {'self', 'selfmulti', 'tvar', 'nonvar', 'repeat', 'extra', 'head', 'noteq', 'swap', 'seqdup', 'overdup'}


def run_sequence(ctx, base_thy, base_sig, family, descs, witness_extra=None, base=BASE):
    from kernel import theory
    theory.thy = copy.copy(base_thy)
    sig = base_sig.copy()
    drv = Driver(ctx, sig, 'gen')
    results = []
    clean = [GEN.clean(d) for d in descs]
    for i, d in enumerate(descs):
        w = {'kind': 'seq', 'base': base, 'family': family, 'items': clean[:i + 1], 'index': i}
        if witness_extra:
            w.update(witness_extra)
        res = drv.drive(clean[i], w, attack=d.get('_attack', ()))
        results.append(res)
        att = d.get('_attack', [])
        acc = res == 'accepted'
        if not acc:
            ctx.count('gen_items_rejected')
            ctx.count('gen_rejected_' + d['ty'])
        fam = d.get('_family', d['ty'])
        if att:
            for a in att:
                ctx.count('attack_%s_%s_%s' % (fam, a, 'accepted' if acc else 'rejected'))
            if d['ty'] == 'def' and set(att) & HOSTILE_DEF:
                ctx.count('gen_def_hostile_accepted' if acc else 'gen_def_hostile_rejected')
        else:
            ctx.count('plain_%s_%s' % (fam, 'accepted' if acc else 'rejected'))
        if d.get('_nonuniform'):
            shape, layout, direct = d['_nonuniform']
            ctx.count('nonuniform_datatypes')
            ctx.count('nonuniform_datatypes_' + ('accepted' if acc else 'rejected'))
            ctx.count('nonuniform_shape_%s_%s' % (shape, 'accepted' if acc else 'rejected'))
            ctx.count('nonuniform_layout_%s' % layout)
            if direct and acc:
                ctx.count('nonuniform_accepted_with_argument_that_is_itself_another_instance')
        if d.get('_multi'):
            ctx.count('multiocc_%s_%s' % (d['_multi'], 'accepted' if acc else 'rejected'))
            ctx.count('multiocc_definitions')
            if acc:
                ctx.count('multiocc_accepted_and_judged_by_O1')
    theory.thy = base_thy
    return results


def run_gen(ctx, spec):
    base = spec.get('base', BASE)
    base_thy, base_sig = base_setup(base)
    g = GEN.Gen(ctx.rng)
    for k in range(spec['count']):
        family, descs = g.scenario()
        res = run_sequence(ctx, base_thy, base_sig, family, descs, base=base)
        ctx.count('scenario_' + family)
        nt = any(r == 'accepted' for r in res) or any(d.get('_attack') for d in descs)
        ctx.case(('seq', [json.dumps(GEN.clean(d), sort_keys=True) for d in descs]), nontrivial=nt,
                 sample={'family': family, 'items': [GEN.clean(d) for d in descs], 'results': res} if k < 2 and spec['i'] == 0 else None)


def run_shard(ctx, spec):
    if 'replay' in spec:
        w = spec['replay']['witness']
        if w.get('kind') == 'seq':
            base_thy, base_sig = base_setup(w.get('base', BASE))
            descs = [dict(d, _attack=[], _family=d['ty']) for d in w['items']]
            res = run_sequence(ctx, base_thy, base_sig, w.get('family', 'replay'), descs, base=w.get('base', BASE))
            ctx.note('replay results: %s' % res)
            ctx.case('replay', sample={'items': w['items'], 'results': res})
        elif w.get('kind') == 'lib':
            run_lib(ctx, {'kind': 'lib', 'i': 0, 'parts': 1, 'only': {'theory': w['theory'], 'index': w['index']}})
            ctx.case('replay')
        return
    if spec['kind'] == 'lib':
        run_lib(ctx, spec)
    else:
        run_gen(ctx, spec)


def coverage_extra(counters, tier):
    att = {k: v for k, v in counters.items() if k.startswith('attack_')}
    return {'attacks': dict(sorted(att.items()))}
