"""C17 - congruence closure decides exactly the equalities entailed by the merges.

Monitors (all on the REAL prover.congc classes, driven single-threaded):
  * class invariant of CongClosure, attached from here with icontract.invariant (named condition,
    own exception class, evaluations counted): pending empty at quiescence, rep/class_list a
    partition, every entered f(a1,a2)=a has a lookup entry under the representatives whose right
    side is in a's class, the proof forest's trees are exactly the classes and every edge label
    connects its two endpoints.  It fires before/after every public call, also when the closure is
    used inside CongClosureHOL.
  * CongClosure.test on EVERY pair of known constants after every prefix of every merge order,
    against a naive fixpoint closure (vf.oracle_c17_naive) of the same equations.
  * CongClosure.explain: cited equations must be merged equations and must, re-closed by the naive
    model, entail the queried equality.
  * CongClosureHOL.test against the naive closure over the pool of HOL terms; CongClosureHOL.explain
    -> ProofTerm.export -> theory.check_proof: conclusion compared (on vf.shadow tuples) with the
    queried equality, hypotheses and reported gaps must be merged equations and must entail it.
  * answers for the same SET of equations must coincide across merge orders / term-adding orders.
  * util.unionfind.UnionFind (second anchor file) against a naive partition.
"""
import itertools
from vf import shadow as S
from vf import oracle_c17_naive as N

ID = 'C17'
LEVEL = 'exploration'
RULE = ('case = one script of merge / add / test / explain calls on a fresh CongClosure (equations a=b and f(a1,a2)=a over '
        '<= 8 constants, or curried terms of depth <= 3 flattened to such equations) or on a fresh CongClosureHOL (HOL terms over '
        '<= 8 variables, curried binary f and unary g, depth <= 3); after every merge the whole pair matrix is queried.  '
        'Exhaustive parts: every merge sequence of length <= L over the 36 equations on 3 constants, and ALL n! orders of every '
        'generated set of n <= 5 equations; above that random orders and random interleavings.  distinct = hash of the op script; '
        'non-trivial = >= 2 merges and an entailed equality between distinct terms that was not itself merged')
ASSUMPTIONS = ['entailment by refl/sym/trans/congruence over the subterm-closed universe of a case is computed by a naive '
               'relation fixpoint (calibrated on hand-computed instances at shard start)',
               'the invariant reads the attributes pending/rep/class_list/lookup/proof_forest/comb_eqs named in the property anchors',
               'an exception from merge/test/explain is a rejection (counted), except test raising on entered constants',
               'a cited equation b=a counts as the merged equation a=b',
               'the kernel proof checker is the acceptance criterion for HOL explanations (as the statement says); its verdict '
               'is cross-checked by re-closing hypotheses+gaps with the naive model']
REQUIRED = {'quick': {'inv_evaluations': 1500000, 'raw_test_queries': 400000, 'raw_test_true_by_congruence_only': 10000,
                      'raw_explanations_judged': 100000, 'raw_sets_all_orders': 1000, 'raw_allseq_parts_done': 2,
                      'hol_test_queries': 200000, 'hol_proofs_checked': 8000, 'hol_sets_all_orders': 30,
                      'uf_queries': 5000},
            'thorough': {'inv_evaluations': 60000000, 'raw_test_queries': 13000000, 'raw_test_true_by_congruence_only': 400000,
                         'raw_explanations_judged': 2500000, 'raw_sets_all_orders': 4000, 'raw_allseq_parts_done': 14,
                         'hol_test_queries': 10000000, 'hol_proofs_checked': 400000, 'hol_sets_all_orders': 600,
                         'uf_queries': 50000}}
SHARD_TIMEOUT = {'quick': 600, 'thorough': 5400}


def shards(tier, seed):
    if tier == 'quick':
        return ([{'kind': 'raw_allseq', 'len': 1, 'part': 0, 'parts': 1}, {'kind': 'raw_allseq', 'len': 2, 'part': 0, 'parts': 1}] +
                [{'kind': 'raw_allseq_sample', 'len': 3, 'count': 1600, 'i': 0}] +
                [{'kind': 'raw_orders', 'count': 32, 'i': i} for i in range(5)] +
                [{'kind': 'raw_terms', 'count': 24, 'i': i} for i in range(2)] +
                [{'kind': 'raw_rand', 'count': 45, 'i': i} for i in range(2)] +
                [{'kind': 'hol_orders', 'count': 8, 'i': i} for i in range(4)] +
                [{'kind': 'hol_rand', 'count': 18, 'i': i} for i in range(2)] +
                [{'kind': 'uf', 'count': 400, 'i': 0}])
    return ([{'kind': 'raw_allseq', 'len': 1, 'part': 0, 'parts': 1}, {'kind': 'raw_allseq', 'len': 2, 'part': 0, 'parts': 1}] +
            [{'kind': 'raw_allseq', 'len': 3, 'part': p, 'parts': 12} for p in range(12)] +
            [{'kind': 'raw_orders', 'count': 300, 'i': i} for i in range(14)] +
            [{'kind': 'raw_terms', 'count': 250, 'i': i} for i in range(6)] +
            [{'kind': 'raw_rand', 'count': 700, 'i': i} for i in range(6)] +
            [{'kind': 'hol_orders', 'count': 60, 'i': i} for i in range(12)] +
            [{'kind': 'hol_rand', 'count': 500, 'i': i} for i in range(6)] +
            [{'kind': 'uf', 'count': 3000, 'i': 0}])


# =============================================================================== the class invariant
class C17InvariantBroken(Exception):
    """raised (through icontract) out of the public call after which the invariant does not hold"""


INV = {'evals': 0, 'last': None, 'installed': False, 'how': None}


def inv_failure(cl):
    """None if the Nieuwenhuis-Oliveras state is consistent at quiescence, else a clause name."""
    from prover import congc
    try:
        if not cl.pending.empty():
            return 'pending-not-empty-after-public-call'
        rep, cls = cl.rep, cl.class_list
        seen = set()
        for r, members in cls.items():
            if rep.get(r) != r:
                return 'rep-class_list-not-a-partition'
            for c in members:
                if c in seen or c not in rep or rep[c] != r:
                    return 'rep-class_list-not-a-partition'
                seen.add(c)
        if len(seen) != len(rep):
            return 'rep-class_list-not-a-partition'
        lookup = cl.lookup
        for (a1, a2), a in cl.comb_eqs:
            key = (rep[a1], rep[a2])
            ent = lookup.get(key)
            if ent is None:
                return 'entered-application-without-lookup-entry-for-its-representatives'
            (b1, b2), b = ent
            if rep[b] != rep[a]:
                return 'lookup-right-side-outside-class-of-entered-application'
            if rep[b1] != key[0] or rep[b2] != key[1]:
                return 'lookup-entry-arguments-outside-the-key-classes'
        pf = cl.proof_forest
        if len(pf) != len(rep) or any(x not in rep for x in pf):
            return 'proof-forest-nodes-differ-from-constants'
        n = len(pf)
        root = {}
        for x in pf:
            y, steps = x, 0
            while pf[y] is not None:
                y = pf[y][0]
                steps += 1
                if steps > n:
                    return 'proof-forest-has-a-cycle'
            root[x] = y
        root_of_class = {}
        for x, r in rep.items():
            if root_of_class.setdefault(r, root[x]) != root[x]:
                return 'proof-forest-class-split-over-several-trees'
        if len(set(root_of_class.values())) != len(root_of_class):
            return 'proof-forest-tree-spans-several-classes'
        for x, e in pf.items():
            if e is None:
                continue
            p, lab = e
            if lab[0] == congc.EQ_CONST:
                ends = {lab[1], lab[2]}
            else:
                ends = {lab[1][1], lab[2][1]}
            if ends != {x, p}:
                return 'proof-forest-edge-label-does-not-connect-its-endpoints'
    except (KeyError, TypeError, IndexError, ValueError, AttributeError) as e:
        return 'state-unreadable(%s)' % type(e).__name__
    return None


def c17_class_invariant(self):
    INV['evals'] += 1
    why = inv_failure(self)
    INV['last'] = why
    return why is None


def install_invariant():
    import os
    from prover import congc
    if INV['installed']:
        return
    if os.environ.get('VF_C17_NOINV'):        # self-test switch: lets the reference-model oracles be exercised alone
        INV['installed'], INV['how'] = True, 'DISABLED by VF_C17_NOINV (run is inconclusive by construction)'
        return
    cls = congc.CongClosure
    try:
        import icontract
        icontract.invariant(c17_class_invariant, error=C17InvariantBroken)(cls)
        INV['how'] = 'icontract.invariant'
    except Exception as e:                                  # equivalent plain wrapper
        INV['how'] = 'plain wrapper (%s)' % type(e).__name__
        depth = [0]

        def wrap(name, before):
            orig = getattr(cls, name)

            def w(self, *a, **kw):
                outer = depth[0] == 0
                if outer and before and not c17_class_invariant(self):
                    raise C17InvariantBroken(INV['last'])
                depth[0] += 1
                try:
                    r = orig(self, *a, **kw)
                finally:
                    depth[0] -= 1
                if outer and not c17_class_invariant(self):
                    raise C17InvariantBroken(INV['last'])
                return r
            setattr(cls, name, w)
        wrap('__init__', False)
        for nm in ('add_var', 'merge', 'explain', 'test', 'ematch', '__str__'):
            wrap(nm, True)
    INV['installed'] = True


def real(fn, *a, **kw):
    """call into the code under test: ('ok', value) | ('exc', exception); a broken invariant propagates."""
    try:
        return 'ok', fn(*a, **kw)
    except C17InvariantBroken:
        raise
    except RecursionError as e:
        return 'exc', e
    except Exception as e:
        return 'exc', e


# =============================================================================== raw CongClosure
class RawUniverse:
    """node numbering for the naive model of one family of scripts + closure cache"""

    def __init__(self, eqs, extra_consts=()):
        consts = []
        for eq in eqs:
            for c in eq[1:]:
                if c not in consts:
                    consts.append(c)
        for c in extra_consts:
            if c not in consts:
                consts.append(c)
        self.consts = consts
        self.idx = {c: i for i, c in enumerate(consts)}
        self.appnode, self.app = {}, {}
        for eq in eqs:
            if eq[0] == 'f':
                pr = (eq[1], eq[2])
                if pr not in self.appnode:
                    node = len(consts) + len(self.appnode)
                    self.appnode[pr] = node
                    self.app[node] = (self.idx[eq[1]], self.idx[eq[2]])
        self.n = len(consts) + len(self.appnode)
        self.cache = {}

    def pair(self, eq):
        if eq[0] == 'c':
            return self.idx[eq[1]], self.idx[eq[2]]
        return self.appnode[(eq[1], eq[2])], self.idx[eq[3]]

    def closure(self, eqs, congruence=True):
        key = (frozenset(tuple(e) for e in eqs), congruence)
        r = self.cache.get(key)
        if r is None:
            r = N.close(self.n, self.app, [self.pair(e) for e in key[0]], congruence)
            if len(self.cache) < 60000:
                self.cache[key] = r
        return r


def judge_raw_explain(U, merged, x, y, res):
    """(mech or None, number of cited equations)"""
    from prover import congc
    const_set = {(e[1], e[2]) for e in merged if e[0] == 'c'}
    comb_set = {((e[1], e[2]), e[3]) for e in merged if e[0] == 'f'}
    used = []
    try:
        if not isinstance(res, dict):
            return 'EXPLAIN:malformed-result', 0
        for path in res.values():
            for lab in path:
                if lab[0] == congc.EQ_CONST:
                    _, a, b = lab
                    if (a, b) in const_set:
                        used.append(('c', a, b))
                    elif (b, a) in const_set:
                        used.append(('c', b, a))
                    else:
                        return 'EXPLAIN:cites-equation-never-merged', 0
                elif lab[0] == congc.EQ_COMB:
                    for e in (lab[1], lab[2]):
                        (a1, a2), a = e
                        if ((a1, a2), a) in comb_set:
                            used.append(('f', a1, a2, a))
                        else:
                            return 'EXPLAIN:cites-equation-never-merged', 0
                else:
                    return 'EXPLAIN:malformed-result', 0
    except (TypeError, ValueError, IndexError):
        return 'EXPLAIN:malformed-result', 0
    row = U.closure(used)
    if not N.related(row, U.idx[x], U.idx[y]):
        return 'EXPLAIN:cited-equations-do-not-entail-the-queried-equality', len(used)
    return None, len(set(used))


def classify_missed(U, merged, x, y):
    r0 = U.closure(merged, congruence=False)
    return 'transitivity' if N.related(r0, U.idx[x], U.idx[y]) else 'congruence'


def run_raw_script(ctx, script, U=None):
    """Execute ops on a fresh real CongClosure and judge.  Returns (known tuple, frozenset of equal
    ordered pairs reported by the last full 'T') or None when the script was cut short."""
    from prover import congc
    if U is None:
        U = RawUniverse([op[1] for op in script if op[0] == 'm'], [op[1] for op in script if op[0] == 'v'])
    pos = [0]

    def wit():
        return {'kind': 'raw', 'script': script[:pos[0] + 1]}

    def fmt(eq):
        return '%s=%s' % (eq[1], eq[2]) if eq[0] == 'c' else 'f(%s,%s)=%s' % (eq[1], eq[2], eq[3])

    merged, known, last = [], [], None

    def hist():
        return ', '.join(fmt(e) for e in merged)

    def know(c):
        if c not in known:
            known.append(c)

    def do_test(cl, x, y, row):
        st, got = real(cl.test, x, y)
        ctx.count('raw_test_queries')
        if st == 'exc':
            ctx.violation('TEST:raises-on-entered-constants', 'after merges [%s] test(%s,%s) raised %s although both constants were entered'
                          % (hist(), x, y, type(got).__name__), wit())
            return None
        want = N.related(row, U.idx[x], U.idx[y])
        if bool(got) != want:
            if got:
                ctx.violation('TEST:reports-equal-but-not-entailed', 'after merges [%s] test(%s,%s)=True but the equality is not entailed'
                              % (hist(), x, y), wit())
            else:
                why = classify_missed(U, merged, x, y)
                ctx.violation('TEST:misses-entailed-equality(%s)' % why, 'after merges [%s] test(%s,%s)=False but the equality follows by %s'
                              % (hist(), x, y, why), wit())
            return None
        return bool(got)

    def do_explain(cl, x, y, row):
        """returns False when a violation was recorded"""
        want = N.related(row, U.idx[x], U.idx[y])
        st, res = real(cl.explain, x, y)
        if st == 'exc':
            ctx.count('raw_explain_raised_on_entailed:' + type(res).__name__ if want else 'raw_explain_rejected_non_entailed')
            return True
        mech, ncited = judge_raw_explain(U, merged, x, y, res)
        ctx.count('raw_explanations_judged')
        if ncited >= 3:
            ctx.count('raw_explanations_citing_3plus')
        if mech is not None:
            ctx.violation(mech, 'after merges [%s] explain(%s,%s) returned %s' % (hist(), x, y, repr(res)[:300]), wit())
            return False
        if not want:          # cannot happen once the two checks above pass; kept as a guard
            ctx.violation('EXPLAIN:returned-for-non-entailed-equality', 'after merges [%s] explain(%s,%s) returned %s'
                          % (hist(), x, y, repr(res)[:300]), wit())
            return False
        return True

    try:
        cl = congc.CongClosure()
        for k, op in enumerate(script):
            pos[0] = k
            kind = op[0]
            if kind == 'm':
                eq = op[1]
                if eq[0] == 'c':
                    st, r = real(cl.merge, eq[1], eq[2])
                else:
                    st, r = real(cl.merge, (eq[1], eq[2]), eq[3])
                ctx.count('raw_merges')
                if st == 'exc':
                    ctx.count('raw_merge_raised:' + type(r).__name__)
                    ctx.note('merge raised %r after [%s] on %s' % (r, hist(), fmt(eq)))
                    return None
                merged.append(tuple(eq))
                for c in eq[1:]:
                    know(c)
            elif kind == 'v':
                st, r = real(cl.add_var, op[1])
                if st == 'exc':
                    ctx.count('raw_add_var_raised:' + type(r).__name__)
                    return None
                know(op[1])
            elif kind == 's':
                st, r = real(str, cl)
                ctx.count('raw_str_calls' if st == 'ok' else 'raw_str_raised')
            elif kind == 'T':
                row = U.closure(merged)
                row0 = U.closure(merged, congruence=False)
                eqp = set()
                for x in known:
                    for y in known:
                        g = do_test(cl, x, y, row)
                        if g is None:
                            return None
                        if g:
                            eqp.add((x, y))
                            if x != y:
                                ctx.count('raw_test_true')
                                if not N.related(row0, U.idx[x], U.idx[y]):
                                    ctx.count('raw_test_true_by_congruence_only')
                        else:
                            ctx.count('raw_test_false')
                last = (tuple(sorted(known)), frozenset(eqp))
            elif kind == 't':
                if do_test(cl, op[1], op[2], U.closure(merged)) is None:
                    return None
            elif kind == 'X':
                row = U.closure(merged)
                prs = [(x, y) for x in known for y in known if x != y]
                cap, off = op[1], op[2]
                if prs:
                    off %= len(prs)
                    prs = (prs[off:] + prs[:off])[:cap]
                if known:
                    prs.append((known[off % len(known)],) * 2)
                for x, y in prs:
                    if not do_explain(cl, x, y, row):
                        return None
            elif kind == 'x':
                if not do_explain(cl, op[1], op[2], U.closure(merged)):
                    return None
            else:
                raise ValueError('bad op %r' % (op,))
    except C17InvariantBroken:
        ctx.violation('INV:' + str(INV['last']), 'CongClosure invariant broken at op %d %r after merges [%s]'
                      % (pos[0], script[pos[0]] if script else None, hist()), wit())
        return None
    return last


def raw_nontrivial(U, script):
    merged = [tuple(op[1]) for op in script if op[0] == 'm']
    if len(merged) < 2:
        return False, False
    row = U.closure(merged)
    row0 = U.closure(merged, congruence=False)
    lit = {(e[1], e[2]) for e in merged if e[0] == 'c'}
    consts = []
    for e in merged:
        for c in e[1:]:
            if c not in consts:
                consts.append(c)
    nt = cong = False
    for x in consts:
        for y in consts:
            if x < y and N.related(row, U.idx[x], U.idx[y]):
                if (x, y) not in lit and (y, x) not in lit:
                    nt = True
                if not N.related(row0, U.idx[x], U.idx[y]):
                    cong = True
    return nt, cong


class OrderMonitor:
    """answers for the same set of equations must not depend on the order / history"""

    def __init__(self, ctx, label):
        self.ctx, self.label, self.seen = ctx, label, {}

    def put(self, key, answers, script):
        if answers is None:
            return
        old = self.seen.get(key)
        if old is None:
            self.seen[key] = (answers, script)
            return
        self.ctx.count(self.label + '_order_comparisons')
        if old[0] != answers:
            self.ctx.violation('ORDER:answers-differ-between-merge-orders',
                               'the same equations merged in two orders give different test matrices',
                               {'kind': self.label + '_pair', 'script': script, 'script2': old[1]})


def raw_case(ctx, script, U, mon=None, key=None, sample=False):
    ans = run_raw_script(ctx, script, U)
    nt, cong = raw_nontrivial(U, script)
    if cong:
        ctx.count('raw_cases_with_congruence_consequence')
    ctx.case(('raw', repr(script)), nontrivial=nt, sample={'kind': 'raw', 'script': script} if sample else None)
    if mon is not None:
        mon.put(key, ans, script)


def full_script(eqs, cap=64):
    s = []
    for k, e in enumerate(eqs):
        s += [['m', list(e)], ['T'], ['X', cap, k]]
    return s


K3 = ['c0', 'c1', 'c2']
EQS3 = [['c', a, b] for a in K3 for b in K3] + [['f', a, b, c] for a in K3 for b in K3 for c in K3]


def gen_raw_set(rng):
    k = rng.choice([3, 3, 4, 4, 5, 5, 6, 8])
    cs = ['c%d' % i for i in range(k)]
    n = rng.choice([2, 3, 3, 4, 4, 4, 5, 5, 5, 5])
    rc = lambda: rng.choice(cs)
    eqs = []
    if rng.random() < 0.5 and n >= 3:
        # a planted congruence: f(a,b)=u, f(a',b')=v plus links a~a', b~b'
        a, b, a2, b2, u, v = rc(), rc(), rc(), rc(), rc(), rc()
        eqs += [['f', a, b, u], ['f', a2, b2, v]]
        if a != a2:
            eqs.append(['c', a, a2] if rng.random() < 0.5 else ['c', a2, a])
        if b != b2 and len(eqs) < n:
            eqs.append(['c', b, b2] if rng.random() < 0.5 else ['c', b2, b])
    while len(eqs) < n:
        eqs.append(['f', rc(), rc(), rc()] if rng.random() < 0.55 else ['c', rc(), rc()])
    rng.shuffle(eqs)
    return eqs[:n]


def gen_fterm(rng, cs, depth):
    if depth == 0 or rng.random() < 0.3:
        return rng.choice(cs)
    return ('f', gen_fterm(rng, cs, rng.randint(0, depth - 1)), gen_fterm(rng, cs, rng.randint(0, depth - 1)))


def flatten_terms(rng, term_eqs):
    names, defs, eqs = {}, [], []

    def name(t):
        if isinstance(t, str):
            return t
        if t in names:
            return names[t]
        a1, a2 = name(t[1]), name(t[2])
        nm = 'n%d' % len(names)
        names[t] = nm
        defs.append(['f', a1, a2, nm])
        return nm
    for s, t in term_eqs:
        if (not isinstance(s, str) and isinstance(s[1], str) and isinstance(s[2], str) and isinstance(t, str)
                and s not in names and rng.random() < 0.5):
            eqs.append(['f', s[1], s[2], t])          # f(a,b)=c entered directly, as in the repo's tests
        else:
            eqs.append(['c', name(s), name(t)])
    return defs + eqs


def gen_term_set(rng, small):
    k = rng.choice([2, 3, 3, 4, 5, 8])
    cs = ['c%d' % i for i in range(k)]
    for _ in range(200):
        n = rng.choice([1, 2, 2, 3]) if small else rng.choice([2, 3, 4, 5])
        d = rng.choice([1, 2, 2, 3]) if small else rng.choice([2, 3, 3])
        teqs = [(gen_fterm(rng, cs, rng.randint(0, d)), gen_fterm(rng, cs, rng.randint(0, d))) for _ in range(n)]
        flat = flatten_terms(rng, teqs)
        if small and 2 <= len(flat) <= 5:
            return flat
        if not small and 6 <= len(flat) <= 22:
            return flat
    return [['f', 'c0', 'c0', 'c0'], ['c', 'c0', 'c1']]


def rand_interleave(rng, eqs, consts):
    s = []
    extra = 0
    for k, e in enumerate(eqs):
        s.append(['m', list(e)])
        if rng.random() < 0.7:
            s.append(['T'])
        if rng.random() < 0.5:
            s.append(['X', rng.choice([4, 10, 30]), rng.randrange(1000)])
        if rng.random() < 0.3 and len(consts) >= 2:
            # single queries only on constants that are certainly known by now
            kn = []
            for op in s:
                if op[0] == 'm':
                    kn += [c for c in op[1][1:] if c not in kn]
            a, b = rng.choice(kn), rng.choice(kn)
            s.append([rng.choice(['t', 'x']), a, b])
        if rng.random() < 0.05:
            s.append(['s'])
        if rng.random() < 0.06:
            extra += 1
            s.append(['v', 'z%d' % extra])
    s += [['T'], ['X', 40, rng.randrange(1000)]]
    return s


# =============================================================================== CongClosureHOL
TA = ('tv', 'a')
HOL_CONSTS = ['a', 'b', 'c', 'd', 'e', 'p', 'q', 'r']
HOL_TYPES = dict([(c, TA) for c in HOL_CONSTS] + [('f', S.funs(TA, TA, TA)), ('g', S.fun(TA, TA))])


def enc_shadow(e):
    if isinstance(e, str):
        return ('var', e, HOL_TYPES[e])
    return ('comb', enc_shadow(e[0]), enc_shadow(e[1]))


def enc_str(e):
    return S.tm_str(enc_shadow(e))


def eq_shadow(s, t):
    T = S.typeof(s)
    return S.mk_comb(('const', 'equals', S.funs(T, T, S.BOOL)), s, t)


def subterms(e, acc):
    if not isinstance(e, str):
        subterms(e[0], acc)
        subterms(e[1], acc)
    if e not in acc:
        acc.append(e)
    return acc


def gen_hterm(rng, cs, depth, fn=False):
    if fn:
        if depth == 0 or rng.random() < 0.5:
            return 'g'
        return ('f', gen_hterm(rng, cs, rng.randint(0, depth - 1)))
    r = rng.random()
    if depth == 0 or r < 0.3:
        return rng.choice(cs)
    if r < 0.72:
        return (('f', gen_hterm(rng, cs, rng.randint(0, depth - 1))), gen_hterm(rng, cs, rng.randint(0, depth - 1)))
    return ('g', gen_hterm(rng, cs, rng.randint(0, depth - 1)))


def subst_const(e, x, y):
    if isinstance(e, str):
        return y if e == x else e
    return (subst_const(e[0], x, y), subst_const(e[1], x, y))


def gen_hol_set(rng, n, pool_cap):
    """(pool, eqs as index pairs): n well-typed equations + extra query terms, pool subterm-closed"""
    k = rng.choice([2, 3, 3, 4, 4, 5, 8])
    cs = HOL_CONSTS[:k]
    for _ in range(300):
        eqs = []
        for _i in range(n):
            fn = rng.random() < 0.1
            d = rng.choice([0, 1, 1, 2, 2, 3])
            s = gen_hterm(rng, cs, d, fn)
            t = gen_hterm(rng, cs, rng.choice([0, 0, 1, 2, 3]), fn)
            eqs.append((s, t))
        pool = []
        for s, t in eqs:
            subterms(s, pool)
            subterms(t, pool)
        if len(pool) > pool_cap:
            continue
        extras = []
        for s, t in eqs:
            for u in (s, t):
                if not isinstance(u, str) and len(cs) >= 2:
                    x, y = rng.sample(cs, 2)
                    extras.append(subst_const(u, x, y))
        extras += [gen_hterm(rng, cs, rng.choice([1, 2, 3])) for _i in range(3)]
        rng.shuffle(extras)
        for u in extras:
            trial = subterms(u, list(pool))
            if len(trial) <= pool_cap:
                pool = trial
        return pool, [(pool.index(s), pool.index(t)) for s, t in eqs]
    return ['a', 'b'], [(0, 1)] * n


def run_hol_script(ctx, script):
    """script = {'mode': 'assume'|'sorry', 'pool': [enc...], 'ops': [...]}; returns answers of the last full 'T'."""
    from prover import congc
    from kernel import theory
    from kernel.proofterm import ProofTerm
    from kernel.report import ProofReport
    pool = [S.from_json(e) for e in script['pool']]
    ops = script['ops']
    mode = script['mode']
    idx = {e: i for i, e in enumerate(pool)}
    app = {}
    for i, e in enumerate(pool):
        if not isinstance(e, str):
            app[i] = (idx[e[0]], idx[e[1]])           # KeyError = pool not subterm closed = harness bug
    sh = [enc_shadow(e) for e in pool]
    tm = [S.to_repo_term(s) for s in sh]
    n = len(pool)
    cache = {}

    def closure(pairs):
        key = frozenset(pairs)
        r = cache.get(key)
        if r is None:
            r = cache[key] = N.close(n, app, list(key))
        return r
    pos = [0]
    merged = []

    def wit():
        return {'kind': 'hol', 'script': {'mode': mode, 'pool': script['pool'], 'ops': ops[:pos[0] + 1]}}

    def hist():
        return ', '.join('%s = %s' % (S.tm_str(sh[i]), S.tm_str(sh[j])) for i, j in merged)

    def eqsh(i, j):
        return eq_shadow(sh[i], sh[j])

    def do_test(h, i, j, row):
        st, got = real(h.test, tm[i], tm[j])
        ctx.count('hol_test_queries')
        if st == 'exc':
            ctx.violation('HOLTEST:raises-on-closed-terms', 'after merges [%s] test(%s, %s) raised %s'
                          % (hist(), S.tm_str(sh[i]), S.tm_str(sh[j]), type(got).__name__), wit())
            return None
        want = N.related(row, i, j)
        if bool(got) != want:
            if got:
                ctx.violation('HOLTEST:reports-equal-but-not-entailed', 'after merges [%s] test(%s, %s)=True, not entailed'
                              % (hist(), S.tm_str(sh[i]), S.tm_str(sh[j])), wit())
            else:
                ctx.violation('HOLTEST:misses-entailed-equality', 'after merges [%s] test(%s, %s)=False, but entailed'
                              % (hist(), S.tm_str(sh[i]), S.tm_str(sh[j])), wit())
            return None
        if want and i != j:
            ctx.count('hol_test_true')
        return bool(got)

    def do_explain(h, i, j, row):
        want = N.related(row, i, j)
        desc = 'after merges [%s] explain(%s, %s)' % (hist(), S.tm_str(sh[i]), S.tm_str(sh[j]))
        st, pt = real(h.explain, tm[i], tm[j])
        if st == 'exc':
            if want and i != j:
                ctx.count('hol_explain_raised_on_entailed:' + type(pt).__name__)
                if ctx.counters['hol_explain_raised_on_entailed:' + type(pt).__name__] == 1:
                    ctx.note('observation (outside the statement: no explanation is returned): %s raised %s: %s'
                             % (desc, type(pt).__name__, str(pt)[:120]))
            elif want:
                ctx.count('hol_explain_raised_on_identical_terms:' + type(pt).__name__)
            else:
                ctx.count('hol_explain_rejected_non_entailed')
            return True
        ctx.count('hol_explanations_returned')
        st, prf = real(pt.export)
        if st == 'exc':
            ctx.count('hol_export_raised:' + type(prf).__name__)
            return True
        rpt = ProofReport()
        st, th = real(theory.check_proof, prf, rpt)
        if st == 'exc':
            ctx.violation('HOLX:proof-rejected-by-checker', '%s returned a proof that check_proof rejects with %s: %s'
                          % (desc, type(th).__name__, str(th)[:150]), wit())
            return False
        ctx.count('hol_proofs_checked')
        hyps, prop = S.thm_shadow(th)
        if prop != eqsh(i, j):
            ctx.violation('HOLX:theorem-concludes-another-statement', '%s yields a theorem concluding %s' % (desc, S.tm_str(prop)), wit())
            return False
        allowed = {eqsh(a, b): (a, b) for a, b in merged}
        used = []
        for hy in hyps:
            if hy not in allowed:
                ctx.violation('HOLX:hypothesis-not-a-merged-equation', '%s yields a theorem with hypothesis %s' % (desc, S.tm_str(hy)), wit())
                return False
            used.append(allowed[hy])
        for g in rpt.gaps:
            gh, gp = S.thm_shadow(g)
            if gp not in allowed or any(x not in allowed for x in gh):
                ctx.violation('HOLX:placeholder-not-a-merged-equation', '%s leaves the gap %s' % (desc, S.tm_str(gp)), wit())
                return False
            used.append(allowed[gp])
        if rpt.gaps:
            ctx.count('hol_proofs_with_placeholders' if mode == 'sorry' else 'hol_placeholder_although_merge_had_proof')
        else:
            ctx.count('hol_proofs_gap_free')
        if len(used) >= 2:
            ctx.count('hol_proofs_using_2plus_equations')
        if not N.related(closure(used), i, j):
            ctx.violation('HOLX:accepted-theorem-not-entailed-by-its-hypotheses', '%s: hypotheses/gaps of the accepted theorem do not entail it'
                          % desc, wit())
            return False
        return True

    def pairs_all():
        return [(i, j) if (i + j) % 2 == 0 else (j, i) for i in range(n) for j in range(i, n)]

    last = None
    try:
        h = congc.CongClosureHOL()
        for k, op in enumerate(ops):
            pos[0] = k
            kind = op[0]
            if kind == 'm':
                i, j = op[1], op[2]
                pt = ProofTerm.assume(S.to_repo_term(eqsh(i, j))) if mode == 'assume' else None
                st, r = real(h.merge, tm[i], tm[j], pt=pt)
                ctx.count('hol_merges')
                if st == 'exc':
                    ctx.count('hol_merge_raised:' + type(r).__name__)
                    ctx.note('HOL merge raised %r after [%s]' % (r, hist()))
                    return None
                merged.append((i, j))
            elif kind == 'a':
                st, r = real(h.add_term, tm[op[1]])
                ctx.count('hol_add_term_calls')
                if st == 'exc':
                    ctx.count('hol_add_term_raised:' + type(r).__name__)
                    return None
            elif kind == 'T':
                stride, off = op[1], op[2]
                row = closure(merged)
                eqp = set()
                for q, (i, j) in enumerate(pairs_all()):
                    if (q + off) % stride:
                        continue
                    g = do_test(h, i, j, row)
                    if g is None:
                        return None
                    if g:
                        eqp.add((min(i, j), max(i, j)))
                if stride == 1:
                    last = frozenset(eqp)
            elif kind == 't':
                if do_test(h, op[1], op[2], closure(merged)) is None:
                    return None
            elif kind == 'X':
                cap, off = op[1], op[2]
                row = closure(merged)
                prs = [(i, j) for i in range(n) for j in range(n) if i != j and N.related(row, i, j)]
                if prs:
                    o = off % len(prs)
                    prs = (prs[o:] + prs[:o])[:cap]
                non = [(i, j) for i in range(n) for j in range(n) if not N.related(row, i, j)]
                if non:
                    prs.append(non[off % len(non)])
                prs.append((off % n, off % n))
                for i, j in prs:
                    if not do_explain(h, i, j, row):
                        return None
            elif kind == 'x':
                if not do_explain(h, op[1], op[2], closure(merged)):
                    return None
            else:
                raise ValueError('bad op %r' % (op,))
    except C17InvariantBroken:
        ctx.violation('INV:' + str(INV['last']), 'CongClosure invariant broken inside CongClosureHOL at op %d %r after merges [%s]'
                      % (pos[0], ops[pos[0]] if ops else None, hist()), wit())
        return None
    return last


def hol_nontrivial(script):
    pool = [S.from_json(e) for e in script['pool']]
    idx = {e: i for i, e in enumerate(pool)}
    app = {i: (idx[e[0]], idx[e[1]]) for i, e in enumerate(pool) if not isinstance(e, str)}
    merged = [(op[1], op[2]) for op in script['ops'] if op[0] == 'm']
    if len(merged) < 2:
        return False
    row = N.close(len(pool), app, merged)
    lit = set(merged) | {(j, i) for i, j in merged}
    return any(N.related(row, i, j) and (i, j) not in lit for i in range(len(pool)) for j in range(i + 1, len(pool)))


def hol_case(ctx, script, mon=None, key=None, sample=False):
    ans = run_hol_script(ctx, script)
    ctx.case(('hol', repr(script)), nontrivial=hol_nontrivial(script), sample={'kind': 'hol', 'script': script} if sample else None)
    if mon is not None:
        mon.put(key, ans, script)


def hol_script(rng, pool, order, style, mode, xcap):
    jp = S.jsonable(tuple(pool))
    ops = []
    if style == 'C':                                   # all terms entered before any merge, in random order
        ids = list(range(len(pool)))
        rng.shuffle(ids)
        ops += [['a', i] for i in ids]
    for k, (i, j) in enumerate(order):
        ops.append(['m', i, j])
        if style == 'A':                               # whole matrix + explanations after every merge
            ops += [['T', 1, 0], ['X', xcap, k * 7]]
        elif style == 'R':                             # random partial queries between merges
            if rng.random() < 0.6:
                ops.append(['T', rng.choice([2, 3, 5]), rng.randrange(5)])
            if rng.random() < 0.5:
                ops.append(['X', rng.choice([3, 8]), rng.randrange(1000)])
            if rng.random() < 0.3:
                ops.append(['a', rng.randrange(len(pool))])
    ops += [['T', 1, 0], ['X', xcap, rng.randrange(1000) if style == 'R' else 3]]
    return {'mode': mode, 'pool': jp, 'ops': ops}


# =============================================================================== util.unionfind
def uf_parent_cycle(uf):
    """read-only look at UnionFind.parents: an item from which the parent chain never reaches None"""
    par = uf.parents
    for x in par:
        y, steps = x, 0
        while par[y] is not None:
            y = par[y]
            steps += 1
            if steps > len(par):
                return x
    return None


def run_uf_script(ctx, ops):
    """ops: ['i',x] insert, ['u',x,y,force] union, ['q'] query all pairs.  Naive model: list of sets.
    Supplementary monitor (util/unionfind.py is an anchor file of C17 but no caller of it exists in the repo
    and the statement does not mention it): only answers of find that contradict the naive partition are
    violations; a parent cycle after union inside one class (find would never return) is recorded as an observation."""
    from util.unionfind import UnionFind
    uf = UnionFind()
    part = []

    def cls(x):
        for s in part:
            if x in s:
                return s
        return None
    for k, op in enumerate(ops):
        w = {'kind': 'uf', 'ops': ops[:k + 1]}
        if op[0] == 'i':
            st, r = real(uf.insert, op[1])
            if cls(op[1]) is None:
                if st == 'exc':
                    ctx.count('uf_insert_raised')
                    return
                part.append({op[1]})
            elif st == 'ok':
                ctx.count('uf_duplicate_insert_accepted')
                return
        elif op[0] == 'u':
            x, y, force = op[1], op[2], op[3]
            st0, rx = real(uf.find, x)
            st, r = real(uf.union, x, y, force)
            ctx.count('uf_unions')
            if st == 'exc' or st0 == 'exc':
                ctx.count('uf_union_raised')
                return
            a, b = cls(x), cls(y)
            same = a is b
            if not same:
                part.remove(b)
                a |= b
            bad = uf_parent_cycle(uf)
            if bad is not None:
                ctx.count('uf_observation_parent_cycle_after_union_%s' % ('within_one_class' if same else 'of_two_classes'))
                if not same:
                    ctx.violation('UF:parent-cycle-after-joining-two-classes', 'union(%r,%r) of two different classes left a parent cycle at %r'
                                  % (x, y, bad), w)
                elif ctx.counters['uf_observation_parent_cycle_after_union_within_one_class'] == 1:
                    ctx.note('observation (outside the statement; UnionFind has no caller in the repo): after ops %r union(%r,%r) of two items '
                             'already in one class makes the root its own parent, every later find() on that class loops forever' % (ops[:k], x, y))
                return
            if force:
                st, r2 = real(uf.find, y)
                if st == 'ok' and r2 != rx:
                    ctx.violation('UF:force_first-root-not-kept', 'union(%s,%s,force_first=True): root became %r, was %r' % (x, y, r2, rx), w)
                    return
        else:
            items = [x for s in part for x in s]
            for x in items:
                if uf.has_key(x) is not True:
                    ctx.violation('UF:inserted-item-unknown', 'has_key(%r) is false' % (x,), w)
                    return
                for y in items:
                    st, r1 = real(uf.find, x)
                    st2, r2 = real(uf.find, y)
                    ctx.count('uf_queries')
                    if st == 'exc' or st2 == 'exc':
                        ctx.violation('UF:find-raises-on-inserted-item', 'find raised on an inserted item', w)
                        return
                    if (r1 == r2) != (cls(x) is cls(y)):
                        ctx.violation('UF:find-disagrees-with-naive-partition', 'find(%r)=%r, find(%r)=%r but naive partition says %s'
                                      % (x, r1, y, r2, 'same class' if cls(x) is cls(y) else 'different classes'), w)
                        return
                    if r1 not in cls(x):
                        ctx.violation('UF:representative-outside-class', 'find(%r)=%r is not in the class of the item' % (x, r1), w)
                        return


def gen_uf_ops(rng):
    """half of the scripts only join items of different classes (a caller that checks find first), half join anything"""
    n = rng.randint(2, 9)
    guarded = rng.random() < 0.6
    ops, ins = [], []
    pending = list(range(n))
    rng.shuffle(pending)
    comp = {}
    for _ in range(rng.randint(4, 24)):
        r = rng.random()
        if pending and (r < 0.35 or len(ins) < 2):
            x = pending.pop()
            ins.append(x)
            comp[x] = x
            ops.append(['i', x])
        elif r < 0.8 and len(ins) >= 2:
            x, y = rng.choice(ins), rng.choice(ins)
            if guarded and comp[x] == comp[y]:
                continue
            cy = comp[y]
            for z in ins:
                if comp[z] == cy:
                    comp[z] = comp[x]
            ops.append(['u', x, y, rng.random() < 0.3])
        else:
            ops.append(['q'])
    ops.append(['q'])
    return ops


# =============================================================================== shards
def replay(ctx, w):
    k = w['kind']
    if k == 'raw':
        run_raw_script(ctx, w['script'])
    elif k == 'raw_pair':
        U = RawUniverse([op[1] for op in w['script'] + w['script2'] if op[0] == 'm'],
                        [op[1] for op in w['script'] + w['script2'] if op[0] == 'v'])
        mon = OrderMonitor(ctx, 'raw')
        mon.put(0, run_raw_script(ctx, w['script2'], U), w['script2'])
        mon.put(0, run_raw_script(ctx, w['script'], U), w['script'])
    elif k == 'hol':
        run_hol_script(ctx, w['script'])
    elif k == 'hol_pair':
        mon = OrderMonitor(ctx, 'hol')
        mon.put(0, run_hol_script(ctx, w['script2']), w['script2'])
        mon.put(0, run_hol_script(ctx, w['script']), w['script'])
    elif k == 'uf':
        run_uf_script(ctx, w['ops'])
    ctx.case('replay', sample=w)


def run_shard(ctx, spec):
    N.calibrate()
    install_invariant()
    if spec.get('kind') == 'raw_orders' and spec.get('i') == 0:
        ctx.note('invariant attached via ' + str(INV['how']))
    try:
        _run_shard(ctx, spec)
    finally:
        ctx.count('inv_evaluations', INV['evals'])


def _run_shard(ctx, spec):
    rng = ctx.rng
    if 'replay' in spec:
        from logic import basic
        basic.load_theory('logic_base')
        replay(ctx, spec['replay']['witness'])
        return
    kind = spec['kind']
    if kind in ('raw_allseq', 'raw_allseq_sample'):
        U = RawUniverse(EQS3)
        mon = OrderMonitor(ctx, 'raw')
        L = spec['len']
        if kind == 'raw_allseq':
            for q, seq in enumerate(itertools.product(range(len(EQS3)), repeat=L)):
                if q % spec['parts'] != spec['part']:
                    continue
                eqs = [EQS3[i] for i in seq]
                raw_case(ctx, full_script(eqs), U, mon, frozenset(seq), sample=(q % 9973 == 500))
                ctx.count('raw_allseq_scripts_len%d' % L)
            ctx.count('raw_allseq_parts_done')
            ctx.count('raw_allseq_len%d_parts_done' % L)
        else:
            for q in range(spec['count']):
                seq = tuple(rng.randrange(len(EQS3)) for _ in range(L))
                perms = set(itertools.permutations(seq))
                for p in sorted(perms):
                    raw_case(ctx, full_script([EQS3[i] for i in p]), U, mon, frozenset(seq))
                ctx.count('raw_sets_all_orders')
    elif kind == 'raw_orders':
        for q in range(spec['count']):
            eqs = gen_raw_set(rng)
            U = RawUniverse(eqs)
            mon = OrderMonitor(ctx, 'raw')
            for o, perm in enumerate(itertools.permutations(eqs)):
                raw_case(ctx, full_script(perm), U, mon, 0, sample=(q == 0 and o == 1 and spec['i'] < 2))
                ctx.count('raw_orders_run')
            ctx.count('raw_sets_all_orders')
            ctx.count('raw_sets_all_orders_n%d' % len(eqs))
    elif kind == 'raw_terms':
        for q in range(spec['count']):
            small = q % 2 == 0
            eqs = gen_term_set(rng, small)
            U = RawUniverse(eqs)
            mon = OrderMonitor(ctx, 'raw')
            if len(eqs) <= 5:
                for perm in itertools.permutations(eqs):
                    raw_case(ctx, full_script(perm), U, mon, 0)
                    ctx.count('raw_orders_run')
                ctx.count('raw_sets_all_orders')
                ctx.count('raw_term_sets_all_orders')
            else:
                for o in range(10):
                    perm = eqs[:]
                    if o:
                        rng.shuffle(perm)
                    raw_case(ctx, full_script(perm, cap=30), U, mon, 0, sample=(q == 1 and o == 1 and spec['i'] == 0))
                    ctx.count('raw_random_orders_run')
                ctx.count('raw_term_sets_random_orders')
    elif kind == 'raw_rand':
        for q in range(spec['count']):
            k = rng.choice([4, 5, 6, 8, 8])
            cs = ['c%d' % i for i in range(k)]
            n = rng.randint(6, 14)
            eqs = [(['f', rng.choice(cs), rng.choice(cs), rng.choice(cs)] if rng.random() < 0.6 else ['c', rng.choice(cs), rng.choice(cs)])
                   for _ in range(n)]
            U = RawUniverse(eqs, ['z%d' % i for i in range(1, 20)])
            mon = OrderMonitor(ctx, 'raw')
            for o in range(8):
                perm = eqs[:]
                rng.shuffle(perm)
                sc = rand_interleave(rng, perm, cs)
                ans = run_raw_script(ctx, sc, U)
                nt, cong = raw_nontrivial(U, sc)
                if cong:
                    ctx.count('raw_cases_with_congruence_consequence')
                ctx.case(('raw', repr(sc)), nontrivial=nt, sample={'kind': 'raw', 'script': sc} if (q == 0 and o == 0) else None)
                if ans is not None:   # add_var extras differ between scripts: compare on the common constants only
                    keep = set(cs)
                    ans = (tuple(c for c in ans[0] if c in keep), frozenset(p for p in ans[1] if p[0] in keep and p[1] in keep))
                mon.put(0, ans, sc)
                ctx.count('raw_random_orders_run')
    elif kind in ('hol_orders', 'hol_rand'):
        from logic import basic
        basic.load_theory('logic_base')
        for q in range(spec['count']):
            mode = 'assume' if q % 2 == 0 else 'sorry'
            if kind == 'hol_orders':
                n = rng.choice([2, 3, 3, 4, 4, 5])
                pool, eqs = gen_hol_set(rng, n, 16)
                mon = OrderMonitor(ctx, 'hol')
                for o, perm in enumerate(itertools.permutations(eqs)):
                    if n <= 3:
                        styles = ['A', 'B', 'C']
                    elif n == 4:
                        styles = ['A', 'B'] if o % 2 == 0 else ['A', 'C']
                    else:
                        styles = [['A'], ['B'], ['C'], ['B']][o % 4]
                    for stl in styles:
                        sc = hol_script(rng, pool, perm, stl, mode, 12)
                        hol_case(ctx, sc, mon, 0, sample=(q == 0 and o == 1 and stl == 'A' and spec['i'] < 2))
                        ctx.count('hol_scripts_style_' + stl)
                    ctx.count('hol_orders_run')
                ctx.count('hol_sets_all_orders')
                ctx.count('hol_sets_all_orders_n%d' % n)
            else:
                n = rng.randint(6, 10)
                pool, eqs = gen_hol_set(rng, n, 26)
                mon = OrderMonitor(ctx, 'hol')
                for o in range(6):
                    perm = eqs[:]
                    rng.shuffle(perm)
                    sc = hol_script(rng, pool, perm, rng.choice(['A', 'B', 'C', 'R', 'R']), mode, 20)
                    hol_case(ctx, sc, mon, 0, sample=(q == 0 and o == 0))
                    ctx.count('hol_random_orders_run')
    elif kind == 'uf':
        for q in range(spec['count']):
            ops = gen_uf_ops(rng)
            run_uf_script(ctx, ops)
            ctx.case(('uf', repr(ops)), nontrivial=sum(1 for o in ops if o[0] == 'u') >= 2)
            ctx.count('uf_scripts')
    else:
        raise ValueError(kind)


def coverage_extra(counters, tier):
    done3 = counters.get('raw_allseq_len3_parts_done', 0)
    return {'exhaustive': bool(counters.get('raw_allseq_len1_parts_done') and counters.get('raw_allseq_len2_parts_done')
                               and counters.get('raw_sets_all_orders') and counters.get('hol_sets_all_orders')),
            'exhaustive_scope': ('every merge sequence of length <= 2 (quick) / <= 3 (thorough, %d of 12 partitions done this run) over ALL 36 '
                                 'equations a=b, f(a1,a2)=a on 3 constants, with the full test matrix and all explanations after every '
                                 'merge; and ALL n! merge orders of every generated equation set with n <= 5 (%d raw sets, %d HOL sets '
                                 'this run), full matrix after every prefix.  The equation sets themselves are sampled, not enumerated; '
                                 'sets of > 5 equations get random orders only.' % (done3, counters.get('raw_sets_all_orders', 0),
                                                                                   counters.get('hol_sets_all_orders', 0))),
            'invariant_evaluations': counters.get('inv_evaluations', 0)}
