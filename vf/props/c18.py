"""C18 - every accepted veriT (Alethe) proof step is a logical consequence of its premises.

Monitor : instance-level wrapper on `eval` of every registered verit_* macro object (kernel.theory.global_macros),
          so direct calls and the calls made by ProofTerm(...) inside ProofReconstruction.validate are both seen.
Oracle  : vf.oracle_c18_sem.judge on shadow terms - Z3 searches a counter-model of
          H_res /\\ premise sequents /\\ ~C ; the model is re-evaluated by an independent evaluator when
          quantifier-free (or quantifiers range over the model's finite universes).  Truth tables for the
          end-to-end propositional proofs.  Hypotheses of a result must come from the premises.
Workload: vf.oracle_c18_gen - correct template instances of 87 Alethe rule names (82 macros) over random atoms/terms, each followed
          by near-miss mutations; synthetic assume/step proofs written as Alethe text, parsed by the repo's parser
          and run through the real ProofReconstruction.validate(is_eval=True).
"""
import os, sys, json
from collections import Counter
from vf import shadow as S
from vf.core import h64

ID = 'C18'
LEVEL = 'exploration'
RULE = ('case = one call of a verit_* macro eval on (clause, premises, step args, context) assembled as '
        'ProofReconstruction.validate_step does: a correct template instance of an Alethe rule over random '
        'atoms/terms, or one near-miss mutation of it (literal dropped/added/negated/swapped, subterm replaced, '
        'connective head swapped, premise shortened/mutated/dropped/duplicated, la_generic coefficient perturbed, '
        'wrong pivot / clause sizes in resolution, context changed); or one synthetic Alethe proof text '
        '(assume/step/anchor, satisfiable assumptions, resolution chains with near-miss errors) parsed by the repo '
        'parser and validated in eval mode.  distinct = hash of (macro, arguments, premises) resp. of the proof text; '
        'every executed case counts as non-trivial')
ASSUMPTIONS = ['no veriT binary and no recorded proof files in the repository (smt/veriT/example holds only .smt2 inputs, '
               'verit_bugs.txt only 4 context-dependent lines): all steps are synthetic, none is solver-produced',
               'semantics: free HOL variables = SMT-LIB declared symbols (fixed by the model), type variables = uninterpreted '
               'sorts, Some = Hilbert choice (a constant with the choice axiom + extensionality between choice terms), '
               'variables bound by a step context (anchor args) are universally closed in premises whose context '
               'hypotheses the step discharges',
               'x/0, and integer division by a negative divisor, have no agreed meaning between SMT-LIB and HOL: a counter-model '
               'that needs them is inconclusive',
               'for formulas with quantifiers over int/real a Z3 "sat" answer is taken as a counter-model without '
               're-evaluation (counted separately as refuted_z3); Z3 unknown / unencodable terms are inconclusive',
               'Z3 runs under a deterministic resource limit (rlimit), plus a 20 s safety timeout whose expiry yields unknown',
               'a macro returning None (no theorem) is counted as returned_none, not as an acceptance']
REQUIRED = {'quick': {'rules_accepted_on_correct_instance': 50, 'accepted_judged': 1800, 'rejected': 3500,
                      'nearmiss_accepted_judged': 150, 'oracle:held': 1600, 'e2e_scripts_validated': 120,
                      'e2e_steps_accepted': 900, 'e2e_subproof_closings_checked': 60,
                      'e2e_subproof_closings_with_several_assumptions': 30, 'e2e_subproof_assumption_after_nested_block': 10,
                      'e2e_fo_closing_accepted:proper-block': 5, 'e2e_fo_closing_rejected:empty-block': 20},
            'thorough': {'rules_accepted_on_correct_instance': 50, 'accepted_judged': 40000, 'rejected': 100000,
                         'nearmiss_accepted_judged': 5000, 'oracle:held': 35000, 'e2e_scripts_validated': 3000,
                         'e2e_steps_accepted': 20000, 'e2e_subproof_closings_checked': 1200,
                         'e2e_subproof_closings_with_several_assumptions': 600,
                         'e2e_subproof_assumption_after_nested_block': 200,
                         'e2e_fo_closing_accepted:proper-block': 100, 'e2e_fo_closing_rejected:empty-block': 400}}
SHARD_TIMEOUT = {'quick': 600, 'thorough': 3600}

BLOCK_CLOSERS = ('subproof', 'bind', 'sko_ex', 'sko_forall', 'onepoint', 'let')
DISCHARGING = ('verit_bind', 'verit_sko_ex', 'verit_sko_forall', 'verit_let', 'verit_subproof', 'verit_onepoint')


def all_rules():
    from vf import oracle_c18_gen as GEN
    return GEN.RULES


def shards(tier, seed):
    # rule names are needed to partition: import lazily (generator module imports nothing from the repo at import time)
    rules = all_rules()
    out = []
    if tier == 'quick':
        nr, per, muts = 12, 12, 6
        for i in range(nr):
            out.append({'kind': 'rules', 'rules': rules[i::nr], 'per': per, 'muts': muts, 'count_rules': True, 'i': i})
        for i in range(4):
            out.append({'kind': 'e2e', 'scripts': 40, 'i': i})
    else:
        nr, reps = 16, 4
        for rep in range(reps):
            for i in range(nr):
                out.append({'kind': 'rules', 'rules': rules[i::nr], 'per': 100, 'muts': 8, 'count_rules': rep == 0,
                            'i': i, 'rep': rep})
        for i in range(16):
            out.append({'kind': 'e2e', 'scripts': 300, 'i': i})
    return out


# ====================================================================== serialisation of macro arguments
def ser(a):
    from kernel.term import Term
    from kernel.thm import Thm
    if isinstance(a, Term):
        return {'t': S.jsonable(S.tm_shadow(a))}
    if isinstance(a, Thm):
        return {'th': [[S.jsonable(S.tm_shadow(h)) for h in a.hyps], S.jsonable(S.tm_shadow(a.prop))]}
    if isinstance(a, dict):
        return {'d': {str(k): ser(v) for k, v in a.items()}}
    if isinstance(a, tuple):
        return {'tu': [ser(x) for x in a]}
    if isinstance(a, list):
        return {'l': [ser(x) for x in a]}
    if isinstance(a, bool) or isinstance(a, int):
        return {'i': a}
    if isinstance(a, str):
        return {'s': a}
    if a is None:
        return {'none': 1}
    raise TypeError('cannot serialise %r' % type(a))


def deser(d):
    from kernel.thm import Thm
    if 't' in d:
        return S.to_repo_term(S.from_json(d['t']))
    if 'th' in d:
        hy = tuple(S.to_repo_term(S.from_json(h)) for h in d['th'][0])
        return Thm(S.to_repo_term(S.from_json(d['th'][1])), hy)
    if 'd' in d:
        return {k: deser(v) for k, v in d['d'].items()}
    if 'tu' in d:
        return tuple(deser(x) for x in d['tu'])
    if 'l' in d:
        return [deser(x) for x in d['l']]
    if 'i' in d:
        return d['i']
    if 's' in d:
        return d['s']
    return None


def show_args(a, depth=0):
    from kernel.term import Term
    if isinstance(a, Term):
        return S.tm_str(S.tm_shadow(a))
    if isinstance(a, dict):
        return '{' + ', '.join('%s: %s' % (k, show_args(v)) for k, v in a.items()) + '}'
    if isinstance(a, (tuple, list)):
        return '(' + ', '.join(show_args(x) for x in a) + ')'
    return str(a)


# ====================================================================== the monitor
class Monitor:
    def __init__(self, ctx):
        self.ctx = ctx
        self.label = 'unlabelled'
        self.rule = None
        self.cache = {}
        self.last = None       # verdict of the most recent acceptance (status, mech or None)
        self.last_prevs = []   # premises (Thm objects) of the most recent acceptance
        self.installed = []
        self.accepted_macros = set()

    def install(self):
        from kernel import theory
        for name, macro in sorted(theory.global_macros.items()):
            if not name.startswith('verit_'):
                continue
            if type(macro).eval is _macro_base().eval:
                continue        # no eval of its own (proof-term only helper)
            self._wrap(name, macro)
            self.installed.append(name)
            self.ctx.count('hooked:' + name)

    def _wrap(self, name, macro):
        orig = macro.eval
        mon = self

        def ev(args, prevs=None):
            c = mon.ctx
            c.count('calls')
            try:
                th = orig(args, prevs)
            except BaseException:
                c.count('rejected')
                c.count('rej:' + name)
                mon.last = ('rejected', None)
                raise
            if th is None:
                c.count('returned_none')
                c.count('none:' + name)
                mon.last = ('none', None)
                return th
            c.count('accepted')
            c.count('acc:' + name)
            mon.accepted_macros.add(name)
            mon.last_prevs = list(prevs) if prevs is not None else []
            try:
                mon.on_accept(name, args, prevs, th)
            except Exception as e:
                import traceback
                c.count('monitor_error')
                c.note('monitor error on %s: %s' % (name, traceback.format_exc()[-600:]))
                mon.last = ('monitor_error', None)
            return th
        ev._vf_orig = orig
        macro.eval = ev

    # -------------------------------------------------------------- judgement of one acceptance
    def on_accept(self, name, args, prevs, th):
        from vf import oracle_c18_sem as O
        ctx = self.ctx
        prevs = list(prevs) if prevs is not None else []
        prem = [(tuple(S.tm_shadow(h) for h in p.hyps), S.tm_shadow(p.prop)) for p in prevs]
        res = (tuple(S.tm_shadow(h) for h in th.hyps), S.tm_shadow(th.prop))
        sargs = ser(args)
        key = h64(json.dumps([name, sargs, S.jsonable(prem), S.jsonable(res)], sort_keys=True))
        if key in self.cache:
            self.last = self.cache[key]
            ctx.count('accepted_cached')
            return
        ctx.count('accepted_judged')
        if self.label != 'correct' and self.label != 'e2e':
            ctx.count('nearmiss_accepted_judged')
        # context variables: keys of a context dict (typed by their value) and variable values
        ctxvars = set()
        ctxd = None
        for a in (args if isinstance(args, (tuple, list)) else ()):
            if isinstance(a, dict):
                ctxd = a
                for k, v in a.items():
                    sv = S.tm_shadow(v)
                    try:
                        ctxvars.add(('var', k, S.typeof(sv)))
                    except S.ShadowError:
                        pass
                    if sv[0] == 'var':
                        ctxvars.add(sv)
        rhs_al = set(S.alpha(h) for h in res[0])
        for hy, p in prem:
            for h in hy:
                if S.alpha(h) not in rhs_al:
                    hh, aa = S.strip_comb(h)
                    if hh[0] == 'const' and hh[1] == 'equals' and len(aa) == 2 and aa[0][0] == 'var':
                        ctxvars.add(aa[0])
        # hypotheses of the result must come from the premises (refl: from the context)
        prem_hyps = set(S.alpha(h) for hy, _ in prem for h in hy)
        extra = [h for h in res[0] if S.alpha(h) not in prem_hyps]
        mech = None
        status = None
        if extra:
            ok_ctx = False
            if name == 'verit_refl' and ctxd is not None:
                ok_ctx = all(self._is_ctx_equation(h, ctxd) for h in extra)
            if ok_ctx:
                ctx.count('hyps_from_context')
            else:
                mech = name[6:] + ':hypothesis-not-from-premises'
                self._report(mech, name, args, prevs, th, sargs, 'result hypothesis %s is not a hypothesis of any premise'
                             % S.tm_str(extra[0])[:120], None)
        st, info = O.judge(prem, res, ctxvars)
        ctx.count('oracle:' + st)
        if st in ('ill_typed', 'unencodable', 'unknown', 'disagree'):
            ctx.count('inconclusive:%s:%s' % (st, name[6:]))
            if st != 'ill_typed':
                ctx.count('inconclusive_reason:%s' % str(info)[:60])
        status = st
        if st in ('refuted', 'refuted_z3'):
            tag = 'non-consequence'
            missing = [h for hy, _ in prem for h in hy if S.alpha(h) not in rhs_al]
            if missing and name not in DISCHARGING:
                st2, _ = O.judge(prem, (tuple(res[0]) + tuple(missing), res[1]), ctxvars)
                if st2 == 'held':
                    tag = 'conclusion-loses-hypotheses'
            elif missing and name == 'verit_subproof':
                # local assumptions are discharged legitimately; hypotheses of the last premise that are not
                # local assumptions must survive
                st2, _ = O.judge(prem, (tuple(res[0]) + tuple(missing), res[1]), ctxvars)
                if st2 == 'held':
                    tag = 'conclusion-loses-hypotheses'
            mech = name[6:] + ':' + tag
            if self.label.startswith('hostile:'):
                # instances built by a directed template carry its name: the recorded findings are then keyed by the
                # particular weakness the template aims at, not just by the rule
                mech += '@' + self.label[8:]
            self._report(mech, name, args, prevs, th, sargs,
                         'accepted but not a consequence (%s)' % st, info)
        elif st == 'disagree':
            ctx.note('oracle disagreement (Z3 sat, evaluator does not confirm) on %s %s' % (name, show_args(args)[:300]))
        self.last = (status, mech)
        self.cache[key] = self.last

    @staticmethod
    def _is_ctx_equation(h, ctxd):
        hh, aa = S.strip_comb(h)
        if not (hh[0] == 'const' and hh[1] == 'equals' and len(aa) == 2):
            return False
        for x, t in ((aa[0], aa[1]), (aa[1], aa[0])):
            if x[0] == 'var' and x[1] in ctxd and S.alpha(S.tm_shadow(ctxd[x[1]])) == S.alpha(t):
                return True
        return False

    def _report(self, mech, name, args, prevs, th, sargs, what, info):
        prem_s = '; '.join('%s |- %s' % (', '.join(S.tm_str(S.tm_shadow(h)) for h in p.hyps),
                                          S.tm_str(S.tm_shadow(p.prop))) for p in prevs)
        res_s = '%s |- %s' % (', '.join(S.tm_str(S.tm_shadow(h)) for h in th.hyps), S.tm_str(S.tm_shadow(th.prop)))
        desc = '%s.eval %s: premises [%s] ==> %s ; args %s ; case=%s' % (
            name, what, prem_s[:400], res_s[:400], show_args(args)[:300], self.label)
        self.ctx.violation(mech, desc, {'macro': name, 'args': sargs, 'prevs': [ser(p) for p in prevs],
                                        'result': ser(th), 'label': self.label, 'oracle': info})


# ====================================================================== rule workload
def run_instance(mon, ctx, I):
    from vf import oracle_c18_gen as GEN
    from kernel import theory
    macro, args, prevs = GEN.assemble(I)
    mon.label = I['kind']
    mon.rule = I['rule']
    mon.last = None
    key = (macro, json.dumps(ser(args), sort_keys=True), json.dumps([ser(p) for p in prevs], sort_keys=True))
    sample = None
    if I['kind'] == 'correct' and ctx.rng.random() < 0.02:
        sample = '%s %s' % (macro, show_args(args)[:200])
    ctx.case(key, nontrivial=True, sample=sample)
    if macro not in theory.global_macros:
        ctx.count('no_such_macro:' + macro)
        return 'nomacro'
    try:
        th = theory.global_macros[macro].eval(args, list(prevs))
    except Exception:
        return 'rejected'
    except BaseException:
        return 'rejected'
    if th is None:
        return 'none'
    return 'accepted'


def run_rules(ctx, spec):
    from vf import oracle_c18_gen as GEN
    mon = Monitor(ctx)
    mon.install()
    g = GEN.G(ctx.rng)
    ok_rules = set()
    for rule in spec['rules']:
        for i in range(spec['per']):
            I = GEN.make(g, rule)
            if I is None:
                ctx.count('template_gave_nothing:' + rule)
                continue
            r = run_instance(mon, ctx, I)
            ctx.count('correct_%s' % r)
            ctx.count('correct_%s:%s' % (r, rule))
            if r == 'accepted':
                ok_rules.add(rule)
            for _ in range(spec['muts']):
                J = None
                for _try in range(4):
                    J = GEN.mutate(g, I)
                    if J is not None:
                        break
                if J is not None and J['kind'] != 'dup_prem' and ctx.rng.random() < 0.3:
                    # two independent edits (e.g. zeroed la_generic coefficients AND a changed literal)
                    J2 = GEN.mutate(g, J)
                    if J2 is not None and J2['kind'] != 'dup_prem':
                        J2['kind'] = J['kind'] + '+' + J2['kind']
                        J = J2
                if J is None:
                    ctx.count('mutation_gave_nothing')
                    continue
                r2 = run_instance(mon, ctx, J)
                ctx.count('nearmiss_%s' % r2)
                ctx.count('mut:%s:%s' % (J['kind'].split('+')[0] + ('+' if '+' in J['kind'] else ''), r2))
        for _ in range(max(12, spec['per']) if GEN.HOSTILE.get(rule) else 0):
            J = GEN.make_hostile(g, rule)
            if J is None:
                continue
            r2 = run_instance(mon, ctx, J)
            ctx.count('nearmiss_%s' % r2)
            ctx.count('mut:%s:%s' % (J['kind'], r2))
    if spec.get('count_rules'):
        ctx.count('rules_accepted_on_correct_instance', len(ok_rules))
        for r in spec['rules']:
            if r not in ok_rules:
                ctx.count('rule_never_accepted:' + r)


# ====================================================================== end-to-end proofs
class E2E:
    """synthetic Alethe proof over boolean atoms; formulas are a mini AST:
    ('v', name) | ('not', f) | ('and', [f..]) | ('or', [f..]) | ('imp', f, g) | ('iff', f, g) | ('ite', f, g, h)"""
    def __init__(self, rng):
        self.rng = rng
        self.atoms = ['q%d' % i for i in range(rng.choice([4, 5, 6]))]

    def lit(self):
        v = ('v', self.rng.choice(self.atoms))
        return v if self.rng.random() < 0.5 else ('not', v)

    def lits(self, n):
        out = []
        while len(out) < n:
            l = self.lit()
            if l not in out and neg(l) not in out:
                out.append(l)
        return out

    def assumption(self):
        r = self.rng
        k = r.choice(['clause', 'clause', 'clause', 'unit', 'and', 'nor', 'nand', 'imp', 'iff', 'nimp', 'niff',
                      'ite', 'nite'])
        if k == 'clause':
            return ('or', self.lits(r.choice([2, 2, 3])))
        if k == 'unit':
            return self.lit()
        if k == 'and':
            return ('and', self.lits(r.choice([2, 3])))
        if k == 'nor':
            return ('not', ('or', self.lits(r.choice([2, 3]))))
        if k == 'nand':
            return ('not', ('and', self.lits(r.choice([2, 3]))))
        a, b, c = self.lits(3)
        if k == 'imp':
            return ('imp', a, b)
        if k == 'iff':
            return ('iff', a, b)
        if k == 'nimp':
            return ('not', ('imp', a, b))
        if k == 'niff':
            return ('not', ('iff', a, b))
        if k == 'ite':
            return ('ite', a, b, c)
        return ('not', ('ite', a, b, c))


def neg(f):
    return f[1] if f[0] == 'not' else ('not', f)


def strict_neg(f):
    return ('not', f)


def ev(f, asg):
    k = f[0]
    if k == 'v':
        return asg[f[1]]
    if k == 'not':
        return not ev(f[1], asg)
    if k == 'and':
        return all(ev(x, asg) for x in f[1])
    if k == 'or':
        return any(ev(x, asg) for x in f[1])
    if k == 'imp':
        return (not ev(f[1], asg)) or ev(f[2], asg)
    if k == 'iff':
        return ev(f[1], asg) == ev(f[2], asg)
    if k == 'ite':
        return ev(f[2], asg) if ev(f[1], asg) else ev(f[3], asg)
    raise ValueError(f)


def smt(f):
    k = f[0]
    if k == 'v':
        return f[1]
    if k == 'not':
        return '(not %s)' % smt(f[1])
    if k in ('and', 'or'):
        return '(%s %s)' % (k, ' '.join(smt(x) for x in f[1]))
    if k == 'imp':
        return '(=> %s %s)' % (smt(f[1]), smt(f[2]))
    if k == 'iff':
        return '(= %s %s)' % (smt(f[1]), smt(f[2]))
    if k == 'ite':
        return '(ite %s %s %s)' % (smt(f[1]), smt(f[2]), smt(f[3]))
    raise ValueError(f)


def satisfiable(forms, atoms):
    import itertools
    for vals in itertools.product([False, True], repeat=len(atoms)):
        asg = dict(zip(atoms, vals))
        if all(ev(f, asg) for f in forms):
            return True
    return False


def clausify(f):
    """list of (rule, clause) that Alethe derives from the assumed formula f"""
    k = f[0]
    if k == 'or':
        return [('or', list(f[1]))]
    if k == 'and':
        return [('and', [x]) for x in f[1]]
    if k == 'imp':
        return [('implies', [strict_neg(f[1]), f[2]])]
    if k == 'iff':
        return [('equiv1', [strict_neg(f[1]), f[2]]), ('equiv2', [f[1], strict_neg(f[2])])]
    if k == 'ite':
        return [('ite1', [f[1], f[3]]), ('ite2', [strict_neg(f[1]), f[2]])]
    if k == 'not':
        g = f[1]
        if g[0] == 'or':
            return [('not_or', [strict_neg(x)]) for x in g[1]]
        if g[0] == 'and':
            return [('not_and', [strict_neg(x) for x in g[1]])]
        if g[0] == 'imp':
            return [('not_implies1', [g[1]]), ('not_implies2', [strict_neg(g[2])])]
        if g[0] == 'iff':
            return [('not_equiv1', [g[1], g[2]]), ('not_equiv2', [strict_neg(g[1]), strict_neg(g[2])])]
        if g[0] == 'ite':
            return [('not_ite1', [g[1], strict_neg(g[3])]), ('not_ite2', [strict_neg(g[1]), strict_neg(g[2])])]
    return []


def tautologies(f):
    """tautology steps about a compound formula f: (rule, clause)"""
    k = f[0]
    out = []
    if k == 'and':
        out += [('and_pos', [strict_neg(f), x]) for x in f[1]]
        out.append(('and_neg', [f] + [strict_neg(x) for x in f[1]]))
    if k == 'or':
        out.append(('or_pos', [strict_neg(f)] + list(f[1])))
        out += [('or_neg', [f, strict_neg(x)]) for x in f[1]]
    if k == 'imp':
        out += [('implies_pos', [strict_neg(f), strict_neg(f[1]), f[2]]), ('implies_neg1', [f, f[1]]),
                ('implies_neg2', [f, strict_neg(f[2])])]
    if k == 'iff':
        out += [('equiv_pos1', [strict_neg(f), f[1], strict_neg(f[2])]), ('equiv_pos2', [strict_neg(f), strict_neg(f[1]), f[2]]),
                ('equiv_neg1', [f, strict_neg(f[1]), strict_neg(f[2])]), ('equiv_neg2', [f, f[1], f[2]])]
    if k == 'ite':
        out += [('ite_pos1', [strict_neg(f), f[1], f[3]]), ('ite_pos2', [strict_neg(f), strict_neg(f[1]), f[2]]),
                ('ite_neg1', [f, f[1], strict_neg(f[3])]), ('ite_neg2', [f, strict_neg(f[1]), strict_neg(f[2])])]
    return out


def resolve(c1, c2):
    """first complementary pair (l in c1, (not l) in c2 or the other way round) -> resolvent or None"""
    for l in c1:
        for m in c2:
            if m == ('not', l) or l == ('not', m):
                res = [x for x in c1 if x != l]
                for x in c2:
                    if x != m and x not in res:
                        res.append(x)
                ded = []
                for x in res:
                    if x not in ded:
                        ded.append(x)
                return ded
    return None


def build_script(rng, want_sat):
    """-> (atoms, lines [(id, text, rule)], assumptions)"""
    e = E2E(rng)
    for _ in range(30):
        assms = [e.assumption() for _ in range(rng.choice([3, 4, 5, 6]))]
        if not want_sat or satisfiable(assms, e.atoms):
            break
    else:
        assms = [e.lit()]
    lines = []
    clauses = []         # (id, clause list)
    n = [0]
    pm = 0.3

    def fresh():
        n[0] += 1
        return 't%d' % n[0]

    def claim(cl, rule):
        """possibly a near-miss of the correct clause"""
        cl = list(cl)
        if rng.random() >= pm:
            return cl, False
        k = rng.choice(['drop', 'neg', 'replace', 'add', 'swap'])
        if k == 'drop' and cl:
            del cl[rng.randrange(len(cl))]
        elif k == 'neg' and cl:
            i = rng.randrange(len(cl))
            cl[i] = neg(cl[i])
        elif k == 'replace' and cl:
            cl[rng.randrange(len(cl))] = e.lit()
        elif k == 'add':
            cl.insert(rng.randrange(len(cl) + 1), e.lit())
        elif k == 'swap' and len(cl) > 1:
            i, j = rng.sample(range(len(cl)), 2)
            cl[i], cl[j] = cl[j], cl[i]
        return cl, True

    def emit(rule, cl, prem=()):
        sid = fresh()
        txt = '(step %s (cl %s) :rule %s' % (sid, ' '.join(smt(x) for x in cl), rule)
        if not cl:
            txt = '(step %s (cl) :rule %s' % (sid, rule)
        if prem:
            txt += ' :premises (%s)' % ' '.join(prem)
        txt += ')'
        lines.append((sid, txt, rule))
        clauses.append((sid, list(cl)))
        return sid

    for i, a in enumerate(assms):
        aid = 'a%d' % i
        lines.append((aid, '(assume %s %s)' % (aid, smt(a)), 'assume'))
        clauses.append((aid, [a]))
        for rule, cl in clausify(a):
            if rng.random() < 0.85:
                c2, _ = claim(cl, rule)
                emit(rule, c2, (aid,))
        if a[0] != 'v' and rng.random() < 0.35:
            sub = a[1] if a[0] == 'not' else a
            ts = tautologies(sub)
            if ts:
                rule, cl = rng.choice(ts)
                c2, _ = claim(cl, rule)
                emit(rule, c2)
    # optional subproofs: one to three local assumptions, possibly a nested subproof between them (so that an
    # assumption is made after an inner block has been closed), a last step that depends on some of the assumptions,
    # and a closing clause that is correct or a near miss (an assumption left out, two swapped, other conclusion);
    # a near miss is followed by the correct closing as a fallback that is tried only when the near miss is refused
    def subproof(prefix, depth):
        if prefix:
            n[0] += 1
            sp = '%st%d' % (prefix, n[0])
        else:
            sp = fresh()
        lines.append((sp, '(anchor :step %s)' % sp, 'anchor'))
        k = rng.choice([1, 1, 2, 2, 3])
        As = e.lits(k)
        concl = None
        inner_step = None
        two = [(sid, c) for sid, c in clauses if len(c) == 2 and c[0] != c[1] and sid.startswith('t') and '.' not in sid]
        use_outer = bool(two) and rng.random() < 0.5
        if use_outer:
            sid, c = rng.choice(two)
            m = rng.choice(c)
            other = [x for x in c if x != m][0]
            L = neg(m) if m[0] == 'not' else ('not', m)
            As[rng.randrange(k)] = L
            if len(set(map(repr, As))) < k:
                As = [L]
                k = 1
        nest_at = rng.randrange(k + 1) if depth < 2 and rng.random() < 0.5 else None
        hids = []
        cnt = [0]
        for i in range(k + 1):
            if nest_at == i:
                subproof(sp + '.', depth + 1)
            if i < k:
                hid = '%s.h%d' % (sp, i + 1)
                hids.append(hid)
                lines.append((hid, '(assume %s %s)' % (hid, smt(As[i])), 'assume'))
        if rng.random() < 0.15:
            # a block WITHOUT any step (only assumptions, or nothing at all): its closing step has no last step to
            # conclude from and cannot be justified; the clause offered is what a checker that took the step just
            # before the anchor for the last step of the block would accept
            units = [cl_[0] for sid_, cl_ in clauses[-1:] if len(cl_) == 1 and sid_.startswith('t')]
            concl = units[0] if units and rng.random() < 0.8 else (As[0] if rng.random() < 0.5 else e.lit())
            lines.append((sp, '(step %s (cl %s) :rule subproof)' % (sp, ' '.join(smt(x) for x in [('not', a) for a in As] + [concl])),
                          'subproof'))
            return sp
        n[0] += 1
        inner = '%s.t%d' % (sp, n[0])
        if use_outer:
            j = [repr(a) for a in As].index(repr(L))
            rule = rng.choice(['resolution', 'th_resolution'])
            lines.append((inner, '(step %s (cl %s) :rule %s :premises (%s %s))' % (inner, smt(other), rule, hids[j], sid), rule))
            concl = other
        else:
            j = rng.randrange(k)
            after = [i_ for i_ in range(k) if nest_at is not None and i_ >= nest_at]
            if after and rng.random() < 0.7:
                j = rng.choice(after)          # the last step depends on an assumption made AFTER the inner block
            lines.append((inner, '(step %s (cl %s) :rule th_resolution :premises (%s))' % (inner, smt(As[j]), hids[j]),
                          'th_resolution'))
            concl = As[j]
        good = [('not', a) for a in As] + [concl]
        if rng.random() < 0.4:
            bad = list(good)
            kinds = ['wrong-concl', 'not-negated']
            if k >= 2:
                kinds += ['drop-assm', 'drop-assm', 'drop-assm', 'swap-assms']
            kd = rng.choice(kinds)
            if kd == 'drop-assm':
                cand = [i for i in range(k)]
                if not use_outer and rng.random() < 0.7:
                    cand = [j]                  # leave out exactly the assumption the last step depends on
                del bad[rng.choice(cand)]
            elif kd == 'swap-assms':
                i, j2 = rng.sample(range(k), 2)
                bad[i], bad[j2] = bad[j2], bad[i]
            elif kd == 'wrong-concl':
                bad[-1] = e.lit()
            else:
                i = rng.randrange(k)
                bad[i] = As[i]
            if bad != good:
                lines.append((sp, '(step %s (cl %s) :rule subproof)' % (sp, ' '.join(smt(x) for x in bad)), 'subproof'))
                lines.append((sp, '(step %s (cl %s) :rule subproof)' % (sp, ' '.join(smt(x) for x in good)),
                              'subproof-fallback'))
            else:
                lines.append((sp, '(step %s (cl %s) :rule subproof)' % (sp, ' '.join(smt(x) for x in good)), 'subproof'))
        else:
            lines.append((sp, '(step %s (cl %s) :rule subproof)' % (sp, ' '.join(smt(x) for x in good)), 'subproof'))
        if not prefix:
            clauses.append((sp, good))
        return sp

    for _ in range(rng.choice([0, 0, 1, 1, 2])):
        subproof('', 0)
    # resolution rounds, greedy towards short clauses
    seen = set(tuple(map(repr, c)) for _, c in clauses)
    for _ in range(rng.choice([6, 10, 14])):
        cands = []
        for i in range(len(clauses)):
            for j in range(len(clauses)):
                if i == j:
                    continue
                r = resolve(clauses[i][1], clauses[j][1])
                if r is not None and tuple(map(repr, r)) not in seen:
                    cands.append((len(r), rng.random(), i, j, r))
        if not cands:
            break
        cands.sort()
        _, _, i, j, r = cands[0] if rng.random() < 0.7 else rng.choice(cands)
        prem = [clauses[i][0], clauses[j][0]]
        # sometimes a chain of three
        if rng.random() < 0.25:
            for k in range(len(clauses)):
                if k not in (i, j):
                    r3 = resolve(r, clauses[k][1])
                    if r3 is not None:
                        r = r3
                        prem.append(clauses[k][0])
                        break
        c2, mutated = claim(r, 'resolution')
        if rng.random() < 0.08 and len(clauses) > 2:
            prem[rng.randrange(len(prem))] = rng.choice(clauses)[0]     # wrong premise
        emit(rng.choice(['resolution', 'th_resolution']), c2, prem)
        seen.add(tuple(map(repr, c2)))
        if not c2:
            break
    return e.atoms, lines, assms


def check_closing(ctx, mon, recon, kept, sid, rule, atoms):
    """the last step a closing step (subproof, bind, sko_*, onepoint, let) concludes from must be the last step of
    ITS OWN block; kept[-1] is the closing step that was just accepted"""
    from smt.veriT import command
    ctx.count('e2e_block_closings_accepted')
    ctx.count('e2e_block_closings_accepted:' + rule)
    prevk = kept[-2] if len(kept) >= 2 else None
    inside = prevk is not None and not isinstance(prevk[3], command.Anchor) and prevk[0].startswith(sid + '.')
    wit = {'e2e_text': [list(x[:3]) for x in kept], 'atoms': atoms, 'step': sid}
    if not inside:
        ctx.violation('e2e:%s:closing-step-of-a-block-without-steps-accepted' % rule,
                      'step %s (%s) closes a block that contains no step (the line before it is %s), yet it was '
                      'accepted' % (sid, rule, prevk[1] if prevk else None), wit)
    elif mon.last_prevs and recon.pts.get(prevk[3].id) is not None and \
            not any(p is recon.pts[prevk[3].id].th for p in mon.last_prevs):
        ctx.violation('e2e:%s:closing-step-concludes-from-a-step-outside-its-block' % rule,
                      'step %s (%s): none of the premises handed to the rule is the sequent of %s, the last step '
                      'of its block' % (sid, rule, prevk[0]), wit)


FO_TEMPLATES = [
    # (lines before, block lines, closing step, is the block empty?)
    # control: a proper bind block (refl, cong, bind) - must be accepted, and concludes from its own last step
    ([], ['(anchor :step {t} :args ((:= ({x} U) {y})))', '(step {t}.t1 (cl (= {x} {y})) :rule refl)',
          '(step {t}.t2 (cl (= ({p} {x}) ({p} {y}))) :rule cong :premises ({t}.t1))'],
     '(step {t} (cl (= (forall (({x} U)) ({p} {x})) (forall (({y} U)) ({p} {y})))) :rule bind)', False),
    # an anchor closed at once: no step to conclude from; the line before the anchor has the shape bind expects
    (['(assume {a} (= ({p} {x}) true))'], ['(anchor :step {t} :args ((:= ({x} U) {x})))'],
     '(step {t} (cl (= (forall (({x} U)) ({p} {x})) (forall (({x} U)) true))) :rule bind)', True),
    (['(assume {a} (= ({p} {x}) ({q} {x})))'], ['(anchor :step {t} :args ((:= ({x} U) {x})))'],
     '(step {t} (cl (= (forall (({x} U)) ({p} {x})) (forall (({x} U)) ({q} {x})))) :rule bind)', True),
    (['(assume {a} (= ({p} {x}) ({q} {x})))'], ['(anchor :step {t} :args ((:= ({x} U) {x})))'],
     '(step {t} (cl (= (exists (({x} U)) ({p} {x})) (exists (({x} U)) ({q} {x})))) :rule bind)', True),
    # the same with an unrelated block closed just before (the "last step" of a checker that remembers the previous
    # step would be that block's closing step)
    (['(assume {a} (= ({p} {x}) ({q} {x})))', '(anchor :step {t}0 :args ((:= ({x} U) {y})))', '(step {t}0.t1 (cl (= {x} {y})) :rule refl)',
      '(step {t}0.t2 (cl (= ({p} {x}) ({p} {y}))) :rule cong :premises ({t}0.t1))',
      '(step {t}0 (cl (= (forall (({x} U)) ({p} {x})) (forall (({y} U)) ({p} {y})))) :rule bind)'],
     ['(anchor :step {t} :args ((:= ({x} U) {y})))'],
     '(step {t} (cl (= (forall (({x} U)) ({p} {x})) (forall (({y} U)) ({p} {y})))) :rule bind)', True),
]


def run_e2e_fo(ctx, mon, rng, idx):
    """first-order scripts for the closing rules that generalise (bind): proper blocks and blocks without steps"""
    from smt.veriT import proof_parser, proof_rec, command
    from kernel.type import TVar, TFun, BoolType
    U = TVar('U')          # the proof parser reads an uninterpreted sort as a type variable
    nm = dict(zip(['x', 'y', 'p', 'q'], rng.sample(['x', 'y', 'z', 'w'], 2) + rng.sample(['p', 'q', 'r'], 2)))
    nm.update(t='t%d' % rng.randint(1, 9), a='a%d' % rng.randint(0, 5))
    pctx = {nm['x']: U, nm['y']: U, nm['p']: TFun(U, BoolType), nm['q']: TFun(U, BoolType)}
    before, block, closing, empty = rng.choice(FO_TEMPLATES)
    texts = [l.format(**nm) for l in before + block + [closing]]
    mon.label = 'e2e'
    parser = proof_parser.proof_parser(pctx)
    try:
        steps = [parser.parse(t) for t in texts]
    except Exception as ex:
        ctx.count('e2e_fo_parse_error')
        ctx.note('e2e-fo parse error: %s on %s' % (str(ex)[:120], texts))
        return
    recon = proof_rec.ProofReconstruction([])
    kept = []
    for txt, st in zip(texts, steps):
        recon.steps.append(st)
        recon.steps_dict[st.id] = st
        recon.step_map[st.id] = st
        rule = 'anchor' if isinstance(st, command.Anchor) else ('assume' if isinstance(st, command.Assume) else st.rule_name)
        try:
            recon.validate_step(st, is_eval=True)
        except Exception:
            recon.steps.pop()
            ctx.count('e2e_fo_steps_rejected')
            if txt == texts[-1]:
                ctx.count('e2e_fo_closing_rejected:' + ('empty-block' if empty else 'proper-block'))
            continue
        kept.append((st.id, txt, rule, st))
        if isinstance(st, command.Step) and rule in BLOCK_CLOSERS:
            if txt == texts[-1]:
                ctx.count('e2e_fo_closing_accepted:' + ('empty-block' if empty else 'proper-block'))
            check_closing(ctx, mon, recon, kept, st.id, rule, sorted(pctx))
    ctx.count('e2e_fo_scripts')
    ctx.case(('e2e-fo', tuple(texts)), nontrivial=True, sample='\n'.join(texts)[:400] if idx < 1 else None)


def run_e2e_script(ctx, mon, rng, idx, text_lines=None, atoms=None):
    from smt.veriT import proof_parser, proof_rec, command
    from kernel.type import BoolType
    from kernel.term import false as hol_false
    from vf import oracle_c18_sem as O
    if text_lines is None:
        want_sat = rng.random() < 0.75
        atoms, lines, assms = build_script(rng, want_sat)
    else:
        lines = text_lines
    mon.label = 'e2e'
    pctx = {a: BoolType for a in atoms}
    parser = proof_parser.proof_parser(pctx)
    steps = []
    for sid, txt, rule in lines:
        try:
            steps.append((sid, txt, rule, parser.parse(txt)))
        except Exception as ex:
            ctx.count('e2e_parse_error')
            ctx.note('e2e parse error on %r: %s' % (txt, str(ex)[:200]))
            return
    ctx.count('e2e_lines_parsed', len(steps))
    # incremental validation with the real validate_step; a step that raises is left out of the proof
    recon = proof_rec.ProofReconstruction([])
    kept = []
    verdict_at = {}
    accepted_ids = set()
    for sid, txt, rule, st in steps:
        if rule == 'subproof-fallback':
            if sid in accepted_ids:
                continue
            rule = 'subproof'
        recon.steps.append(st)
        recon.steps_dict[st.id] = st
        recon.step_map[st.id] = st
        mon.last = None
        try:
            recon.validate_step(st, is_eval=True)
        except Exception:
            recon.steps.pop()
            if isinstance(st, command.Step) and recon.steps_dict.get(st.id) is st:
                del recon.steps_dict[st.id]
                del recon.step_map[st.id]
            ctx.count('e2e_steps_rejected')
            ctx.count('e2e_rej:' + rule)
            if isinstance(st, command.Anchor) or rule == 'anchor':
                pass
            continue
        kept.append((sid, txt, rule, st))
        if isinstance(st, command.Step) and rule in BLOCK_CLOSERS:
            check_closing(ctx, mon, recon, kept, sid, rule, atoms)
        if isinstance(st, command.Step):
            accepted_ids.add(sid)
            ctx.count('e2e_steps_accepted')
            ctx.count('e2e_acc:' + rule)
            verdict_at[len(kept) - 1] = mon.last
    # the real driver on the kept proof
    final_steps = [parser.parse(txt) for _, txt, _, _ in kept] if False else [st for _, _, _, st in kept]
    if not any(isinstance(s, command.Step) for s in final_steps):
        ctx.case(('e2e-empty', idx), nontrivial=False)
        return
    rec2 = proof_rec.ProofReconstruction(final_steps)
    try:
        pt = rec2.validate(is_eval=True, with_bar=False)
    except Exception as ex:
        ctx.count('e2e_final_validate_raised')
        ctx.note('validate() raised on steps accepted one by one: %s' % str(ex)[:200])
        return
    ctx.count('e2e_scripts_validated')
    text = '\n'.join(t for _, t, _, _ in kept)
    ctx.case(('e2e', text), nontrivial=True, sample=text[:400] if idx < 1 else None)
    # sequent-level truth tables, in proof order
    first_bad = None
    bad_ids = set()
    for k, (sid, txt, rule, st) in enumerate(kept):
        p = rec2.pts.get(st.id) if not isinstance(st, command.Anchor) else None
        if p is None or p.th is None:
            continue
        hy = tuple(S.tm_shadow(h) for h in p.th.hyps)
        pr = S.tm_shadow(p.th.prop)
        if rule == 'subproof' and isinstance(st, command.Step) and k > 0:
            # every assumption made in this block that the last step of the block depends on must be discharged
            # by the closing clause or stay a hypothesis of the result (the recorded finding "subproof loses the
            # hypotheses of its last premise" is about hypotheses from OUTSIDE the block; this is about the block's own)
            ctx.count('e2e_subproof_closings_checked')
            lastp = rec2.pts.get(kept[k - 1][3].id) if not isinstance(kept[k - 1][3], command.Anchor) else None
            if lastp is not None and lastp.th is not None:
                last_h = set(S.alpha(S.tm_shadow(h)) for h in lastp.th.hyps)
                res_h = set(S.alpha(h) for h in hy)
                lits = set(S.alpha(S.tm_shadow(c)) for c in st.cl)
                local = [x for x in kept[:k] if isinstance(x[3], command.Assume) and x[0].rsplit('.', 1)[0] == sid]
                ctx.count('e2e_subproof_local_assumptions', len(local))
                if len(local) >= 2:
                    ctx.count('e2e_subproof_closings_with_several_assumptions')
                if any(isinstance(x[3], command.Anchor) for x in kept[:k] if x[0].startswith(sid + '.')) and local \
                        and kept.index(local[-1]) > max(i for i, x in enumerate(kept[:k])
                                                          if isinstance(x[3], command.Anchor) and x[0].startswith(sid + '.')):
                    ctx.count('e2e_subproof_assumption_after_nested_block')
                for x in local:
                    A = S.tm_shadow(x[3].assm)
                    nA = ('comb', ('const', 'neg', S.fun(S.BOOL, S.BOOL)), A)
                    if S.alpha(A) in last_h and S.alpha(A) not in res_h and S.alpha(nA) not in lits:
                        ctx.violation('e2e:subproof:local-assumption-neither-discharged-nor-kept',
                                      'subproof step %s was accepted with the clause %s although the last step of its '
                                      'block depends on the block\'s assumption %s (%s), which is neither discharged '
                                      'by the clause nor kept as a hypothesis' % (sid, txt, x[0], S.tm_str(A)),
                                      {'e2e_text': [list(y[:3]) for y in kept], 'atoms': atoms, 'step': sid})
                        break
        if isinstance(st, command.Step) and hy:
            # every hypothesis of an accepted step is an assumption made in THIS proof (a result handed over from
            # another proof of the same process would bring that proof's hypotheses along)
            own = set(S.alpha(S.tm_shadow(x[3].assm)) for x in kept if isinstance(x[3], command.Assume))
            foreign = [h for h in hy if S.alpha(h) not in own]
            ctx.count('e2e_hypotheses_checked', len(hy))
            if foreign:
                ctx.violation('e2e:%s:hypothesis-that-is-not-an-assumption-of-this-proof' % rule,
                              'step %s (%s) carries the hypothesis %s, which no assume line of this proof states' % (
                                  sid, rule, S.tm_str(foreign[0])[:200]),
                              {'e2e_text': [list(x[:3]) for x in kept], 'atoms': atoms, 'step': sid})
                break
        ok, w = O.tt_sequent_valid(hy, pr)
        ctx.count('e2e_tt:' + str(ok))
        if ok is False:
            bad_ids.add(st.id)
            if first_bad is None:
                first_bad = (k, rule, sid, w)
            v = verdict_at.get(k)
            deps = list(getattr(st, 'pm', ()) or ())
            if rule == 'subproof' and k > 0:
                deps.append(kept[k - 1][3].id)
            if isinstance(st, command.Assume):
                ctx.violation('e2e:assume:invalid-sequent',
                              'assume %s yields the sequent %s refuted by truth table %s' % (sid, p.th, w),
                              {'e2e_text': [list(x[:3]) for x in kept], 'atoms': atoms, 'step': sid})
            elif any(d in bad_ids for d in deps):
                ctx.count('e2e_downstream_of_invalid_premise')
            elif isinstance(st, command.Step) and (v is None or v[1] is None):
                ctx.violation('e2e:%s:invalid-sequent-not-flagged-by-step-oracle' % rule,
                              'step %s (%s) yields a sequent refuted by truth table %s but the step-level oracle said %s'
                              % (sid, rule, w, v), {'e2e_text': [list(x[:3]) for x in kept], 'atoms': atoms, 'step': sid})
        if pr == ('const', 'false', S.BOOL):
            ctx.count('e2e_false_derived')
            sat, model = O.tt_satisfiable(list(hy))
            if sat:
                blame = first_bad[1] if first_bad else 'none'
                ctx.violation('e2e:empty-clause-from-satisfiable-hypotheses:first-unsound-step=' + blame,
                              'validate(is_eval=True) accepted a proof of the empty clause at %s whose hypotheses '
                              '[%s] are satisfied by %s; first invalid sequent at step %s' % (
                                  sid, ', '.join(S.tm_str(h) for h in hy)[:300], model, first_bad and first_bad[2]),
                              {'e2e_text': [list(x[:3]) for x in kept], 'atoms': atoms, 'step': sid})
                break


def run_e2e(ctx, spec):
    mon = Monitor(ctx)
    mon.install()
    for i in range(spec['scripts']):
        run_e2e_script(ctx, mon, ctx.rng, i)
        if i % 2 == 0:
            run_e2e_fo(ctx, mon, ctx.rng, i)


# ====================================================================== entry points
def run_shard(ctx, spec):
    import io
    sys.stdout = open(os.devnull, 'w')          # the macros print on rejection
    import warnings
    warnings.filterwarnings('ignore')
    import smt.veriT.verit_macro
    import smt.veriT.la_generic
    from logic import basic
    basic.load_theory('verit')
    if 'replay' in spec:
        return replay(ctx, spec['replay'])
    if spec['kind'] == 'rules':
        run_rules(ctx, spec)
    else:
        run_e2e(ctx, spec)


def replay(ctx, rec):
    from kernel import theory
    w = rec['witness']
    mon = Monitor(ctx)
    mon.install()
    if 'e2e_text' in w:
        run_e2e_script(ctx, mon, ctx.rng, 0, text_lines=[tuple(x) for x in w['e2e_text']], atoms=w['atoms'])
        return
    mon.label = w.get('label', 'replay')
    args = deser(w['args'])
    prevs = [deser(p) for p in w['prevs']]
    ctx.case('replay', sample='%s %s' % (w['macro'], show_args(args)[:300]))
    try:
        th = theory.global_macros[w['macro']].eval(args, prevs)
    except Exception as e:
        ctx.note('replay: now rejected (%s: %s) - not reproduced' % (type(e).__name__, str(e)[:100]))
        return
    ctx.note('replay: accepted, result %s ; oracle %s' % (th, mon.last))


def coverage_extra(counters, tier):
    hooked = sorted(set(k[7:] for k in counters if k.startswith('hooked:')))
    acc = sorted(set(k[4:] for k in counters if k.startswith('acc:')))
    called = sorted(set(k.split(':', 1)[1] for k in counters if k.startswith(('acc:', 'rej:', 'none:'))))
    never = sorted(k[len('rule_never_accepted:'):] for k in counters if k.startswith('rule_never_accepted:'))
    return {'macros_hooked': len(hooked), 'macros_accepting_at_least_once': len(acc),
            'macros_not_exercised_(never_accepted)': sorted(set(hooked) - set(acc)),
            'macros_never_called': sorted(set(hooked) - set(called)),
            'template_rules_never_accepted_on_a_correct_instance': never,
            'per_macro_accept_reject': {m: [counters.get('acc:' + m, 0), counters.get('rej:' + m, 0)] for m in hooked}}


def _macro_base():
    from kernel.macro import Macro
    return Macro
