"""C09 - a successful match really instantiates the pattern to the target.

Contract on the real logic.matcher.first_order_match (module attribute wrapped from the harness, so every
caller in the library replay is observed): snapshot of the caller's Inst before, result or MatchException
after.  Oracle on shadows: caller's Inst unchanged, result extends it, reference instantiate-then-beta-eta
of the pattern equals beta-eta of the target; completeness for first-order patterns with a constructed
instance.
"""
from vf import shadow as S, gen as G, libreplay

ID = 'C09'
LEVEL = 'exploration'
RULE = ('case = one call of first_order_match: every call made while replaying recorded library proofs (realistic) and '
        'generated pattern/target pairs (first-order, Miller patterns under binders, repeated schematic variables, polymorphic '
        'patterns, non-pattern applications, pre-seeded instantiations, constructed instances and unrelated targets); '
        'distinct = hash of (pattern, target, input inst) shadows; non-trivial = pattern size >= 3 containing a schematic variable')
ASSUMPTIONS = ['reference substitution / beta / eta in vf/shadow.py decide equality modulo beta-eta',
               'completeness is only demanded for first-order patterns whose target was constructed as an instance']
REQUIRED = {'quick': {'miller_mixed_cases': 400, 'calls_observed': 20000, 'successes_judged': 6000, 'gen_pairs': 3000, 'gen_first_order_instances': 600,
                      'lib_calls_observed': 5000},
            'thorough': {'calls_observed': 400000, 'successes_judged': 100000, 'gen_pairs': 60000,
                         'gen_first_order_instances': 12000, 'lib_calls_observed': 200000}}
SHARD_TIMEOUT = {'quick': 1500, 'thorough': 7200}


def shards(tier, seed):
    if tier == 'quick':
        return ([{'kind': 'gen', 'i': i, 'count': 700} for i in range(6)] +
                [{'kind': 'lib', 'i': i, 'parts': 10, 'frac': 0.15} for i in range(10)])
    return ([{'kind': 'gen', 'i': i, 'count': 6000} for i in range(12)] +
            [{'kind': 'lib', 'i': i, 'parts': 32, 'frac': 1.0} for i in range(32)])


# ------------------------------------------------------------------ the contract
class Mon:
    ctx = None
    depth = 0
    origin = 'lib'
    installed = False
    sample_every = 1
    n = 0


def inst_shadow(inst):
    return ({k: S.tm_shadow(v) for k, v in inst.items()}, {k: S.ty_shadow(v) for k, v in inst.tyinst.items()},
            {k: S.tm_shadow(v) for k, v in inst.var_inst.items()}, dict(inst.abs_name_inst))


def pattern_kind(p):
    """first-order / miller / heuristic (classification for mechanism keys)"""
    kind = ['first-order']

    def walk(s, bound_names):
        h, args = S.strip_comb(s)
        if s[0] == 'abs':
            walk(s[3], bound_names)
            return
        if h[0] == 'svar' and args:
            ok = all(a[0] == 'bound' for a in args) and len(set(args)) == len(args)
            if kind[0] != 'heuristic':
                kind[0] = 'miller' if ok else 'heuristic'
            if not ok:
                kind[0] = 'heuristic'
        for a in args:
            walk(a, bound_names)
        if h[0] == 'abs':
            walk(h, bound_names)
    walk(p, ())
    return kind[0]


def judge_success(ctx, pat_s, t_s, in_sh, out_inst, origin):
    out_sh = inst_shadow(out_inst)
    kind = pattern_kind(pat_s)
    wit = {'pat': S.jsonable(pat_s), 't': S.jsonable(t_s), 'origin': origin,
           'inst_in': {k: S.jsonable(v) for k, v in in_sh[0].items()},
           'tyinst_in': {k: S.jsonable(v) for k, v in in_sh[1].items()}}
    # extends
    for k, v in in_sh[0].items():
        if k not in out_sh[0] or not S.aeq(out_sh[0][k], v):
            ctx.violation('match:result-alters-the-given-instantiation', 'binding ?%s := %s of the input instantiation became %s' % (
                k, S.tm_str(v), S.tm_str(out_sh[0][k]) if k in out_sh[0] else 'absent'), wit)
            return
    for k, v in in_sh[1].items():
        if out_sh[1].get(k) != v:
            ctx.violation('match:result-alters-the-given-type-instantiation', "type binding '%s altered" % k, wit)
            return
    # apply by reference: complete the type instantiation from the term bindings (as Term.subst does)
    tyinst = dict(out_sh[1])
    ok = True
    pat_ty = S.tm_ty_subst(pat_s, tyinst)
    for a in S.atoms(pat_s, ('svar',)):
        if a[1] in out_sh[0]:
            try:
                vT = S.typeof(out_sh[0][a[1]])
            except S.ShadowError:
                vT = None
            if vT is None or not S.ty_match(a[2], vT, tyinst):
                ok = False
    if not ok:
        ctx.count('result_not_applicable_by_type')
        # applying the result is impossible: only a violation when pattern and target have the same type (otherwise the
        # call itself was outside the domain of the statement)
        try:
            if S.typeof(S.tm_ty_subst(pat_s, tyinst)) != S.typeof(t_s):
                ctx.count('pattern_and_target_of_different_types')
                return
        except S.ShadowError:
            return
        ctx.violation('match:returned-instantiation-not-type-correct:' + kind, 'instantiation returned for %s vs %s cannot be applied: a binding has the wrong type' % (
            S.tm_str(pat_s, True), S.tm_str(t_s, True)), wit)
        return
    try:
        inst_p = S.tm_subst(S.tm_ty_subst(pat_s, tyinst), {k: v for k, v in out_sh[0].items()})
        lhs = S.beta_eta(inst_p)
        rhs = S.beta_eta(t_s)
    except S.ShadowError:
        ctx.count('oracle_fuel')
        return
    ctx.count('successes_judged')
    ctx.count('successes_judged:' + kind)
    if not S.aeq(lhs, rhs):
        ctx.violation('match:instance-differs-from-target:' + kind, 'match(%s, %s) succeeded but the instantiated pattern normalises to %s' % (
            S.tm_str(pat_s), S.tm_str(t_s), S.tm_str(lhs)), wit)


def install(ctx):
    from logic import matcher
    Mon.ctx = ctx
    if Mon.installed:
        return
    orig = matcher.first_order_match

    def wrapper(pat, t, inst=None):
        if Mon.depth > 0:
            return orig(pat, t, inst)
        Mon.n += 1
        c = Mon.ctx
        c.count('calls_observed')
        if Mon.origin == 'lib':
            c.count('lib_calls_observed')
        judge = (Mon.n % Mon.sample_every == 0)
        Mon.depth += 1
        try:
            in_sh = inst_shadow(inst) if (inst is not None and judge) else ({}, {}, {}, {})
            try:
                res = orig(pat, t, inst)
            except matcher.MatchException:
                c.count('match_failed')
                raise
            except Exception as e:
                c.count('match_raised:' + type(e).__name__)
                raise
            if judge:
                try:
                    if inst is not None:
                        after = inst_shadow(inst)
                        if after != in_sh:
                            c.violation('match:caller-instantiation-mutated', 'the Inst object passed to first_order_match was modified',
                                        {'pat': S.jsonable(S.tm_shadow(pat)), 't': S.jsonable(S.tm_shadow(t)), 'origin': Mon.origin})
                    pat_s, t_s = S.tm_shadow(pat), S.tm_shadow(t)
                    judge_success(c, pat_s, t_s, in_sh, res, Mon.origin)
                    if Mon.origin == 'lib':
                        c.case((pat_s, t_s, tuple(sorted(in_sh[0]))), nontrivial=S.size(pat_s) >= 3 and bool(S.atoms(pat_s, ('svar',))))
                except S.ShadowError:
                    c.count('shadow_error')
            return res
        finally:
            Mon.depth -= 1
    matcher.first_order_match = wrapper
    Mon.installed = True


# ------------------------------------------------------------------ generated workload
def gen_pair(ctx, rng):
    """-> (pattern shadow, target shadow, true instantiation, kind) built so that target = pattern[inst]"""
    g = G.TermGen(rng, G.LOGIC_BASE_SIG, G.logic_pool(), p_svar=0.0, p_fresh=0.35, p_redex=0.0, weights={'abs': 7})
    T = g.rand_type()
    if rng.random() < 0.3:
        a_ = ('tv', 'a')
        T = S.funs(a_, a_, rng.choice([S.BOOL, a_]))
    base = g.gen(T, rng.choice([2, 3, 3, 4]))
    # choose sub-terms to turn into schematic variables
    subs = []

    def collect(s, bd, path):
        if s[0] in ('comb', 'abs', 'var'):
            subs.append((path, s, bd))
        if s[0] == 'comb':
            collect(s[1], bd, path + (1,))
            collect(s[2], bd, path + (2,))
        elif s[0] == 'abs':
            collect(s[3], (s[2],) + bd, path + (3,))
    collect(base, (), ())
    rng.shuffle(subs)
    inst = {}
    pat = base
    names = ['P', 'Q', 'R', 'X', 'Y']
    used_paths = []
    kind = 'first-order'
    for path, sub, bd in subs[:rng.choice([1, 2, 3])]:
        if any(path[:len(u)] == u or u[:len(path)] == path for u in used_paths):
            continue
        loose = sorted({i for i in range(len(bd)) if S.occurs_bound(sub, i)})
        try:
            subT = S.typeof(sub, bd)
        except S.ShadowError:
            continue
        nm = names[len(inst) % len(names)] + str(len(inst))
        # reuse an existing schematic variable when the same closed sub-term was already abstracted
        if not loose:
            for k, (v, vT) in inst.items():
                if v == sub and rng.random() < 0.7:
                    nm = k
            sv = ('svar', nm, subT)
            inst[nm] = (sub, subT)
            repl = sv
        else:
            # Miller pattern: ?F b1 .. bk with the value %b1..bk. sub
            val = sub
            fT = subT
            order = loose if rng.random() < 0.8 else list(reversed(loose))
            val = sub
            # abstract the loose bounds in the chosen order
            k = len(order)
            mapping = {b: k - 1 - j for j, b in enumerate(order)}

            def remap(s, depth=0):
                if s[0] == 'bound':
                    if s[1] >= depth:
                        b = s[1] - depth
                        if b in mapping:
                            return ('bound', mapping[b] + depth)
                        return ('bound', s[1] + k)   # cannot happen: all loose are mapped
                    return s
                if s[0] == 'comb':
                    return ('comb', remap(s[1], depth), remap(s[2], depth))
                if s[0] == 'abs':
                    return ('abs', s[1], s[2], remap(s[3], depth + 1))
                return s
            body = remap(sub)
            val = body
            for b in reversed(order):
                val = ('abs', 'v', bd[b], val)
                fT = S.fun(bd[b], fT)
            sv = ('svar', nm, fT)
            inst[nm] = (val, fT)
            repl = S.mk_comb(sv, *[('bound', b) for b in order])
            kind = 'miller'

        def replace(s, p):
            if not p:
                return repl
            if s[0] == 'comb':
                return ('comb', replace(s[1], p[1:]), s[2]) if p[0] == 1 else ('comb', s[1], replace(s[2], p[1:]))
            return ('abs', s[1], s[2], replace(s[3], p[1:]))
        pat = replace(pat, path)
        used_paths.append(path)
    if not inst:
        return None
    return pat, base, {k: v for k, (v, _) in inst.items()}, pattern_kind(pat)


def rename_binders(rng, s):
    base = rng.choice(['x', 'y', 'u'])

    def walk(t):
        if t[0] == 'comb':
            return ('comb', walk(t[1]), walk(t[2]))
        if t[0] == 'abs':
            r = rng.random()
            nm = base if r < 0.6 else (base + '1' if r < 0.8 else t[1])
            return ('abs', nm, t[2], walk(t[3]))
        return t
    return walk(s)


def near_miss(rng, s):
    """redirect one bound-variable occurrence to another binder of the same type (keeps the term well-typed)"""
    occ = []

    def collect(t, bd, path):
        if t[0] == 'bound':
            alts = [i for i, T in enumerate(bd) if i != t[1] and t[1] < len(bd) and T == bd[t[1]]]
            if alts:
                occ.append((path, alts))
        elif t[0] == 'comb':
            collect(t[1], bd, path + (1,))
            collect(t[2], bd, path + (2,))
        elif t[0] == 'abs':
            collect(t[3], (t[2],) + bd, path + (3,))
    collect(s, (), ())
    if not occ:
        return None
    path, alts = rng.choice(occ)
    new = ('bound', rng.choice(alts))

    def repl(t, p):
        if not p:
            return new
        if t[0] == 'comb':
            return ('comb', repl(t[1], p[1:]), t[2]) if p[0] == 1 else ('comb', t[1], repl(t[2], p[1:]))
        return ('abs', t[1], t[2], repl(t[3], p[1:]))
    return repl(s, path)


def run_gen(ctx, spec):
    from logic import matcher
    from kernel.term import Inst
    rng = ctx.rng
    Mon.origin = 'gen'
    for k in range(spec['count']):
        r = gen_pair(ctx, rng)
        if r is None:
            continue
        pat, tgt, true_inst, kind = r
        try:
            if S.typeof(pat) != S.typeof(tgt):
                continue
        except S.ShadowError:
            ctx.count('gen_illtyped')
            continue
        ctx.count('gen_pairs')
        mode = rng.random()
        target = tgt
        constructed = True
        if rng.random() < 0.5:
            # alpha-equivalent renaming: nested binders of pattern and target get clashing names (x, x, x1 ...)
            pat, target, tgt = rename_binders(rng, pat), rename_binders(rng, tgt), rename_binders(rng, tgt)
        if 0.2 <= mode < 0.45:
            # near miss: the instance with two bound-variable occurrences exchanged / one redirected
            nm = near_miss(rng, tgt)
            if nm is not None:
                target = nm
                constructed = False
        if mode < 0.2:
            # unrelated target of the same type
            g = G.TermGen(rng, G.LOGIC_BASE_SIG, G.logic_pool(), p_svar=0.0, p_fresh=0.3, p_redex=0.0)
            target = g.gen(S.typeof(pat), 3)
            constructed = False
        inst_in = None
        if rng.random() < 0.3:
            inst_in = Inst()
            for nm, v in true_inst.items():
                if rng.random() < 0.5:
                    inst_in[nm] = S.to_repo_term(v)
        pat_t = S.to_repo_term(pat)
        tgt_t = S.to_repo_term(target, {} if rng.random() < 0.5 else None)      # equal sub-terms as ONE object
        before = ctx.counters['successes_judged']
        try:
            matcher.first_order_match(pat_t, tgt_t, inst_in)
            ok = True
        except matcher.MatchException:
            ok = False
        except Exception as e:
            ok = None
        if kind == 'first-order' and constructed:
            ctx.count('gen_first_order_instances')
            if ok is False:
                ctx.violation('match:first-order-pattern-fails-on-its-own-instance', 'first-order pattern %s does not match its instance %s' % (
                    S.tm_str(pat), S.tm_str(target)), {'pat': S.jsonable(pat), 't': S.jsonable(target), 'origin': 'gen'})
        ctx.case((pat, target, tuple(sorted(true_inst)) if inst_in is not None else ()), nontrivial=S.size(pat) >= 3,
                 sample={'pattern': S.tm_str(pat), 'target': S.tm_str(target), 'kind': kind, 'matched': ok} if k < 2 and spec['i'] == 0 else None)
        # heuristic-branch hostile variants: non-pattern applications
        if rng.random() < 0.25:
            hostile(ctx, rng, matcher)
        if rng.random() < 0.3:
            miller_mixed(ctx, rng, matcher)


def miller_mixed(ctx, rng, matcher):
    """a schematic head applied to a MIX of bound variables and schematic variables that are already instantiated
    (pre-seeded, or matched earlier in the same pattern), under two or three binders, with as many arguments as
    binders or fewer; the target may mention a bound variable that is not among the arguments (then there is no
    instance, and success with any instantiation is judged by the ordinary success oracle)"""
    from kernel.term import Inst
    a, B = rng.choice([('tv', 'a'), S.BOOL]), S.BOOL
    n = rng.choice([2, 2, 3])
    names = ['x', 'y', 'z'][:n]
    incl = sorted(rng.sample(range(n), rng.randint(1, n - 1)))           # bound variables (de Bruijn indices) passed to ?P
    k_sv = rng.choice([1, 1, 2]) if len(incl) < n else 1
    svs = [('svar', 'a%d' % i, a) for i in range(k_sv)]
    consts = [('var', 'c%d' % i, a) for i in range(k_sv)]
    args = [('bound', i) for i in incl] + svs
    rng.shuffle(args)
    PT = S.funs(*([a] * len(args) + [B]))
    pat_body = S.mk_comb(('svar', 'P', PT), *args)
    uses_omitted = rng.random() < 0.6
    omitted = [i for i in range(n) if i not in incl]
    t_args = [('bound', i) for i in incl] + list(consts) + ([('bound', rng.choice(omitted))] if uses_omitted else [])
    rng.shuffle(t_args)
    ST = S.funs(*([a] * len(t_args) + [B]))
    tgt_body = S.mk_comb(('var', 'S', ST), *t_args)

    def close(body):
        for nm in reversed(names):
            body = ('comb', ('const', 'all', S.fun(S.fun(a, B), B)), ('abs', nm, a, body))
        return body
    pat, tgt = close(pat_body), close(tgt_body)
    inst_in = None
    how = rng.choice(['pre-seeded', 'matched-earlier'])
    if how == 'pre-seeded':
        inst_in = Inst()
        for sv, c in zip(svs, consts):
            inst_in[sv[1]] = S.to_repo_term(c)
    else:
        Tv = ('var', 'T', S.funs(*([a] * k_sv + [B])))
        IMP = ('const', 'implies', S.funs(B, B, B))
        pat = S.mk_comb(IMP, S.mk_comb(Tv, *svs), pat)
        tgt = S.mk_comb(IMP, S.mk_comb(Tv, *consts), tgt)
    ctx.count('miller_mixed_cases')
    ctx.count('miller_mixed:%s:%s' % (how, 'target-uses-omitted-bound-variable' if uses_omitted else 'instance-exists'))
    try:
        matcher.first_order_match(S.to_repo_term(pat), S.to_repo_term(tgt), inst_in)
        ctx.count('miller_mixed_matched')
    except matcher.MatchException:
        ctx.count('miller_mixed_no_match')
    except Exception as e:
        ctx.count('miller_mixed_raised:' + type(e).__name__)
    ctx.case(('miller-mixed', pat, tgt, how), nontrivial=True)


def hostile(ctx, rng, matcher):
    """patterns whose schematic head is applied to non-bound / repeated arguments"""
    a, b = ('tv', 'a'), S.BOOL
    f = ('svar', 'f', S.funs(a, a, b))
    x, y = ('svar', 'x', a), ('svar', 'y', a)
    g2 = ('var', 'g', S.funs(a, a, b))
    c, d = ('var', 'c', a), ('var', 'd', a)
    h1 = ('var', 'h', S.fun(a, a))
    pats = [S.mk_comb(f, x, y), S.mk_comb(f, x, x), S.mk_comb(f, c, y), S.mk_comb(('svar', 'p', S.fun(a, b)), ('comb', h1, x)),
            ('abs', 'u', a, S.mk_comb(f, ('bound', 0), ('bound', 0))), ('abs', 'u', a, S.mk_comb(f, ('bound', 0), x))]
    tgts = [S.mk_comb(g2, c, d), S.mk_comb(g2, c, c), S.mk_comb(g2, d, c), S.mk_comb(('var', 'q', S.fun(a, b)), ('comb', h1, c)),
            ('abs', 'u', a, S.mk_comb(g2, ('bound', 0), ('bound', 0))), ('abs', 'u', a, S.mk_comb(g2, ('bound', 0), c)),
            ('abs', 'u', a, S.mk_comb(g2, c, ('bound', 0)))]
    p, t = rng.choice(pats), rng.choice(tgts)
    try:
        if S.typeof(p) != S.typeof(t):
            return
    except S.ShadowError:
        return
    try:
        matcher.first_order_match(S.to_repo_term(p), S.to_repo_term(t))
    except Exception:
        pass
    ctx.case(('hostile', p, t), nontrivial=True)
    # pattern  k ?a (?G ?a)  against  k x (g2 (P x) (%y. h2 (P x) y))  with (P x) ONE object at depths 0 and 1
    Pv = ('var', 'P', S.fun(a, a))
    hv = ('var', 'h2', S.funs(a, a, b))
    gg = ('var', 'g3', S.funs(a, S.fun(a, b), b))
    kk = ('var', 'k', S.funs(a, b, b))
    xa = ('var', 'x', a)
    px = ('comb', Pv, xa)
    tgt = S.mk_comb(kk, xa, S.mk_comb(gg, px, ('abs', 'y', a, S.mk_comb(hv, px, ('bound', 0)))))
    patt = S.mk_comb(kk, ('svar', 'a', a), ('comb', ('svar', 'G', S.fun(a, b)), ('svar', 'a', a)))
    try:
        matcher.first_order_match(S.to_repo_term(patt), S.to_repo_term(tgt, {}))
    except Exception:
        pass
    ctx.case(('hostile-shared', patt, tgt), nontrivial=True)


def run_lib(ctx, spec):
    libreplay.prepare()
    install(ctx)
    Mon.origin = 'lib'
    Mon.sample_every = 1
    bins = libreplay.partition(spec['parts'])
    for name in bins[spec['i']]:
        try:
            for item in libreplay.iter_theorems(name, ctx.rng, spec['frac'], want_proof=False):
                try:
                    libreplay.replay_steps(item)
                    ctx.count('lib_theorems_replayed')
                except Exception as e:
                    ctx.count('lib_replay_error:' + type(e).__name__)
        except Exception as e:
            ctx.count('lib_theory_error:' + type(e).__name__)
            ctx.note('theory %s: %s %s' % (name, type(e).__name__, str(e)[:200]))


def run_shard(ctx, spec):
    from logic import basic
    if 'replay' in spec:
        basic.load_theory('logic_base')
        install(ctx)
        from logic import matcher
        from kernel.term import Inst
        w = spec['replay']['witness']
        Mon.origin = 'replay'
        pat, t = S.from_json(w['pat']), S.from_json(w['t'])
        inst = None
        if w.get('inst_in'):
            inst = Inst()
            for k, v in w['inst_in'].items():
                inst[k] = S.to_repo_term(S.from_json(v))
        try:
            matcher.first_order_match(S.to_repo_term(pat), S.to_repo_term(t), inst)
        except Exception as e:
            ctx.note('replay: match raised %s' % type(e).__name__)
        ctx.case('replay', sample={'pattern': S.tm_str(pat), 'target': S.tm_str(t)})
        return
    if spec['kind'] == 'gen':
        basic.load_theory('logic_base')
        install(ctx)
        run_gen(ctx, spec)
    else:
        run_lib(ctx, spec)
