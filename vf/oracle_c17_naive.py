"""Reference model for C17: entailment of ground equalities by reflexivity, symmetry,
transitivity and congruence, computed as a naive fixpoint over an explicit relation.

No union-find, no use lists, no lookup table, no proof forest: the relation is a list of
bit rows (row[x] has bit y  <=>  x ~ y is derived) and the rules are applied until
nothing changes.  Nodes are 0..n-1; `app` maps an application node to the pair
(function-or-first-argument node, argument node) it is the application of.  For the raw
closure of prover/congc.py an equation f(a1,a2)=a becomes the asserted pair
(app node of (a1,a2), a); for HOL terms every Comb node is an application node of
(fun, arg).

Adding nodes that do not occur in the asserted pairs never changes which pairs of the
other nodes are related (congruence closure is conservative over extra terms), so one
universe per case can serve every prefix and every explanation.
"""


def close(n, app, pairs, congruence=True):
    row = [1 << i for i in range(n)]                      # reflexivity
    for x, y in pairs:                                    # the merged equations, both ways
        row[x] |= 1 << y
        row[y] |= 1 << x
    apps = sorted(app)
    changed = True
    while changed:
        changed = False
        again = True
        while again:                                      # symmetry + transitivity to a fixpoint
            again = False
            for x in range(n):
                r = row[x]
                acc = r
                m = r
                while m:
                    low = m & -m
                    y = low.bit_length() - 1
                    m ^= low
                    acc |= row[y]                         # x~y, y~z  =>  x~z
                    if not (row[y] >> x) & 1:             # x~y  =>  y~x
                        row[y] |= 1 << x
                        again = True
                if acc != r:
                    row[x] = acc
                    again = True
        if congruence:
            for i, p in enumerate(apps):
                p1, p2 = app[p]
                rp = row[p]
                for q in apps[i + 1:]:
                    if (rp >> q) & 1:
                        continue
                    q1, q2 = app[q]
                    if (row[p1] >> q1) & 1 and (row[p2] >> q2) & 1:   # a1~b1, a2~b2 => f(a1,a2)~f(b1,b2)
                        row[p] |= 1 << q
                        row[q] |= 1 << p
                        rp = row[p]
                        changed = True
    return row


def related(row, x, y):
    return bool((row[x] >> y) & 1)


def calibrate():
    """hand-computed instances; raises if the model is wrong (shard then crashes -> inconclusive)."""
    # nodes: a0 b1 c2 d3 e4, p5=f(a,c), q6=f(b,c), r7=f(c,a)
    app = {5: (0, 2), 6: (1, 2), 7: (2, 0)}
    r = close(8, app, [(5, 3), (6, 4), (0, 1)])
    assert related(r, 3, 4) and related(r, 4, 3) and not related(r, 0, 2) and not related(r, 3, 0)
    assert not related(r, 7, 5)
    r = close(8, app, [(5, 3), (6, 4), (0, 1)], congruence=False)
    assert not related(r, 3, 4) and related(r, 0, 1)
    r = close(8, app, [(5, 3), (6, 4)])
    assert not related(r, 3, 4)
    # f(a,a)=a chain: g0 = f(a,a) = a, then f(f(a,a),a) ~ a : nodes a0, p1=f(a,a), q2=f(p,a)
    r = close(3, {1: (0, 0), 2: (1, 0)}, [(1, 0)])
    assert related(r, 2, 0)
    r = close(3, {1: (0, 0), 2: (1, 0)}, [])
    assert not related(r, 2, 0) and not related(r, 1, 0) and related(r, 2, 2)
    # transitivity chain + congruence needing two rounds: a=b, f(a,a)=c, f(b,b)=d, f(c,c)=e, f(d,d)=h
    # nodes a0 b1 c2 d3 e4 h5, 6=f(a,a) 7=f(b,b) 8=f(c,c) 9=f(d,d)
    app = {6: (0, 0), 7: (1, 1), 8: (2, 2), 9: (3, 3)}
    r = close(10, app, [(0, 1), (6, 2), (7, 3), (8, 4), (9, 5)])
    assert related(r, 4, 5) and related(r, 2, 3)
    r = close(10, app, [(6, 2), (7, 3), (8, 4), (9, 5)])
    assert not related(r, 4, 5) and not related(r, 2, 3)
    return True
